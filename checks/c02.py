"""C02 scheduler runs each due tasker once per tick, on its period, in order.
Engine A (flo), real Skedder: a configuration grid (tick period x per-tasker periods x
front/mid/back placement x declaration order x one abort x one period-change bid) is run
through the real `Skedder.run`; a reference scheduler written from the statement is compared
with the observed runs at every tick."""
META = dict(
    engine="flo", level="model_checking",
    technique="exhaustive configuration grid run through the real Skedder, reference scheduler (the statement's recurrence) "
              "compared tick by tick",
    text="Houses of 1-3 scripted Tasker subclasses (real Tasker control protocol) with every period in {0, T/2, T, 2T, 2.5T, 3T, 5T}, "
         "every front/mid/back placement and declaration order, one abort (own status, generator return, bid by another tasker) at every "
         "tick and one period-changing bid (by itself, by an earlier or by a later tasker) at every tick, for dyadic ticks T in "
         "{1/16..1} and decimal ticks {0.05, 0.1, 0.2, 0.3}, start stamps 0 and 3T; plus FloScript framers built by the real Builder "
         "whose period is changed with `bid run .. at p`. Every tick's ordered run list must equal the reference scheduler's.",
    note="Decimal ticks: due times are the float sums the statement's recurrence gives on the observed stamps (drift against the "
         "decimal ideal is counted, not raised); a tasker whose period never exceeds the tick must run at every tick on every "
         "grid. Run lengths are bounded by the horizon (12 ticks quick, 20 for decimal ticks; 24 thorough).",
)
import itertools
from fractions import Fraction as F

from mc import core

MULTS = [F(0), F(1, 2), F(1), F(2), F(5, 2), F(3), F(5)]
SMALL = [F(0), F(1), F(5, 2)]
DYADIC = [F(1, 16), F(1, 8), F(1, 4), F(1, 2), F(1)]
DECIMAL = [F(1, 20), F(1, 10), F(1, 5), F(3, 10)]
SLOTS = "fmb"


def arrangements(n):
    """All (slot per tasker in declaration order); taskers are declared a, b, c.  Every run
    order of every placement arises: the run order is slots f<m<b, declaration order inside."""
    return list(itertools.product(SLOTS, repeat=n))


def run_order(slots):
    names = "abc"[:len(slots)]
    return [n for s in SLOTS for n, sl in zip(names, slots) if sl == s]


# --------------------------------------------------------------------------- configurations

def configs(tier):
    """Deterministic, simplest first.  cfg = (T, t0mult, slots, mults, events)
    events: tuple of (actor, tick, kind, target, mult)"""
    H = 24 if tier == "thorough" else 12
    ticks_all = DYADIC + DECIMAL
    out = []
    # family A: periods x placement, no events
    for n in (1, 2, 3):
        msets = MULTS if (n < 3 or tier == "thorough") else [F(0), F(1), F(2), F(5, 2)]
        for T in ticks_all:
            for t0 in ((0, 3) if n < 3 else (0,)):
                for slots in arrangements(n):
                    for mults in itertools.product(msets, repeat=n):
                        out.append((T, t0, slots, mults, ()))
    # family B: one abort.  two taskers (three in thorough) ; kind x tick x who
    evticks = range(H) if tier == "thorough" else range(0, 8)
    Ts = ticks_all if tier == "thorough" else [F(1, 8), F(1), F(1, 10), F(3, 10)]
    for n in ((2, 3) if tier == "thorough" else (2,)):
        msets = MULTS if n == 2 else SMALL
        for T in Ts:
            for slots in arrangements(n):
                if n == 3 and len(set(slots)) == 1 and slots[0] != "m":
                    continue
                for mults in itertools.product(msets, repeat=n):
                    for j in evticks:
                        out.append((T, 0, slots, mults, (("a", j, "abort-status", "a", None),)))
                        out.append((T, 0, slots, mults, (("a", j, "abort-return", "a", None),)))
                        out.append((T, 0, slots, mults, (("b", j, "bid-abort", "a", None),)))
    # family C: one period change of a, by itself or by b (b earlier or later in the run order by placement)
    for T in Ts:
        for slots in (("m", "m"), ("b", "f"), ("f", "b")):
            for mults in itertools.product(MULTS, (F(0), F(2))):
                for new in MULTS:
                    if new == mults[0]:
                        continue
                    for j in evticks:
                        out.append((T, 0, slots, mults, (("a", j, "bid-period", "a", new),)))
                        out.append((T, 0, slots, mults, (("b", j, "bid-period", "a", new),)))
    # family C2 (thorough): abort of b combined with a period change of a
    if tier == "thorough":
        for T in (F(1, 8), F(1, 10)):
            for slots in (("m", "m"), ("b", "f")):
                for mults in itertools.product(SMALL + [F(2)], (F(0), F(2))):
                    for new in SMALL + [F(2)]:
                        if new == mults[0]:
                            continue
                        for j in range(0, 8):
                            for j2 in range(0, 8):
                                out.append((T, 0, slots, mults, (("b", j, "bid-period", "a", new),
                                                                 ("b", j2, "abort-status", "b", None))))
    return out, H


def cfg_str(cfg):
    T, t0, slots, mults, events = cfg
    s = "tick=%s t0=%s*tick " % (T, t0)
    s += " ".join("%s:%s@%s*tick" % (n, dict(f="front", m="mid", b="back")[sl], m)
                  for n, sl, m in zip("abc", slots, mults))
    for actor, j, kind, target, new in events:
        s += " | %s at tick>=%d %s %s%s" % (actor, j, kind, target, "" if new is None else " to %s*tick" % new)
    return s


# --------------------------------------------------------------------------- reference

def reference(order, periods, events, stamps, add=lambda a, b: a + b):
    """The statement as a scheduler.  order: names in run order; periods: name -> period;
    stamps: tick times.  A tasker's first due time is the start time; it runs in a tick iff it
    is still scheduled and the tick's time is at least its due time, at most once, in order;
    after a run its due time advances by its period as it is then (so a bid's period applies
    from the next reschedule); an aborted tasker leaves for good.
    Returns (runs per tick, canonical states per tick, names still scheduled at the end)."""
    due = {n: stamps[0] for n in order}
    per = dict(periods)
    alive = list(order)
    fired = set()
    abort_pending = set()
    out = []
    states = []
    reference.dead_before = []       # per tick: names that had left the schedule before it
    for j, S in enumerate(stamps):
        if not alive:
            break
        reference.dead_before.append(set(order) - set(alive))
        ran = []
        for n in list(alive):
            if due[n] > S:
                continue
            ran.append(n)
            dead = n in abort_pending
            for i, (actor, tj, kind, target, new) in enumerate(events):
                if actor != n or i in fired or tj > j:
                    continue
                fired.add(i)
                if kind in ("abort-status", "abort-return"):
                    dead = True
                elif kind == "bid-abort":
                    abort_pending.add(target)
                elif kind == "bid-period":
                    per[target] = new
            if dead:
                alive.remove(n)
            else:
                due[n] = add(due[n], per[n])
        out.append(ran)
        states.append(tuple((n, due[n] - S, per[n]) for n in alive))
    return out, states, list(alive)


# --------------------------------------------------------------------------- real run

def real_run(cfg, H):
    from mc.flo import sked
    from ioflo.base.globaling import ACTIVE, ABORT
    T, t0m, slots, mults, events = cfg
    tick = float(T)
    house = sked.fresh_house()
    log = []
    names = "abc"[:len(slots)]
    taskers = {}
    fired = set()
    state = {"res": None}

    def curtick():
        return len(state["res"].stamps) - 1

    def pre(t, control, n):
        j = curtick()
        act = None
        for i, (actor, tj, kind, target, new) in enumerate(events):
            if actor != t.name or i in fired or tj > j:
                continue
            if kind == "abort-status":
                fired.add(i)
                act = "aborted"
            elif kind == "abort-return":
                fired.add(i)
                act = "return"
        return act

    def post(t, control, n):
        j = curtick()
        for i, (actor, tj, kind, target, new) in enumerate(events):
            if actor != t.name or i in fired or tj > j:
                continue
            if kind == "bid-abort":
                fired.add(i)
                taskers[target].desire = ABORT                       # what `bid abort target` does
            elif kind == "bid-period":
                fired.add(i)
                taskers[target].period = max(0.0, float(new * T))    # what `bid run target at p` does

    for n, sl, m in zip(names, slots, mults):
        t = sked.ScriptTasker(log=log, pre=pre, post=post, name=n, store=house.store,
                              period=float(m * T), schedule=ACTIVE)
        taskers[n] = t
        dict(f=house.fronts, m=house.mids, b=house.backs)[sl].append(t)
    house.orderTaskables()

    res = sked.Result()
    res.log = log
    state["res"] = res
    sked.run_house(house, tick, H, stamp=float(t0m * T), res=res)
    return res, log


# --------------------------------------------------------------------------- worker

def diagnose(real, ref, dead):
    names = [n for n, c in real]
    if len(set(names)) != len(names):
        return "runs-twice-in-a-tick"
    if any(n in dead for n in names):
        return "aborted-tasker-ran-again"
    if set(names) == set(ref):
        return "order-within-tick"
    if set(names) - set(ref):
        return "ran-when-not-due"
    return "not-run-when-due"


DECIMAL_MIN_HORIZON = 20     # 0.1 + 0.1 + ... and k * 0.1 first differ at k = 15; 0.3 at k = 6


def horizon_for(T, H):
    return max(H, DECIMAL_MIN_HORIZON) if T in DECIMAL else H


def check_cfg(cfg, H, p):
    T, t0m, slots, mults, events = cfg
    H = horizon_for(T, H)
    names = "abc"[:len(slots)]
    order = run_order(slots)
    res, log = real_run(cfg, H)
    p.traces += 1
    p.evaluations += 1
    cs = cfg_str(cfg)
    if res.outcome != "returned":
        p.violation("run-did-not-return|" + res.outcome, cs, "Skedder.run %s: %r" % (res.outcome, res.exc),
                    dict(config=cs, outcome=res.outcome))
        return
    stamps = res.stamps
    # entries logged after the horizon interrupt belong to the skedder's final abort sweep (C03)
    mark = res.mark if res.mark is not None else len(log)
    passes, swept = log[:mark], log[mark:]
    ended_itself = res.mark is None
    ticks = [[] for _ in stamps]
    fperiods = {n: float(m * T) for n, m in zip(names, mults)}
    fevents = tuple((a, j, kind, tg, None if new is None else max(0.0, float(new * T))) for a, j, kind, tg, new in events)
    ref, _, alive_end = reference(order, fperiods, fevents, stamps)
    dead_before = reference.dead_before
    idx = {s: i for i, s in enumerate(stamps)}
    if len(idx) != len(stamps):
        p.violation("stamps-not-increasing", cs, "tick stamps repeat: %r" % (stamps,), dict(config=cs, stamps=stamps))
        return
    for name, stamp, control in passes:
        if stamp not in idx:
            p.violation("run-at-unknown-stamp", cs, "%s received %s at stamp %r which is no tick's time" % (name, control, stamp),
                        dict(config=cs, stamps=stamps))
            return
        ticks[idx[stamp]].append((name, control))
    if ended_itself and alive_end:
        # no tasker in these configurations ever stops, so the run may only end by itself when every
        # tasker has aborted; here it ended (before the horizon interrupt) with taskers still scheduled
        p.violation("run-length|ended-with-scheduled-running-taskers", cs,
                    "run ended by itself after %d tick(s) although %r were still scheduled and running; log %r"
                    % (len(stamps), alive_end, log[:8]),
                    dict(config=cs, stamps=stamps, log=log[:40]))
        return
    # dyadic grid: observed stamps must be the arithmetic ideal exactly
    exact = T in DYADIC
    if exact:
        ideal = [F(t0m) * T + j * T for j in range(len(stamps))]
        if [F(s) for s in stamps] != ideal:
            p.violation("tick-time-not-ideal", cs, "stamps %r are not t0 + j*tick" % (stamps,), dict(config=cs, stamps=stamps))
            return
    # compare tick by tick
    expected_len = len(ref)
    for j in range(max(len(ticks), expected_len)):
        real_j = ticks[j] if j < len(ticks) else None
        ref_j = ref[j] if j < len(ref) else None
        p.states += 1
        if real_j is None or ref_j is None:
            # the run ended before / after the reference's scheduler emptied
            if real_j is None and ref_j == []:
                continue
            p.violation("run-length", cs, "run had %d ticks, reference %d" % (len(ticks), len(ref)),
                        dict(config=cs, stamps=stamps, observed=ticks, expected=ref))
            return
        p.transitions += len(real_j)
        if [n for n, c in real_j] != ref_j:
            g = diagnose(real_j, ref_j, dead_before[j] if j < len(dead_before) else set(order))
            p.violation("schedule|" + g, cs,
                        "tick %d (time %r): ran %r, the statement's scheduler runs %r [%s]"
                        % (j, stamps[j], [n for n, c in real_j], ref_j, g),
                        dict(config=cs, tick=j, stamps=stamps, observed=[[n for n, c in t] for t in ticks], expected=ref,
                             how="House with ScriptTaskers a,b,c (period = mult*tick, placement as named) under Skedder(period=tick, stamp=t0)"))
            return
    # "... (so every tick when p does not exceed the tick period)": binding on every grid, decimal included.
    # Sound for the unchanged arithmetic: stamp and due time start equal and advance by float additions of
    # T and p <= T; rounding is monotone, so due <= stamp holds at every tick, with equality for p == T.
    for n, m in zip(names, mults):
        if m > 1 or any(kind == "bid-period" and tg == n and new > 1 for a, j, kind, tg, new in events):
            continue
        for j in range(len(ticks)):
            if j < len(dead_before) and n in dead_before[j]:
                break
            if n not in [x for x, c in ticks[j]]:
                p.violation("schedule|period-not-exceeding-tick-skipped-a-tick", cs,
                            "%s has period %r <= tick %r and is still scheduled, but did not run in tick %d (time %r); it ran in ticks %r"
                            % (n, float(m * T), float(T), j, stamps[j], [i for i, t in enumerate(ticks) if n in [x for x, c in t]]),
                            dict(config=cs, tick=j, stamps=stamps, observed=[[x for x, c in t] for t in ticks],
                                 how="House with ScriptTaskers (period = mult*tick) under Skedder(period=tick, stamp=t0)"))
                return
    if exact:
        # arithmetic ideal: the same recurrence in exact rationals over ideal stamps
        iperiods = {n: m * T for n, m in zip(names, mults)}
        ievents = tuple((a, j, kind, tg, None if new is None else new * T) for a, j, kind, tg, new in events)
        iref, istates, _ = reference(order, iperiods, ievents, ideal)
        if iref != ref:
            p.violation("float-recurrence-differs-from-ideal-on-dyadic-grid", cs, "harness arithmetic inexact", dict(config=cs))
            return
        for st in istates:
            p.nontrivial(repr(tuple((n, d / T, q / T) for n, d, q in st)))
        p.outcome("dyadic: equals arithmetic ideal at every tick")
    else:
        ideal = [F(t0m) * T + j * T for j in range(len(stamps))]
        iperiods = {n: m * T for n, m in zip(names, mults)}
        ievents = tuple((a, j, kind, tg, None if new is None else new * T) for a, j, kind, tg, new in events)
        iref, istates, _ = reference(order, iperiods, ievents, ideal)
        for st in istates:
            p.nontrivial(repr(tuple((n, d / T, q / T) for n, d, q in st)))
        if iref != ref:
            p.notes["decimal configurations whose run ticks differ from the decimal ideal (float accumulation)"] += 1
            p.outcome("decimal: equals the recurrence on observed stamps; differs from decimal ideal")
            if not p.extra.get("decimal_drift_example"):
                p.extra["decimal_drift_example"] = dict(config=cs, observed=ref, decimal_ideal=iref, stamps=stamps)
        else:
            p.outcome("decimal: equals the recurrence on observed stamps and the decimal ideal")
    if events:
        p.outcome("with %s" % "+".join(sorted(set(e[2] for e in events))))
    if p.evaluations % 4001 == 1:
        p.sample(dict(config=cs, stamps=stamps[:6], runs_per_tick=[[n for n, c in t] for t in ticks][:8]))


# --------------------------------------------------------------------------- FloScript family

def flo_programs(tier):
    """ctl changes tgt's period with `bid run tgt at p` in the enter action of frame c<j>
    (entered in tick j); both orders of the two framers."""
    Ts = [F(1, 8), F(1, 10)] if tier != "thorough" else [F(1, 16), F(1, 8), F(1), F(1, 10), F(3, 10)]
    ps = [F(0), F(1), F(2), F(5, 2)] if tier != "thorough" else MULTS
    js = (1, 2, 4) if tier != "thorough" else range(1, 8)
    out = []
    for T in Ts:
        for first in ("ctl", "tgt", "tgt-front", "tgt-back"):
            for p1 in ps:
                for p2 in ps:
                    if p1 == p2:
                        continue
                    for j in js:
                        out.append((T, first, p1, p2, j))
    return out


def flo_text(T, first, p1, p2, j):
    def num(x):
        return repr(float(x))
    ctl = ["framer ctl be active first c0"]
    for i in range(j + 1):
        ctl.append("   frame c%d" % i)
        if i == j:
            ctl.append("      bid run tgt at %s" % num(p2 * T))
        else:
            ctl.append("      go next")
    place = {"tgt-front": " in front", "tgt-back": " in back"}.get(first, "")
    tgt = ["framer tgt be active%s first t0 at %s" % (place, num(p1 * T)),
           "   frame t0",
           "      do rec with tag \"t\" at recur"]
    blocks = [ctl, tgt] if first == "ctl" else [tgt, ctl]
    return "house h\n\n" + "\n\n".join("\n".join(b) for b in blocks) + "\n"


def check_flo(prog, H, p):
    from mc.flo import real
    T, first, p1, p2, j = prog
    text = flo_text(*prog)
    cs = "floscript tick=%s tgt@%s*tick %s; ctl: bid run tgt at %s*tick in tick %d" % (T, p1, first, p2, j)
    b = real.build_text(text)
    if not b.ok:
        raise core.BrokenCheck("C02 FloScript family does not build: %r\n%s" % (b, text))
    H = horizon_for(T, H)
    res = real.run(b.houses, tick=float(T), horizon=H)
    p.traces += 1
    p.evaluations += 1
    if res.outcome != "returned":
        p.violation("run-did-not-return|" + res.outcome, cs, "Skedder.run %s" % res.outcome, dict(program=text))
        return
    # the back probe of real.run stops recording stamps once it has been told to stop at the horizon;
    # ctl has period 0, so the stamps at which controls were delivered complete the list of ticks
    stamps = sorted(set(res.stamps) | set(s for s, n, c, st in res.controls if c != "abort"))
    order = {"ctl": ["ctl", "tgt"], "tgt": ["tgt", "ctl"], "tgt-front": ["tgt", "ctl"], "tgt-back": ["ctl", "tgt"]}[first]
    if not stamps or len(stamps) < min(H, j + 2):
        p.violation("schedule-floscript|not-run-when-due", cs,
                    "only %d ticks had any framer run (stamps %r); both framers are due from the start time on" % (len(stamps), stamps),
                    dict(program=text, tick_period=float(T), controls=res.controls[:20]))
        return
    ref, states, _ = reference(order, {"ctl": 0.0, "tgt": float(p1 * T)},
                            (("ctl", j, "bid-period", "tgt", float(p2 * T)),), stamps)
    idx = {s: i for i, s in enumerate(stamps)}
    ticks = [[] for _ in stamps]
    sweep = 0
    for stamp, name, control, status in res.controls:
        if control == "abort":
            sweep += 1
            continue                     # the final sweep (nobody bids abort here)
        if stamp not in idx:
            p.violation("run-at-unknown-stamp", cs, "%s ran at %r" % (name, stamp), dict(program=text, stamps=stamps))
            return
        ticks[idx[stamp]].append(name)
    for k in range(len(stamps)):
        p.states += 1
        p.transitions += len(ticks[k])
        exp = ref[k] if k < len(ref) else []
        if ticks[k] != exp:
            g = diagnose([(n, None) for n in ticks[k]], exp, set())
            p.violation("schedule-floscript|" + g, cs,
                        "tick %d (time %r): ran %r, the statement's scheduler runs %r" % (k, stamps[k], ticks[k], exp),
                        dict(program=text, tick_period=float(T), stamps=stamps, observed=ticks, expected=ref))
            return
    for n, ok in (("ctl", True), ("tgt", p1 <= 1 and p2 <= 1)):
        if ok:
            for k in range(len(stamps)):
                if n not in ticks[k]:
                    p.violation("schedule-floscript|period-not-exceeding-tick-skipped-a-tick", cs,
                                "%s has a period <= tick and is scheduled, but did not run in tick %d (time %r)" % (n, k, stamps[k]),
                                dict(program=text, tick_period=float(T), stamps=stamps, observed=ticks))
                    return
    for st in states:
        p.nontrivial("flo" + repr(tuple((n, round((d) / float(T), 6), round(q / float(T), 6)) for n, d, q in st)))
    p.outcome("floscript bid-at-period: equals reference at every tick")
    if p.evaluations % 97 == 1:
        p.sample(dict(program=text, runs_per_tick=ticks[:8]))


# --------------------------------------------------------------------------- driver

def work(arg):
    kind, items, H = arg
    core.use_repo()
    p = core.Part()
    for it in items:
        if p.violations and len(p.violations) >= 8:
            break
        if kind == "grid":
            check_cfg(it, H, p)
        else:
            check_flo(it, H, p)
    return p


def run():
    cfgs, H = configs(core.TIER)
    progs = flo_programs(core.TIER)
    ck = core.Check("C02", "model_checking", META["technique"])
    n = max(1, core.NPROC * 6)
    size = -(-len(cfgs) // n)
    jobs = [("grid", cfgs[i:i + size], H) for i in range(0, len(cfgs), size)]
    fsize = -(-len(progs) // max(1, core.NPROC))
    jobs += [("flo", progs[i:i + fsize], H) for i in range(0, len(progs), fsize)]
    ck.merge(core.pmap(work, jobs))
    ck.coverage_extra = dict(grid_configurations=len(cfgs), floscript_programs=len(progs), horizon_ticks=H, horizon_ticks_decimal=max(H, DECIMAL_MIN_HORIZON),
                             tick_periods=[str(t) for t in DYADIC + DECIMAL],
                             period_multiples_of_tick=[str(m) for m in MULTS])
    ck.assumptions = [
        "reading of `t0 + k*p`: the due time advances by the tasker's period at each reschedule (due_k = due_(k-1) + p), evaluated in "
        "IEEE doubles like every time in ioflo; on the dyadic grid this is exact and is additionally compared with rational arithmetic "
        "on ideal stamps t0 + j*tick; on the decimal grid the recurrence is bound on the observed stamps and the difference to the "
        "decimal ideal (one tick late/early at exact multiples, from float accumulation of stamp += period) is counted in notes, not raised",
        "`every tick when p does not exceed the tick period` is binding on all grids (decimal too): a tasker whose period is <= the "
        "tick throughout the run must be run in every tick while it is scheduled; decimal ticks run for at least 20 ticks because "
        "accumulated and multiplied multiples of 0.1 first differ at the 15th",
        "`a period changed by a bid` = assignment of tasker.period (what wanting.Want*.action does); also exercised through real "
        "FloScript `bid run tgt at p`",
        "`run` = the tasker's generator is sent a control in the skedder's pass; the final abort sweep is C03's subject and is excluded",
        "the run is ended at the horizon by KeyboardInterrupt raised from store.changeStamp (the documented way to stop the loop)",
    ]
    return ck.finish(
        rule="every configuration of the stated grid (1-3 taskers) run for %d ticks; non-trivial = distinct scheduler state "
             "(per tasker: due time relative to now and period, in ticks; set of scheduled taskers); states = ticks compared, "
             "transitions = tasker runs compared (decimal ticks: %d ticks)" % (H, max(H, DECIMAL_MIN_HORIZON)),
        exhaustive=True)


if __name__ == "__main__":
    core.main(run)
