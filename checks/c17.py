"""C17 direct data literals convert to the documented typed values.  Engine A (flo), exhaustive grid.

Every literal of a grammar (complete up to the stated size) is written into every literal context of
a one-frame FloScript program, the program is built with the real Builder through the in-memory seam,
and the value held by the built share / act parameter (and, for put/set/inc/do-with, the value seen
after the action ran for one tick under the real Skedder) is compared on type and value with an
independent reference converter written from the documented conversion order.
"""
META = dict(
    engine="flo", level="exploration",
    technique="bounded-exhaustive literal grammar x every literal context, built with the real Builder and compared "
              "with an independent reference converter (no sampling)",
    text="All literals of a grammar complete up to its stated size (sign x digit strings {0,1,10,007,255,010,012,0100,0250,00010} x fraction x exponent; 0b/0o tokens; "
         "0x/bare hex; underscores; nan/inf; complex; none/true/yes/false/no in three case variants and near misses; double and "
         "single quoted strings incl. spaces, the other quote, reserved words; dotted paths with leading/trailing dot; lat/lon "
         "N E S W both cases; the six point forms x sign/fraction variants) are placed in each of 15 literal contexts (init, "
         "put field/bare, set, inc, do with/per/cum, need goal on a share and on elapsed, tolerance, bid at, timeout, repeat) of "
         "a FloScript program built by the real Builder; the built value (share field, act parameter, ioinit/init entry, need "
         "goal) and the value observed after one real Skedder tick are compared on type and value with a reference converter "
         "written from the documented order (quoted, none/bool, path, lat/lon, points, int, hex, float, complex; need goals "
         "skip path and points; periods/tolerance are numbers only).  A second grid round-trips finite numbers, booleans, None, "
         "points and quote-free strings through their literal form.",
    note="Literal forms the documentation does not define are counted but not judged: text matching no documented form, bare hex "
         "digit strings that are also float syntax (1e5), hex words / inf / nan / j where a share path is also possible, "
         "negative or complex periods and timeouts, non-integral repeat counts, non-numeric non-string inc data.",
)
import itertools
import math

from mc import core

TICK = 0.125

# ----------------------------------------------------------------------------- literal grammar


def grammar(tier):
    """[(class, literal)] deterministic, simplest first inside each class."""
    out = []
    seen = set()

    def add(cls, lit):
        if lit not in seen:
            seen.add(lit)
            out.append((cls, lit))

    # 010, 012, 0100, 0250, 00010: leading zero AND decimal reading != hex reading (007 alone cannot tell the two apart)
    digs = ["0", "1", "10", "007", "255", "010", "012", "0100", "0250", "00010"]
    signs = ["", "-", "+"]
    fracs = ["", ".", ".0", ".5", ".25"]
    exps = ["", "e1", "e+1", "e-1", "E2", "e05"]
    if tier == "thorough":
        digs += ["9", "65535", "4294967296"]
        fracs += [".125", ".999"]
        exps += ["E-2", "e+10", "e308", "e-400", "e400"]
    for e in exps:
        for f in fracs:
            for d in digs:
                for s in signs:
                    add("number", s + d + f + e)
    for s in signs:
        for f in [".5", ".0", ".25"]:
            for e in ["", "e1", "e-1"]:
                add("number", s + f + e)
    # malformed numbers
    for lit in ["1e", "e", "1e+", "--1", "+-1", "1..0", "1.0.0", "1e1.5", "0x", "0xg", "1x", "1_", "_1", "1__0",
                "1,5", "1/2", "1+1", "-", "+", "."]:
        add("malformed", lit)
    # hex
    hexd = ["1f", "FF", "a", "10", "dead", "1e5", "e5", "abc", "0", "7fffffff", "1F2b"]
    for h in hexd:
        for p in ["0x", "0X", ""]:
            for s in signs:
                add("hex", s + p + h)
    # other python radix prefixes: not documented forms; 0b.. is a bare hex digit string (0b11 = 0xb11), 0o.. is nothing
    for t in ["0b11", "0B11", "0b0", "0b12", "0o17", "0O17", "0o8", "0b", "0o", "00b11", "0b1_1"]:
        for s in signs:
            add("radix", s + t)
    # underscores
    for lit in ["1_000", "1_0", "0_0", "1_000.5", "1_0e1_0", "0x1_f", "-1_000", "ff_ff", "1_000_000"]:
        add("underscore", lit)
    # nan / inf
    for w in ["nan", "inf", "infinity", "NaN", "Inf", "INF", "Infinity", "NAN"]:
        for s in signs:
            add("naninf", s + w)
    # complex
    for lit in ["1j", "-1j", "+1j", "1J", "0j", "1.5j", "1e1j", "1+2j", "1-2j", "-1+2j", "1.5-2.5j", "1e1+1e1j",
                "(1+2j)", "(1j)", "j", "-j", "1+j", "1-j", "(j)", "1+2i", "1j+2", "(1+2j", "1+2j)", "1e-1j", "1e+1-1e-1j"]:
        add("complex", lit)
    # none / booleans, 3 case variants, near misses
    for w in ["none", "true", "yes", "false", "no"]:
        for v in [w, w.capitalize(), w.upper()]:
            add("nonebool", v)
    for w in ["tRuE", "truee", "y", "n", "t", "f", "nil", "null", "off", "nope", "yess", "none1", "true.", ".true",
              "true.x", "None.", "0true"]:
        add("nonebool-near", w)
    # quoted strings
    inner = ["", "a", "a b", " a", "a ", "true", "none", "10", "1e5", "0x1f", ".a.b", "a.b", "10N5.5", "1x2y", "#x", "a # b",
             "to", "into", "with", "and", "+-", "==", "value", "x y z", "  ", "a,b", "A"]
    for t in inner:
        add("quoted", '"%s"' % t)
        add("quoted", "'%s'" % t)
    for t in ["it's", "'", "''", "'a'", "a'b c", "' '"]:
        add("quoted", '"%s"' % t)
    for t in ['say "hi"', '"', '""', '"a"', 'a"b c']:
        add("quoted", "'%s'" % t)
    # paths
    for lit in ["a", "a.b", ".a", ".a.b", "a.", ".a.", "a.b.c", "a.b.c.", "_a", "a_1.b2", "A.B", "a1", "x", "e", "E5", "xy",
                "a..b", "..a", "a..", "1a", "a.1b", "a-b", "a.b-", ".1", "a.b.", "zed.ked", "stuff", "face", "dead.beef",
                "inf.x", "nan_", "x1y", "n1e", "j2", "value", "tag"]:
        add("path", lit)
    # lat / lon
    degs = ["0", "10", "120", "007"]
    mins = ["5.5", "0.0", "30.75", "59.999", "5", "5.", ".5", "05.50"]
    for m in mins:
        for d in degs:
            for L in "NESWnesw":
                add("latlon", d + L + m)
    for lit in ["-10N5.5", "+10N5.5", "10N-5.5", "10.5N5.5", "N5.5", "10N", "10NN5.5", "10N5.5E", "10N5.5.5", "10Q5.5",
                "10N5.5e1", "1e5.5", "10E5", "10e5"]:
        add("latlon-near", lit)
    # points
    c2 = ["1", "-1", "+1", "1.5", "-1.5", "1.", "0", "007", "10.25"]
    if tier == "thorough":
        c2 += ["+0.5", "-007.250", "4294967296"]
    for (a, b) in [("x", "y"), ("n", "e"), ("f", "s")]:
        for up in (False, True):
            A, B = (a.upper(), b.upper()) if up else (a, b)
            for u in c2:
                for v in c2:
                    add("point2", u + A + v + B)
    c3 = ["1", "-1.5", "0.", "+2"] if tier != "thorough" else c2
    for (a, b, c) in [("x", "y", "z"), ("n", "e", "d"), ("f", "s", "b")]:
        for up in (False, True):
            A, B, C = (a.upper(), b.upper(), c.upper()) if up else (a, b, c)
            for u in c3:
                for v in c3:
                    for w in c3:
                        add("point3", u + A + v + B + w + C)
    for lit in ["1x2Y", "1N2e", "1x2e", "1y2x", "1x2y3", "1x2", "1x", "1x2y3z4", "1x2yz", "1xy", "1e2n", "1n2e3", "1f2s3d",
                "1x2y3d", "--1x2y", "1.5.x2y", "1x2y ", "1e1x2y", "1x2e1y", "1f2s", "1F2S3B", "0x1y", "0x1f2s", "1d2e",
                "1n2e3d4"]:
        add("point-near", lit.strip())
    return out


# ----------------------------------------------------------------------------- contexts

# name -> (chain, script lines inside frame s, house level lines before the framer)
CONTEXTS = [
    ("init",       "direct", None,                              "init .t with v {L}"),
    ("put",        "direct", "put v {L} into .t",               None),
    ("put-bare",   "direct", "put {L} into .u",                 None),
    ("set",        "direct", "set .t with v {L}",               None),
    ("inc",        "direct", "inc .n with v {L}",               "init .n with v 1"),
    ("do-with",    "direct", "do lit with v {L}",               None),
    ("do-per",     "direct", "do lit per v {L}",                None),
    ("do-cum",     "direct", "do lit cum v {L}",                None),
    ("goal",       "goal",   "go next if v in .n == {L}",       "init .n with v 1"),
    ("goal-clock", "goal",   "go next if elapsed >= {L}",       None),
    ("tolerance",  "num",    "go next if v in .n == 1 +- {L}",  "init .n with v 1"),
    ("bid-at",     "period", "bid start me at {L}",             None),
    ("timeout",    "num",    "timeout {L}",                     None),
    ("repeat",     "num",    "repeat {L}",                      None),
    ("put-second", "direct", "put w 1 v {L} into .t",           None),
]
RUN_CONTEXTS = ("put", "put-bare", "set", "inc", "do-with", "put-second")


def program(ctx, lit):
    name, chain, line, hline = ctx
    src = ["house h"]
    if hline:
        src.append(hline.replace("{L}", lit))
    src += ["framer f be active first s", "frame s"]
    if line:
        src.append("  " + line.replace("{L}", lit))
    src += ["frame t", "  bid stop all", ""]
    return "\n".join(src)


ABSENT = ("absent",)


def observe(addr, real, ctxname, res):
    """-> ('val', v) | ('indirect', share name) | ABSENT   from the built structures"""
    b = res.builder
    houses = res.houses or (b.houses if b is not None else [])
    if not houses:
        return ABSENT
    house = houses[0]
    if ctxname == "init":
        sh = house.store.fetchShare(".t")
        if sh is None or "v" not in sh:
            return ABSENT
        return ("val", sh["v"])
    fr = None
    for fm in house.framers:
        if fm.name == "f":
            fr = fm.frameNames.get("s")
    if fr is None:
        return ABSENT
    acts = addr.frame_acts(fr)

    def first(pred):
        for ln, ix, act in acts:
            if pred(act):
                return act
        return None

    def named(*names):
        return first(lambda a: addr.actor_class(a) in names or addr.actor_name(a) in names)

    if ctxname in ("put", "put-bare", "set", "inc", "put-second"):
        act = named("PokeDirect", "GoalDirect", "IncDirect")
        if act is None or "sourceData" not in act.parms:
            return ABSENT
        d = act.parms["sourceData"]
        key = "value" if ctxname == "put-bare" else "v"
        if key not in d:
            return ABSENT
        return ("val", d[key])
    if ctxname in ("do-with", "do-per", "do-cum"):
        act = named("Lit")
        if act is None:
            return ABSENT
        d = {"do-with": act.parms, "do-per": act.ioinits, "do-cum": act.inits}[ctxname] or {}
        if "v" not in d:
            return ABSENT
        return ("val", d["v"])
    if ctxname in ("goal", "goal-clock", "tolerance", "timeout", "repeat"):
        act = named("NeedDirect", "NeedIndirect")
        if act is None:
            return ABSENT
        if ctxname == "tolerance":
            return ("val", act.parms.get("tolerance"))
        g = act.parms.get("goal")
        if addr.actor_class(act) == "NeedIndirect" or addr.actor_name(act) == "NeedIndirect":
            return ("indirect", g.name if hasattr(g, "name") else str(g).lstrip("."))
        return ("val", g)
    if ctxname == "bid-at":
        act = named("WantStart")
        if act is None:
            return ABSENT
        if act.parms.get("period") is None and act.parms.get("source") is not None:
            s = act.parms["source"]
            return ("indirect", s.name if hasattr(s, "name") else str(s).lstrip("."))
        return ("val", act.parms.get("period"))
    raise core.BrokenCheck("unknown context " + ctxname)


def build(real, text):
    """real build; a watchdog hit on a loaded machine is retried once with a long limit"""
    res = real.build_text(text, limit=30.0)
    if res.kind == "Watchdog":
        res = real.build_text(text, limit=120.0)
    return res


def is_real(v):
    return isinstance(v, (int, float)) and not isinstance(v, bool) and v == v


def judge(addr, ctxname, chain, lit, ref, got):
    """-> None (agree) | 'skip' (not defined by the documentation) | (kind, message)"""
    if ref == addr.UNSPEC:
        return "skip"
    if ref == addr.REJECT:
        return "skip"          # text matching no documented literal form: the documentation is silent
    if ref[0] == "indirect":
        want = ref[1].lstrip(".")
        if got == ABSENT:
            return ("path-goal-refused", "path %r refused where an indirect source is documented" % lit)
        if got[0] != "indirect":
            return ("path-taken-as-value", "%r is not a literal value, expected indirect %s, got %s" % (lit, want, addr.show(got[1])))
        if got[1] != want:
            return "skip"      # relative forms (framer./frame./actor.) belong to C13
        return None
    v = ref[1]
    # context post-processing the documentation defines / leaves open
    if ctxname == "inc":
        if isinstance(v, str):
            return None if got == ABSENT else ("inc-string-accepted", "inc accepted string data %r" % (got,))
        if not (isinstance(v, (int, float, complex)) and not isinstance(v, bool)):
            return "skip"
    if ctxname in ("timeout", "repeat", "bid-at"):
        if not is_real(v) or v < 0 or v in (math.inf,):
            return "skip"
        if ctxname == "repeat" and v != int(v):
            return "skip"
        if got == ABSENT or got[0] != "val":
            return ("number-refused", "%s %s: documented number %s refused / not a value (%r)" % (ctxname, lit, addr.show(v), got))
        g = got[1]
        if not is_real(g) or g != v:
            return ("wrong-value", "%s %s: expected %s, built %s" % (ctxname, lit, addr.show(v), addr.show(g)))
        return None
    if got == ABSENT:
        return ("literal-refused", "%s: documented literal %s (= %s) was refused" % (ctxname, lit, addr.show(v)))
    if got[0] != "val":
        return ("value-taken-as-path", "%s: literal %s (= %s) was taken as an indirect path %s" % (ctxname, lit, addr.show(v), got[1]))
    if not addr.same_value(v, got[1]):
        tkind = "wrong-type" if not (type(v) is type(got[1]) or isinstance(v, addr.Pt)) else "wrong-value"
        return (tkind, "%s: literal %s must be %s, built %s" % (ctxname, lit, addr.show(v), addr.show(got[1])))
    return None


def klass(addr, v):
    if isinstance(v, tuple) and v and v[0] in ("unspec", "reject", "indirect"):
        return v[0]
    x = v[1]
    if isinstance(x, addr.Pt):
        return "point"
    return type(x).__name__


# ----------------------------------------------------------------------------- run-time observation

def run_observe(addr, real, ctxname, res):
    """run the built program one tick; -> ('val', v) | ABSENT | ('runfail', text)"""
    del addr.LITLOG[:]
    watch = [".t", ".u", ".n"]
    rr = real.run(res.houses, tick=TICK, horizon=1, watch=watch, limit=60.0)
    if rr.outcome != "returned" or not rr.ticks:
        return ("runfail", rr.outcome + " " + repr(rr.exc))
    shares = rr.ticks[0]["shares"]

    def field(path, f):
        if path not in shares:
            return ABSENT
        d = dict(shares[path][0])
        return ("val", d[f]) if f in d else ABSENT
    if ctxname in ("put", "set", "put-second"):
        return field(".t", "v")
    if ctxname == "put-bare":
        return field(".u", "value")
    if ctxname == "inc":
        return field(".n", "v")
    if ctxname == "do-with":
        for fm, fr, c, kw in addr.LITLOG:
            if "v" in kw:
                return ("val", kw["v"])
        return ABSENT
    return ABSENT


# ----------------------------------------------------------------------------- round trip

def roundtrip_cases():
    """[(kind, python value or ('pt', kind, coords), literal text, contexts chain filter)]"""
    out = []
    ints = [0, 1, -1, 7, 10, 255, -255, 1000, 2 ** 31, -2 ** 63, 10 ** 20]
    floats = [0.0, -0.0, 0.5, -1.5, 0.1, 1.0 / 3.0, 100000.0, 1e5, 1e16, 1e22, 1e-05, 1.5e-07, 123456789.125,
              1.7976931348623157e308, 5e-324, 2.2250738585072014e-308, -1e16]
    cplx = [1j, -1j, 1 + 2j, -1.5 - 0.5j, 1e16j, 0.5j]
    for v in ints:
        out.append(("int", v, repr(v)))
    for v in floats:
        out.append(("float", v, repr(v)))
    for v in cplx:
        out.append(("complex", v, repr(v)))
    for v in (True, False, None):
        out.append((type(v).__name__, v, repr(v)))
        out.append((type(v).__name__, v, repr(v).lower()))
    strs = ["", "a", "a b", "true", "None", "10", "1e5", "0x1f", ".a.b", "x y z", " a", "a ", "#", "to", "1x2y", "10N5.5",
            "a.b", "A_b", "with data", "-", "+-"]
    for s in strs:
        out.append(("str", s, '"%s"' % s))
        out.append(("str", s, "'%s'" % s))
    out.append(("str", "it's", '"it\'s"'))
    out.append(("str", 'say "hi"', "'say \"hi\"'"))
    coords = [0.0, 1.0, -1.5, 10.25, 255.0]
    for kind in ("xy", "ne", "fs"):
        for a in coords:
            for b in coords:
                out.append(("point", ("pt", kind, (a, b)), "%r%s%r%s" % (a, kind[0], b, kind[1])))
    c3 = [0.0, -1.5, 10.25]
    for kind in ("xyz", "ned", "fsb"):
        for a in c3:
            for b in c3:
                for c in c3:
                    out.append(("point", ("pt", kind, (a, b, c)), "%r%s%r%s%r%s" % (a, kind[0], b, kind[1], c, kind[2])))
    return out


RT_CONTEXTS = ("init", "put", "put-bare", "set", "do-with", "do-cum", "goal")


# ----------------------------------------------------------------------------- worker

CHUNK = 40      # literals per work item: fixed, so that results do not depend on the number of workers


def work(arg):
    kind, start, stop, tier = arg
    core.use_repo()
    from mc.flo import real, addr
    p = core.Part()
    ctxs = {c[0]: c for c in CONTEXTS}
    real.build_text(program(CONTEXTS[1], "0"), limit=60.0)     # warm-up (lazy imports, registries)
    if kind == "grid":
        grid(p, real, addr, grammar(tier)[start:stop], start)
    else:
        roundtrip(p, real, addr, ctxs, roundtrip_cases()[start:stop])
    return p


def grid(p, real, addr, items, base):
    for n, (cls, lit) in enumerate(items):
        for ci, ctx in enumerate(CONTEXTS):
            idx = (base + n) * len(CONTEXTS) + ci
            name, chain = ctx[0], ctx[1]
            ref = addr.ref_convert(lit, chain)
            text = program(ctx, lit)
            res = build(real, text)
            if res.kind == "Watchdog":
                p.violation("%s|build-hang" % name, lit, "building %s with literal %s did not terminate in 120 s" % (name, lit),
                            dict(script=text))
                continue
            got = observe(addr, real, name, res)
            p.evaluations += 1
            v = judge(addr, name, chain, lit, ref, got)
            if v == "skip":
                p.outcome("%s: undefined by docs (%s)" % (chain, "built" if got != ABSENT else "refused"))
                continue
            p.nontrivial("%s|%s" % (name, lit))
            p.outcome("%s -> %s" % (chain, klass(addr, ref)))
            if idx % 2741 == 0:
                p.sample(dict(context=name, literal=lit, expected=addr.show(ref[1]) if ref[0] == "val" else list(ref),
                              built=(addr.show(got[1]) if got[0] == "val" else list(got))))
            if v is not None:
                p.violation("%s|%s|%s" % (name, cls, v[0]), lit, v[1],
                            dict(script=text, context=name, literal=lit, expected=repr(ref), built=repr(got),
                                 build_kind=res.kind, build_exc=repr(res.exc),
                                 how="build the script with ioflo.base.building.Builder and inspect the act parameter / share"))
                continue
            # after the action ran
            if name in RUN_CONTEXTS and ref[0] == "val" and res.ok:
                ran = run_observe(addr, real, name, res)
                p.evaluations += 1
                want = ref[1]
                if name == "inc":
                    if not is_real(want) or isinstance(want, float) and want in (math.inf, -math.inf):
                        continue
                    want = 1 + want
                if ran == ABSENT or ran[0] != "val" or not addr.same_value(want, ran[1]):
                    p.violation("%s|%s|after-run" % (name, cls), lit,
                                "%s: after the action ran the stored value is %r, expected %s" % (
                                    name, (addr.show(ran[1]) if ran != ABSENT and ran[0] == "val" else ran), addr.show(want)),
                                dict(script=text, context=name, literal=lit, expected=repr(want), observed=repr(ran), tick=TICK))


def roundtrip(p, real, addr, ctxs, items):
    for kind, val, lit in items:
        for cname in RT_CONTEXTS:
            if kind == "point" and cname == "goal":
                continue      # documented: need goals take no points
            ctx = ctxs[cname]
            text = program(ctx, lit)
            res = build(real, text)
            got = observe(addr, real, cname, res)
            p.evaluations += 1
            p.nontrivial("rt|%s|%s" % (cname, lit))
            want = addr.Pt((val[1],) + tuple(val[2])) if kind == "point" else val
            ok = got != ABSENT and got[0] == "val" and addr.same_value(want, got[1])
            p.outcome("roundtrip %s" % kind)
            if not ok:
                p.violation("roundtrip|%s|%s" % (cname, kind), lit,
                            "%s: literal form %s of %s converts back to %s" % (
                                cname, lit, addr.show(want), addr.show(got[1]) if got != ABSENT and got[0] == "val" else got),
                            dict(script=text, context=cname, literal=lit, value=repr(val), built=repr(got), build_kind=res.kind,
                                 build_exc=repr(res.exc)))


def selftest():
    """the reference converter against hand-computed expectations (guards the oracle itself)"""
    core.use_repo()
    from mc.flo import addr
    R = addr.ref_convert
    exp = [
        ("10", "direct", 10), ("007", "direct", 7), ("-1", "num", -1), ("0x1f", "direct", 31), ("1F", "num", 31),
        ("1.", "direct", 1.0), (".5", "direct", 0.5), ("1e+1", "direct", 10.0), ("-0.0", "direct", -0.0),
        ("1+2j", "direct", 1 + 2j), ("j", "num", 1j), ("true", "direct", True), ("YES", "goal", True), ("None", "direct", None),
        ("a.b", "direct", "a.b"), (".a.", "direct", ".a."), ('"a b"', "goal", "a b"), ("'x'", "direct", "x"),
        ("120N10.5", "direct", 120.175), ("80W30.75", "goal", -80.5125), ("1_000", "num", 1000),
    ]
    for lit, chain, want in exp:
        r = R(lit, chain)
        if r[0] != "val" or not addr.same_value(want, r[1]):
            raise core.BrokenCheck("reference converter self-test failed on %r/%s: %r" % (lit, chain, r))
    if R("10n5e", "direct") != ("val", addr.Pt(("ne", 10.0, 5.0))) or R("10n5e", "goal") != addr.REJECT:
        raise core.BrokenCheck("reference point self-test failed")
    if R("1e5", "direct") != addr.UNSPEC or R("abc", "goal") != addr.UNSPEC or R("speed", "goal") != ("indirect", "speed"):
        raise core.BrokenCheck("reference unspecified/indirect self-test failed")
    if R("1x", "direct") != addr.REJECT or R("a.b", "num") != addr.REJECT:
        raise core.BrokenCheck("reference reject self-test failed")


def replay(path):
    """./vcheck C17 --replay <file>: re-evaluate the stored literal in every context; exit 1 if it still fails"""
    import json
    rec = json.load(open(path))
    lit = rec["replay"].get("literal")
    core.use_repo()
    from mc.flo import real, addr
    p = core.Part()
    ctxs = {c[0]: c for c in CONTEXTS}
    if rec["key"].startswith("roundtrip|"):
        roundtrip(p, real, addr, ctxs, [c for c in roundtrip_cases() if c[2] == lit])
    else:
        cls = [c for c, l in grammar("thorough") if l == lit]
        grid(p, real, addr, [(cls[0] if cls else "replay", lit)], 0)
    print(rec["replay"].get("script", ""))
    for g, ex, what, rep in p.violations:
        print("REPRODUCED %s|%s\n  %s" % (g, ex, what))
    if not p.violations:
        print("not reproduced: literal %r converts as documented in every context" % lit)
    return 1 if p.violations else 0


def run():
    import os
    if os.environ.get("VERIF_REPLAY"):
        return replay(os.environ["VERIF_REPLAY"])
    selftest()
    ck = core.Check("C17", "exploration", META["technique"])
    g = grammar(core.TIER)
    items = [("grid", i, i + CHUNK, core.TIER) for i in range(0, len(g), CHUNK)]
    items += [("rt", i, i + CHUNK, core.TIER) for i in range(0, len(roundtrip_cases()), CHUNK)]
    ck.merge(core.pmap(work, items))      # merged in enumeration order: the kept example per group is the first one
    ck.coverage_extra = dict(literals=len(g), contexts=[c[0] for c in CONTEXTS],
                             literal_classes=sorted(set(c for c, _ in g)), roundtrip_values=len(roundtrip_cases()),
                             roundtrip_contexts=list(RT_CONTEXTS))
    ck.assumptions = [
        "reference converter written from the docstrings of building.Convert2* / parseDirect / parseNeedGoal and the lat/lon and "
        "point comments of globaling.py; no ioflo regular expression is reused",
        "'hex int' includes bare hex digit strings (documented only as 'hex'); a bare hex string that is also float syntax (1e5 -> "
        "485 on this tree) is reported as undefined, not as a violation",
        "need goals / bid periods: a word that is both a number form (abc, inf, nan, j) and a share path is undefined by the docs",
        "text matching no documented literal form is counted (outcome histogram) but neither acceptance nor refusal is judged",
        "bid/timeout/repeat post-process the number (max, abs, float, int): only non-negative real (integral for repeat) literals "
        "are compared, on value",
        "round trip literal form = repr() of the python value (lower-case variant too for booleans/None), coordinates repr() + "
        "axis letter for points, the text in double or single quotes for strings",
    ]
    return ck.finish(
        rule="every literal of the grammar (%d literals, classes number/malformed/hex/radix/underscore/naninf/complex/nonebool/quoted/path/"
             "latlon/point2/point3 and near misses) x %d literal contexts, plus %d round-trip values x %d contexts; non-trivial = "
             "(context, literal) pairs whose value the documentation defines" % (len(g), len(CONTEXTS), len(roundtrip_cases()),
                                                                               len(RT_CONTEXTS)),
        exhaustive=True)


if __name__ == "__main__":
    core.main(run)
