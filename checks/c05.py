"""C05 A running framer's active frames are exactly its active frame's outline.
Engine A: frame-forest program families x explicit-state BFS over environment-input histories on
the real Builder + Skedder; outline monitor written from the statement (AST only)."""
META = dict(
    engine="flo", level="model_checking",
    technique="explicit-state BFS over env-input histories of enumerated FloScript programs on the real Builder/Skedder, outline invariant checked in every state",
    text="Every labelled frame forest on up to 3 (quick) / 4 (thorough) frames, with primary-under overrides, one or two env-guarded "
         "transitions to every frame/next/me, and conditional auxiliaries (completing now / later / never) at every frame, is built by the "
         "real Builder and driven by the real Skedder through every reachable (framer state x env input) pair (BFS with canonical-state "
         "dedupe, replay from prefix); after every tick the monitor checks actives == top..active..primary unders, cut at a running "
         "conditional auxiliary's main frame, empty when stopped/aborted.",
    note="Monitor is computed from the AST, independent of Frame.traceOutline. Bounded by family size and BFS depth; env inputs are two bits written before the framer each tick.",
)
from mc import core
from mc.flo import runner


def family():
    from mc.flo import families as F
    for label, prog, meta in F.fam_cond_aux_two():
        if core.TIER != "quick" or ("dx0-dy0" in label or "dx0-dy1" in label) and label.split("/")[1] in ("repeat1-never", "repeat1-repeat1", "now-never", "now-repeat1"):
            yield label, prog, dict(parents=None)
    for label, prog, meta in F.fam_cond_aux_three():
        yield label, prog, dict(parents=None)
    for label, prog, meta in F.fam_restart():
        if "condaux" in label:
            yield label, prog, dict(parents=None)
    if core.TIER == "quick":
        yield from F.fam_forest(2, pairs=True)
        yield from F.fam_forest(3, pairs=False, aux_kinds=("repeat1", "never"))
    else:
        yield from F.fam_forest(2, pairs=True)
        yield from F.fam_forest(3, pairs=True)
        yield from F.fam_forest(4, pairs=False, aux_kinds=("repeat1",))


def on_prog(p, idx, label, prog, meta):
    from mc.flo import explore, monitors, families as F, lang

    def on_run(prog, envf, envb, rr, text, br):
        p.evaluations += 1
        if rr is None:
            runner.violation(p, idx, "build-failed|" + br.kind, label, "family program does not build: %r" % (br.exc,), dict(text=text))
            return True
        if rr.outcome != "returned":
            runner.violation(p, idx, "run-" + rr.outcome.split()[0], label, "run did not return: %s %r" % (rr.outcome, rr.exc),
                             dict(text=text, env=envf))
            return True
        probs = monitors.mon_outline(prog, rr)
        for s in rr.ticks[-1:]:
            for f in s["framers"]:
                p.outcome("%s:%d" % (f[1], len(f[5])))
        if probs:
            g, d = probs[0]
            runner.violation(p, idx, g, "%s env=%s" % (label, sorted(envf.items())), d, dict(text=text, env=envf, problems=probs[:5]))
            return True
        return False

    st = explore.explore(prog, F.ENV_ALPHABET, depth=6 if core.TIER == "quick" else 8, on_run=on_run)
    p.states += st["states"]
    p.transitions += st["transitions"]
    p.traces += st["runs"]
    p.capped = p.capped or st["capped"]
    p.nontrivial(label)
    if idx % 499 == 0:
        p.sample(dict(label=label, script=lang.emit(prog), bfs=st))


def run():
    ck = core.Check("C05", "model_checking", META["technique"])
    runner.run_family(ck, family, on_prog)
    ck.assumptions = ["env inputs are written by a front-ordered harness tasker before the framer runs; two bits",
                      "BFS dedupe on (status, desire, done, active, actives, main [, elapsed, recurred if read]) per framer"]
    return ck.finish(rule="program = (labelled forest, transitions, optional under override, optional conditional aux); "
                          "state = canonical framer snapshot; transition = one tick with one of 4 env inputs (+ stop tick); distinct = program label",
                     exhaustive=True)


if __name__ == "__main__":
    core.main(run)
