"""C44 point in polygon vs exact geometry.  Engine F: every simple lattice polygon x every lattice point."""
META = dict(
    engine="grid", level="exploration",
    technique="bounded-exhaustive enumeration of simple lattice polygons x lattice points against an exact integer ray-crossing reference (no sampling)",
    text="Every vertex sequence (all rotations, both orientations) of 3 points of the 5x5 and 4x4 integer grids, 4 points of the 4x4 grid and 5 points of the 3x3 grid "
         "(thorough adds 6 on 3x3, 4 on 5x5, 5 on 4x4) that forms a simple polygon - decided by exact segment-intersection tests - is queried at every point of the grid "
         "enlarged by a one-cell margin: inside/outside with both side flags, insideOnly, outsideOnly, sideOnly and wind are compared with an exact "
         "classification IN / ON / OUT (boundary by integer collinearity, interior by the parity of proper crossings of a ray whose slope avoids "
         "every lattice point). tween2 is checked for every (p, u, v) triple of the grid. A second family has long sides: from (0,0) along every primitive "
         "direction with |dx|,|dy| <= 3 (4 in thorough) and every side extent 15..40 (64), a thin triangle and a parallelogram in both vertex orders, "
         "queried at every lattice point of every side and its four neighbours (float-scaling collinearity tests only fail on long sides).",
    note="Exhaustive only for the stated vertex counts and grid sizes; integer coordinates only (as in the statement); the 'random larger polygons' "
         "supplement of the quantifier is not part of this family.",
)
import itertools
from mc import core

MARGIN = 1


# ----------------------------------------------------------------------------- exact integer geometry (reference)

def orient(a, b, c):
    """Sign of the z component of (b-a) x (c-a)."""
    d = (b[0] - a[0]) * (c[1] - a[1]) - (b[1] - a[1]) * (c[0] - a[0])
    return (d > 0) - (d < 0)


def on_segment(p, a, b):
    """p on the closed segment ab (exact)."""
    if a == b:
        return p == a
    if orient(a, b, p) != 0:
        return False
    return min(a[0], b[0]) <= p[0] <= max(a[0], b[0]) and min(a[1], b[1]) <= p[1] <= max(a[1], b[1])


def segments_touch(a, b, c, d):
    """Closed segments ab and cd share at least one point."""
    o1, o2, o3, o4 = orient(a, b, c), orient(a, b, d), orient(c, d, a), orient(c, d, b)
    if o1 * o2 < 0 and o3 * o4 < 0:
        return True
    return on_segment(c, a, b) or on_segment(d, a, b) or on_segment(a, c, d) or on_segment(b, c, d)


def is_simple(vs):
    n = len(vs)
    if len(set(vs)) != n or n < 3:
        return False
    for i in range(n):
        a, b = vs[i], vs[(i + 1) % n]
        # adjacent edge (b, c): may share only b -> not collinear-and-folding-back
        c = vs[(i + 2) % n]
        if orient(a, b, c) == 0 and (a[0] - b[0]) * (c[0] - b[0]) + (a[1] - b[1]) * (c[1] - b[1]) > 0:
            return False
        # non-adjacent edges: no common point at all
        for j in range(i + 2, n):
            if i == 0 and j == n - 1:
                continue
            if segments_touch(a, b, vs[j], vs[(j + 1) % n]):
                return False
    return True


def area2(vs):
    return sum(vs[i][0] * vs[(i + 1) % len(vs)][1] - vs[(i + 1) % len(vs)][0] * vs[i][1] for i in range(len(vs)))


def classify(p, vs, far):
    """'ON' | 'IN' | 'OUT'.  Ray from p to q=(p.x+far, p.y+1): with far larger than the extent of the grid the open
    segment pq contains no lattice point, so it meets no vertex and every intersection with an edge is a proper crossing."""
    n = len(vs)
    for i in range(n):
        if on_segment(p, vs[i], vs[(i + 1) % n]):
            return "ON"
    q = (p[0] + far, p[1] + 1)
    crossings = 0
    for i in range(n):
        a, b = vs[i], vs[(i + 1) % n]
        oa, ob = orient(p, q, a), orient(p, q, b)
        if oa == 0 or ob == 0:
            raise core.BrokenCheck("reference ray hits a vertex: p=%r edge=%r" % (p, (a, b)))
        if oa * ob < 0 and orient(a, b, p) * orient(a, b, q) < 0:
            crossings += 1
    return "IN" if crossings % 2 else "OUT"


# ----------------------------------------------------------------------------- worker

def polygons(k, n, i0, i1):
    pts = [(x, y) for x in range(n) for y in range(n)]
    first, second = pts[i0], pts[i1]
    rest = [q for q in pts if q != first and q != second]
    for tail in itertools.permutations(rest, k - 2):
        yield (first, second) + tail


def directions(m):
    """Primitive lattice directions with max(|dx|, |dy|) == m, all signs, sorted."""
    import math
    return sorted((dx, dy) for dx in range(-m, m + 1) for dy in range(-m, m + 1)
                  if max(abs(dx), abs(dy)) == m and math.gcd(abs(dx), abs(dy)) == 1)


def lattice_on(a, b):
    import math
    g = math.gcd(abs(b[0] - a[0]), abs(b[1] - a[1]))
    return [(a[0] + (b[0] - a[0]) // g * t, a[1] + (b[1] - a[1]) // g * t) for t in range(g + 1)]


def long_sided(direction, tier):
    """Polygons with a long side from (0,0) along `direction`: every extent 15..40 (64 thorough) of that side; a thin triangle
    (apex one perpendicular step from the start) and a parallelogram (three perpendicular steps), both vertex orders (thorough:
    every rotation too, and apex heights 1 and 5); queried at EVERY lattice point of every side and its four neighbours."""
    dx, dy = direction
    m = max(abs(dx), abs(dy))
    hi = 40 if tier == "quick" else 64
    nx, ny = -dy, dx        # perpendicular
    for L in range(-(-15 // m), hi // m + 1):
        B = (dx * L, dy * L)
        shapes = []
        for h in ((1,) if tier == "quick" else (1, 5)):
            shapes.append(((0, 0), B, (nx * h, ny * h)))
        shapes.append(((0, 0), B, (B[0] + 3 * nx, B[1] + 3 * ny), (3 * nx, 3 * ny)))
        for shape in shapes:
            orders = [shape, tuple(reversed(shape))]
            if tier != "quick":
                orders = [o[r:] + o[:r] for o in orders for r in range(len(o))]
            ext = max(max(abs(x), abs(y)) for x, y in shape)
            for poly in orders:
                pts = set()
                for i in range(len(poly)):
                    for (x, y) in lattice_on(poly[i], poly[(i + 1) % len(poly)]):
                        pts.update(((x, y), (x + 1, y), (x - 1, y), (x, y + 1), (x, y - 1)))
                yield poly, sorted(pts), 4 * ext + 10, "long-sided family, direction max(|dx|,|dy|)=%d" % m


def work(job):
    core.use_repo()
    from ioflo.aid import vectoring as vec
    p = core.Part()
    kind = job[0]
    if kind == "tween2":
        _, n, i0 = job
        pts = [(x, y) for x in range(-MARGIN, n + MARGIN) for y in range(-MARGIN, n + MARGIN)]
        inner = [(x, y) for x in range(n) for y in range(n)]
        u = inner[i0]
        for v in inner:
            for q in pts:
                p.evaluations += 1
                exp = on_segment(q, u, v)
                case = "p=%r u=%r v=%r" % (q, u, v)
                try:
                    got = vec.tween2(q, u, v)
                except Exception as ex:
                    p.violation("tween2|raises %s" % type(ex).__name__, case, "tween2(%s) raised %r" % (case, ex), dict(fn="tween2", p=q, u=u, v=v))
                    continue
                if bool(got) != exp:
                    p.violation("tween2|wrong", case, "tween2(%s)=%r, exact answer %r" % (case, got, exp), dict(fn="tween2", p=q, u=u, v=v, got=got, expected=exp))
                if exp and u != v and q not in (u, v):
                    p.nontrivial(("tween2", q, u, v))
                p.outcome("tween2:%s" % exp)
        tag_job(p, job)
        return p

    if kind == "long":
        source = long_sided(job[1], job[2])
    else:
        _, k, n, i0, i1 = job
        far0 = n + 2 * MARGIN + 2
        pts0 = [(x, y) for x in range(-MARGIN, n + MARGIN) for y in range(-MARGIN, n + MARGIN)]
        source = ((poly, pts0, far0, "%d vertices on %dx%d" % (k, n, n)) for poly in polygons(k, n, i0, i1))
    preds = (
        ("inside(side=True)", lambda q, vs: vec.inside(q, vs, side=True), ("IN", "ON")),
        ("inside(side=False)", lambda q, vs: vec.inside(q, vs, side=False), ("IN",)),
        ("inside()", lambda q, vs: vec.inside(q, vs), ("IN", "ON")),
        ("insideOnly", lambda q, vs: vec.insideOnly(q, vs), ("IN",)),
        ("outside(side=True)", lambda q, vs: vec.outside(q, vs, side=True), ("OUT", "ON")),
        ("outside(side=False)", lambda q, vs: vec.outside(q, vs, side=False), ("OUT",)),
        ("outside()", lambda q, vs: vec.outside(q, vs), ("OUT", "ON")),
        ("outsideOnly", lambda q, vs: vec.outsideOnly(q, vs), ("OUT",)),
        ("sideOnly", lambda q, vs: vec.sideOnly(q, vs), ("ON",)),
    )
    for poly, pts, far, label in source:
        if not is_simple(poly):
            p.notes["vertex sequences skipped: not a simple polygon"] += 1
            continue
        a2 = area2(poly)
        if a2 == 0:
            raise core.BrokenCheck("simple polygon with zero area %r" % (poly,))
        sense = 1 if a2 > 0 else -1
        vs = list(poly)
        p.nontrivial(poly)
        nin = 0
        for q in pts:
            p.evaluations += 1
            cls = classify(q, poly, far)
            nin += cls == "IN"
            case = "polygon=%r point=%r" % (vs, q)
            for name, fn, true_for in preds:
                exp = cls in true_for
                try:
                    got = fn(q, vs)
                except Exception as ex:
                    p.violation("%s|raises %s" % (name, type(ex).__name__), case, "%s raised %r at %s" % (name, ex, case),
                                dict(fn=name, polygon=vs, point=q, exact_class=cls))
                    continue
                if bool(got) != exp:
                    p.violation("%s|wrong-for-%s-point" % (name, cls), case, "%s=%r at %s; exact geometry says the point is %s so expected %r"
                                % (name, got, case, cls, exp), dict(fn=name, polygon=vs, point=q, exact_class=cls, got=got, expected=exp))
            try:
                w = vec.wind(q, vs)
            except Exception as ex:
                p.violation("wind|raises %s" % type(ex).__name__, case, "wind raised %r at %s" % (ex, case), dict(fn="wind", polygon=vs, point=q, exact_class=cls))
                continue
            if (w == 0) != (cls != "IN"):
                p.violation("wind|zero-ness-wrong-for-%s-point" % cls, case, "wind=%r at %s; exact geometry says the point is %s" % (w, case, cls),
                            dict(fn="wind", polygon=vs, point=q, exact_class=cls, got=w))
            elif cls == "IN" and w != sense:
                p.violation("wind|not-the-winding-number", case, "wind=%r at %s; a simple %s polygon winds %+d around an interior point"
                            % (w, case, "counter-clockwise" if sense > 0 else "clockwise", sense),
                            dict(fn="wind", polygon=vs, point=q, exact_class=cls, got=w, expected=sense))
            p.outcome("%s wind=%r" % (cls, w))
            if vs != list(poly):
                raise core.BrokenCheck("polygon list mutated by ioflo")
        if nin:
            p.notes["polygons with interior lattice points"] += 1
        p.notes["simple polygons, %s" % label] += 1
        if p.notes["simple polygons, %s" % label] == 7:
            p.sample(dict(polygon=vs, classes={"%d,%d" % q: classify(q, poly, far) for q in pts[:40]}), limit=2)
    tag_job(p, job)
    return p


def families():
    if core.TIER == "quick":
        return [(3, 4), (3, 5), (4, 4), (5, 3)]
    return [(3, 4), (3, 5), (4, 4), (5, 3), (6, 3), (4, 5), (5, 4)]


def tag_job(p, job, start=0):
    """Put the shard identity into the replay record of every violation found from index `start` on."""
    for v in p.violations[start:]:
        if isinstance(v[3], dict):
            v[3].setdefault("job", repr(job))


def replay(path, runner, pid):
    """./vcheck C44 --replay <file>: re-run the shard that produced the stored violation; exit 1 if the same key fails again."""
    import json
    rec = json.load(open(path))
    if not isinstance(rec.get("replay"), dict) or "job" not in rec["replay"]:
        print("replay record carries no shard identity; run the check again to regenerate it")
        return 2
    job = eval(rec["replay"]["job"], {"__builtins__": {}, "inf": float("inf"), "nan": float("nan")})
    p = runner(job)
    hit = False
    for g, ex, what, rep in p.violations:
        same = "%s|%s" % (g, ex) == rec["key"]
        hit = hit or same
        print("%s %s|%s\n  %s" % ("REPRODUCED" if same else "other violation in the same shard:", g, ex, what))
    if not hit:
        print("not reproduced: %s" % rec["key"])
    print("REPLAY property=%s reproduced=%s shard_evaluations=%d" % (pid, hit, p.evaluations))
    return 1 if hit else 0


def run():
    import os
    if os.environ.get("VERIF_REPLAY"):
        return replay(os.environ["VERIF_REPLAY"], work, "C44")
    # reference self-check: unit square and an L shape
    sq = ((0, 0), (2, 0), (2, 2), (0, 2))
    ell = ((0, 0), (3, 0), (3, 1), (1, 1), (1, 3), (0, 3))
    if (classify((1, 1), sq, 9), classify((2, 1), sq, 9), classify((3, 1), sq, 9), classify((2, 2), ell, 9), classify((1, 1), ell, 9),
            classify((0, 2), ell, 9), is_simple(sq), is_simple(ell), is_simple(((0, 0), (2, 2), (2, 0), (0, 2))), is_simple(((0, 0), (1, 0), (2, 0))),
            is_simple(((0, 0), (2, 0), (1, 0), (1, 1)))) != ("IN", "ON", "OUT", "OUT", "ON", "ON", True, True, False, False, False):
        raise core.BrokenCheck("exact-geometry reference fails its self-check")
    ck = core.Check("C44", "exploration", META["technique"])
    jobs = []
    for k, n in families():
        for i0 in range(n * n):
            for i1 in range(n * n):
                if i1 != i0:
                    jobs.append(("poly", k, n, i0, i1))
    for i0 in range(16):
        jobs.append(("tween2", 4, i0))
    for m in ((1, 2, 3) if core.TIER == "quick" else (1, 2, 3, 4)):
        for d in directions(m):
            jobs.append(("long", d, core.TIER))
    ck.merge(core.pmap(work, jobs))
    ck.assumptions = [
        "simple polygon = distinct vertices, non-adjacent edges disjoint, adjacent edges sharing only their common vertex; straight-angle vertices are allowed",
        "reference: ON by exact integer collinearity + bounding box; IN/OUT by parity of proper crossings with the segment p -> (p.x+far, p.y+1), which contains no lattice point",
        "predicates are compared by truthiness; inside/outside default side flag is True as documented",
        "wind: zero exactly for OUT and ON points (statement); for IN points it must equal +1 for counter-clockwise and -1 for clockwise vertex order "
        "(the winding number of a simple polygon, sign convention from the docstring)",
        "outsideOnly is taken as strictly outside (statement); its docstring wording 'on edge considered outside' is not used",
    ]
    return ck.finish(
        rule="every ordered sequence of k distinct points of an n x n integer grid forming a simple polygon, (k,n) in %s, each queried at all (n+2)^2 points of the grid "
             "plus a one-cell margin with 9 predicate variants and wind; tween2 for all u,v in the 4x4 grid and p in the 6x6 grid; long-sided family: side (0,0)->L*(dx,dy) "
             "for every primitive (dx,dy) with max(|dx|,|dy|) <= %d and every L with 15 <= L*max(|dx|,|dy|) <= %d, thin triangle + parallelogram, both orders, every "
             "lattice point on every side and its 4 neighbours. distinct = simple polygons "
             "(as vertex sequences) plus non-trivial tween2 triples (p strictly between u and v)." % (families(), 3 if core.TIER == "quick" else 4, 40 if core.TIER == "quick" else 64),
        exhaustive=True)


if __name__ == "__main__":
    core.main(run)
