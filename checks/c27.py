"""C27 reconnectable clients and stacks eventually reconnect.  Engine C (net doubles):
deviation-bounded DFS over environment schedules with a bounded-liveness oracle."""
META = dict(
    engine="net", level="model_checking",
    technique="stateless deviation-bounded DFS over environment schedules (server down/up, connection closed by the server, "
              "connect_ex / recv answers, clock advance per service call) of real Client / Patron / TcpClientStack over socket "
              "doubles with a manual store clock; bounded-liveness oracle evaluated on every path",
    text="Subjects: tcp Client (serviceConnect+serviceReceives+serviceTxes per call), http Patron (serviceAll), TcpClientStack "
         "(serviceAll), each reconnectable and not, with the server initially up or down. Two connect variants: 'immediate' "
         "(connect_ex to a listening server answers 0 at once; clock default one timeout per call, alternatives T/2, 0) and "
         "'realistic' (the first connect_ex on a fresh socket answers EINPROGRESS and the next one completes, as a "
         "non-blocking connect does; clock default T/4 per call, alternatives T, 0 and 10T for long uptimes/outages; costs one "
         "deviation); 'steady' = realistic, but the good phase has no clock jump (+T/4 per call only, liveness window 8 calls), "
         "so a cut-off that happens within one timeout of the last timer restart is serviced while the timer still runs. "
         "Before each of the first H service calls the environment chooses: nothing / toggle the server (going "
         "down also kills its connections) / close the current connection from the server side; the clock advance; and during "
         "the call connect_ex may answer EINPROGRESS, ECONNREFUSED, another completion errno (ECONNRESET, ECONNABORTED, ETIMEDOUT, ...) or "
         "success out of turn and an idle recv may answer "
         "ECONNRESET. All schedules with <= 3 deviations (H=6, quick) / <= 4 (H=8, thorough) are run; then the environment "
         "stays good for 6 more calls (server listening, natural answers; immediate: clock +T per call; realistic: +T once so "
         "the timeout has elapsed, then +T/4 per call). Oracle: a reconnectable subject is connected to a live socket - "
         "connected, not cut off, .ca/.ha equal to the double's getsockname()/getpeername(), peer open - from the 4th good "
         "call on; a subject that is not reconnectable constructs no socket after it has been cut off; nothing raises. "
         "ClientTls (fake TLS context, handshake completes or answers want-read by choice; live also means handshaked on the "
         "current socket) runs the same schedules, an https Patron over ClientTls the reconnectable ones; Patron and https Patron are also built WITHOUT store= "
         "and time is then advanced through patron.store; TcpClientStack is also built without timeout= and with a "
         "caller-made handler=Client(timeout, reconnectable). Extra subject PatronSSE: a reconnectable Patron follows a text/event-stream whose server announces retry: 500 (ms) and "
         "drops the stream 3 (4) times, after 2, 0 or 6 calls, by close or ECONNRESET - all combinations; it must be live again "
         "within 8 service calls (retry/step + 4) of every cut.",
    note="Doubles replace loopback sockets so that the harness owns the schedule. 'Service call' for a bare Client is the "
         "triple serviceConnect/serviceReceives/serviceTxes an application loop makes. Horizon, deviation bound and the "
         "4-call liveness window are the stated bounds; longer outages are not explored.",
)
import errno

from mc import core, net

PORT = 7000
HA = (net.LOOP, PORT)
T = 1.0
ADV = (T, T / 2, 0.0)                 # variant "immediate": default one timeout per service call
ADV_REAL = (T / 4, T, 0.0, 10 * T)    # variant "realistic": serviced 4x per timeout; 10T = long uptime / outage
SUBJECTS = ("Client", "Patron", "TcpClientStack", "ClientTls")
TLS_EXTRA = (("PatronTls", True, True),)
# Patron / https Patron built WITHOUT store=: they create their own Store, the harness advances time through
# patron.store (as Patron.serviceWhile does); same schedules, reconnectable, server initially up
# TcpClientStack built without timeout= (the handler falls back to Client.Timeout) and with a caller-made
# handler=Client(timeout=T, reconnectable=True) (the stack's own .timeout stays None); reconnectable, server up
STACK_EXTRA = (("TcpClientStackDefaultTimeout", True, True), ("TcpClientStackOwnHandler", True, True))
OWNSTORE_EXTRA = (("PatronOwnStore", True, True), ("PatronTlsOwnStore", True, True))     # https Patron over ClientTls, reconnectable
BOUNDS = dict(quick=dict(dev=3, H=6), thorough=dict(dev=4, H=8))
CLOSING = 6
WINDOW = 4
# variant "steady": realistic connects, and the good phase has NO clock jump: +T/4 per call only, so a
# reconnect timer restarted less than T ago is still running when the cut-off is first serviced
STEADY_WINDOW = 8          # ceil(T / (T/4)) calls for the timer to run out + 4
STEADY_CLOSING = 10

FSM = None
M = None


def init():
    global FSM, M
    if FSM is not None:
        return
    core.use_repo()
    from ioflo.aio.tcp import clienting
    from ioflo.aio.http import clienting as hclienting
    from ioflo.aio.proto import stacking
    FSM = net.FakeSocketModule().install()
    from ioflo.base import storing
    M = dict(clienting=clienting, hclienting=hclienting, stacking=stacking, storing=storing)


# connect_ex completion errors other than "refused": a failed asynchronous connect reports them on a later
# connect_ex / SO_ERROR; the client must treat them as "not connected, try again"
COMPLETION_ERRNOS = (errno.ECONNRESET, errno.ECONNABORTED, errno.ETIMEDOUT, errno.ENETUNREACH, errno.EHOSTUNREACH)


COMPLETION = dict(quick=COMPLETION_ERRNOS, thorough=COMPLETION_ERRNOS)


class Policy:
    """ChooserPolicy plus the 'realistic' connect variant: the natural answer of the first connect_ex
    on a fresh socket towards a listening server is EINPROGRESS, the next call completes (0) - what a
    non-blocking connect does.  frozen: no more choice points, natural answers only (good phase)."""

    def __init__(self, ch, realistic):
        self.ch = ch
        self.realistic = realistic
        self.frozen = False
        self.group_used = False

    def decide(self, sock, op, cands):
        if len(cands) == 1:
            return 0
        order = list(range(len(cands)))
        if self.realistic and op == "connect_ex" and cands[0] == net.RC(0) and sock.state in ("new", "refused"):
            for i, c in enumerate(cands):
                if c == net.RC(errno.EINPROGRESS):
                    order.remove(i)
                    order.insert(0, i)
                    break
        if self.frozen:
            return order[0]
        if op == "connect_ex":
            # the completion errnos form ONE alternative (one deviation); which of them is a second, free choice
            group = [i for i in order if cands[i][0] == "rc" and cands[i][1] in COMPLETION_ERRNOS]
            if group:
                rest = [i for i in order if i not in group]
                k = self.ch.choose(len(rest) + 1, "%s.%s" % (sock.name, op), 0, 1)
                if k < len(rest):
                    return rest[k]
                if core.TIER == "thorough" and not self.group_used:
                    # which errno: a second, free choice - for the first completion error of an execution
                    self.group_used = True
                    return group[self.ch.choose(len(group), "%s.%s errno" % (sock.name, op), 0, 0)]
                # quick: a representative, rotating with the position in the schedule (all errnos take the same branch
                # in ioflo: not 0/EISCONN, not EINVAL/ECONNREFUSED)
                return group[len(self.ch.points) % len(group)]
        return order[self.ch.choose(len(cands), "%s.%s" % (sock.name, op), 0, 1)]


class Env:
    """The server the harness plays: a raw listener plus the connections it accepted."""

    def __init__(self, fn, up):
        self.fn = fn
        self.ls = None
        self.conns = []
        if up:
            self.up()

    @property
    def listening(self):
        return self.ls is not None

    def up(self):
        if self.ls is None:
            self.ls = self.fn.listen(HA, name="listener")

    def down(self):
        if self.ls is not None:
            self.ls.close()
            self.ls = None
        for c in self.conns:
            c.close()
        self.conns = []

    def accept_all(self):
        if self.ls is None:
            return
        while self.ls.backlog:
            s, _ = self.ls.accept()
            self.conns.append(s)

    def close_current(self):
        for c in self.conns:
            if not c.closed:
                c.close()
                return True
        return False

    def has_open(self):
        return any(not c.closed for c in self.conns)


def build(subject, reconnectable, ck, fn):
    """Returns (object, handler getter, service callable)."""
    if subject in ("Client", "ClientTls"):
        if subject == "Client":
            c = M["clienting"].Client(ha=HA, store=ck, timeout=T, reconnectable=reconnectable)
        else:
            c = M["clienting"].ClientTls(ha=HA, store=ck, timeout=T, reconnectable=reconnectable,
                                         context=net.FakeSslContext(fn))
        c.reopen()

        def service():
            c.serviceConnect()
            c.serviceReceives()
            c.serviceTxes()
        return c, (lambda: c), service
    if subject in ("Patron", "PatronOwnStore"):
        kw = dict(store=ck) if subject == "Patron" else {}
        p = M["hclienting"].Patron(hostname=net.LOOP, port=PORT, timeout=T, reconnectable=reconnectable, **kw)
        p.connector.reopen()
        return p, (lambda: p.connector), p.serviceAll
    if subject in ("PatronTls", "PatronTlsOwnStore"):
        kw = dict(store=ck) if subject == "PatronTls" else {}
        p = M["hclienting"].Patron(hostname=net.LOOP, port=PORT, scheme=u"https", timeout=T,
                                   reconnectable=reconnectable, context=net.FakeSslContext(fn), **kw)
        if not isinstance(p.connector, M["clienting"].ClientTls):
            raise core.BrokenCheck("https Patron did not build a ClientTls connector")
        p.connector.reopen()
        return p, (lambda: p.connector), p.serviceAll
    if subject == "TcpClientStack":
        s = M["stacking"].TcpClientStack(stamper=ck, ha=HA, timeout=T, name="client")
        s.handler.reconnectable = reconnectable     # createHandler() has no parameter for it
        return s, (lambda: s.handler), s.serviceAll
    if subject == "TcpClientStackDefaultTimeout":
        s = M["stacking"].TcpClientStack(stamper=ck, ha=HA, name="client")
        if s.handler.timeout != T:
            raise core.BrokenCheck("Client.Timeout is %r, the schedules assume %r" % (s.handler.timeout, T))
        s.handler.reconnectable = reconnectable
        return s, (lambda: s.handler), s.serviceAll
    if subject == "TcpClientStackOwnHandler":
        h = M["clienting"].Client(ha=HA, store=ck, timeout=T, reconnectable=reconnectable)
        s = M["stacking"].TcpClientStack(stamper=ck, ha=HA, handler=h, name="client")
        if s.handler is not h:
            raise core.BrokenCheck("TcpClientStack did not take the handler it was given")
        return s, (lambda: s.handler), s.serviceAll
    raise core.BrokenCheck(subject)


def raw_of(cs):
    return cs.raw if hasattr(cs, "raw") else cs


def live(subject, obj, h):
    """None if the subject is connected to a live socket and reports its addresses, else why not."""
    if not h.connected:
        return "connected is False"
    if h.cutoff:
        return "cutoff is True"
    if h.cs is None:
        return "no socket"
    raw = raw_of(h.cs)
    if raw.closed or raw.state != "connected":
        return "socket is %s" % ("closed" if raw.closed else raw.state)
    if not h.accepted:
        return "connected is True but accepted is False"
    if hasattr(h.cs, "handshaked") and not h.cs.handshaked:
        return "connected is True but the TLS handshake of the current socket never completed"
    if "Tls" in subject and not hasattr(h.cs, "handshaked"):
        return "TLS client is connected on a socket that was never wrapped"
    if raw.peer is None or raw.peer.closed or raw.peer_closed:
        return "connected flag is set but the peer of its socket is gone"
    if tuple(h.ca) != raw.getsockname() or tuple(h.ha) != raw.getpeername():
        return "reports ca=%r ha=%r, socket has %r -> %r" % (h.ca, h.ha, raw.getsockname(), raw.getpeername())
    if subject.startswith("TcpClientStack") and tuple(obj.local.ha) != raw.getsockname():
        return "stack.local.ha=%r, socket is at %r" % (obj.local.ha, raw.getsockname())
    return None


def where_of(ex):
    import traceback
    name = ""
    for fr in traceback.extract_tb(ex.__traceback__):
        if "/ioflo/" in fr.filename:
            name = fr.name
    return name


def execute(ch, subject, reconnectable, up0, H, part, states):
    variant = ch.choose(3, "connect-variant", 0, 1)      # 0 immediate, 1 realistic (+T jump), 2 steady (no jump)
    realistic = variant >= 1
    steady = variant == 2
    closing_calls = STEADY_CLOSING if steady else CLOSING
    window = STEADY_WINDOW if steady else WINDOW
    pol = Policy(ch, realistic)
    adv = ADV_REAL if realistic else ADV
    fn = net.FakeNet(policy=pol)
    FSM.net = fn
    ck = net.clock()
    env = Env(fn, up0)
    sched = ["connect=steady"] if steady else (["connect=realistic"] if realistic else [])
    faulty = net.Menu(connect=(errno.EINPROGRESS, errno.ECONNREFUSED) + COMPLETION[core.TIER],
                      recv_idle_errnos=(errno.ECONNRESET,),
                      handshake=("want_read",))      # only TLS subjects ever handshake
    fn.menu = faulty
    try:
        obj, handler, service = build(subject, reconnectable, ck, fn)
        if subject.endswith("OwnStore"):
            ck = obj.store                 # no store was given: time passes on the Patron's own Store
            M["storing"].Store.Clear()     # (keeps the class-level name registry from growing over the executions)
    except Exception as ex:
        return ("raised|%s|%s" % (type(ex).__name__, where_of(ex)), "constructor raised %r" % ex, sched, fn)
    was_connected = False
    cut_at = None            # number of sockets in existence when a cut off was first seen
    not_live_since = None
    why = None
    total = H + closing_calls
    for step in range(total):
        closing = step >= H
        if step == H:        # from now on the environment is good
            env.up()
            pol.frozen = True
            fn.menu = net.Menu(connect=(errno.EINPROGRESS,)) if realistic else net.Menu()
            for s in fn.sockets:
                s.menu = fn.menu
        if not closing:
            opts = ["-", "toggle"] + (["close"] if env.has_open() else [])
            ev = opts[ch.choose(len(opts), "env", 0, 1)]
            if ev == "toggle":
                ev = "down" if env.listening else "up"
                (env.down if env.listening else env.up)()
            elif ev == "close":
                env.close_current()
            dt = adv[ch.choose(len(adv), "dt", 0, 1)]
        else:
            # immediate: one timeout per call; realistic: the timeout elapses once, then 4 calls per timeout
            # steady: never a jump, 4 calls per timeout
            ev, dt = "-", (T if (not realistic or (step == H and not steady)) else T / 4)
        ck.advanceStamp(dt)
        mark = len(fn.log)
        try:
            service()
        except Exception as ex:
            ans = [net.show(a) for n_, op, a in fn.log[mark:] if op in ("connect_ex", "recv") and isinstance(a, tuple)
                   and a not in (net.BLOCK,)]
            sched.append("%s/+%g/%sraised" % (ev, dt, (",".join(ans) + ",") if ans else ""))
            w = where_of(ex)
            return ("raised|%s|%s" % (type(ex).__name__, w),
                    "service call %d raised %s: %s (in %s)" % (step, type(ex).__name__, ex, w), sched, fn)
        env.accept_all()
        h = handler()
        ans = [net.show(a) for n_, op, a in fn.log[mark:] if op in ("connect_ex", "recv") and isinstance(a, tuple)
               and a not in (net.BLOCK,)]
        sched.append("%s/+%g/%s" % (ev, dt, ",".join(ans) or "."))
        part.transitions += 1
        why = live(subject, obj, h)
        if why is None:
            was_connected = True
        st = (subject, reconnectable, variant, bool(h.connected), bool(h.cutoff), h.cs is None,
              None if h.cs is None else raw_of(h.cs).state, env.listening, env.has_open(),
              round(h.timer.remaining, 3), closing, why is None)
        states.add(hash(st))
        if h.cutoff and was_connected and cut_at is None:
            cut_at = len(fn.sockets)
        if closing:
            k = step - H + 1          # number of good calls made so far
            if reconnectable and k >= window and why is not None:
                return ("not-reconnected",
                        "%d service calls into a good environment (server listening, %s) the client is still not "
                        "connected to a live socket: %s"
                        % (k, "connect_ex answers EINPROGRESS then 0, clock +%g per call, no jump" % (T / 4) if steady
                           else "connect_ex answers EINPROGRESS then 0, clock +%g then +%g per call" % (T, T / 4) if realistic
                           else "connects succeed at once, clock +%g per call" % T, why), sched, fn)
    if not reconnectable and cut_at is not None:
        made = [s.name for s in fn.sockets[cut_at:] if not s.name.startswith("listener")]
        made = [n for n in made if "<" not in n]       # server-side halves are created by the double
        if made:
            return ("reopened-after-cutoff", "not reconnectable, cut off, yet %d new socket(s) were constructed "
                    "afterwards: %s" % (len(made), made), sched, fn)
    part.outcome("%s %s %s: %s" % (subject, "reconnectable" if reconnectable else "plain",
                                   ("immediate", "realistic", "steady")[variant],
                                   "live at end" if why is None else "not connected at end"))
    return None


# ----------------------------------------------------------------------------- server-sent event stream
SSE_RETRY_MS = 500                 # what the server asks for: "retry: 500"
SSE_T = SSE_RETRY_MS / 1000.0      # the Patron's own reconnect timeout is set to the same value
SSE_STEP = SSE_T / 4               # clock advance per service call
SSE_WINDOW = 4 + 4                 # ceil(timeout / step) calls for the timer to run out + 4
SSE_CUTS = dict(quick=3, thorough=4)
SSE_UPTIMES = (2, 0, 6)            # service calls the stream is followed before the next cut (default first)


def execute_sse(ch, part, states):
    """A reconnectable Patron follows a text/event-stream whose server announces `retry: 500` (ms) and drops
    the stream several times while it keeps listening.  Choice points per cut: how long the stream is followed
    first, and how the cut shows (server closes -> EOF, or ECONNRESET on recv).  Connects are realistic
    (EINPROGRESS, then complete).  Oracle: live again within SSE_WINDOW service calls after every cut."""
    pol = Policy(ch, True)
    pol.frozen = True                       # socket answers are natural; the schedule below holds the choices
    fn = net.FakeNet(policy=pol)
    fn.menu = net.Menu(connect=(errno.EINPROGRESS,))
    FSM.net = fn
    ck = net.clock()
    env = Env(fn, True)
    sched = []
    served = [0]
    try:
        pat = M["hclienting"].Patron(store=ck, hostname=net.LOOP, port=PORT, timeout=SSE_T, reconnectable=True)
        pat.connector.reopen()
        pat.requests.append(dict(method=u"GET", path=u"/stream"))
    except Exception as ex:
        return ("raised|%s|%s" % (type(ex).__name__, where_of(ex)), "constructor raised %r" % ex, sched, fn)
    h = pat.connector

    def tick(label):
        ck.advance(SSE_STEP)
        try:
            pat.serviceAll()
        except Exception as ex:
            w = where_of(ex)
            raise Bad27("raised|%s|%s" % (type(ex).__name__, w), "serviceAll raised %s: %s (in %s) during %s"
                        % (type(ex).__name__, ex, w, label))
        env.accept_all()
        for c in env.conns:
            if not c.closed and b"\r\n\r\n" in c.inbox:        # a request arrived: start the event stream
                c.recv(len(c.inbox))
                served[0] += 1
                c.send(b"HTTP/1.0 200 OK\r\nContent-Type: text/event-stream\r\nCache-Control: no-cache\r\n"
                       b"Connection: close\r\n\r\nretry: %d\n\n" % SSE_RETRY_MS +
                       ("id: %d\ndata: hello %d\n\n" % (served[0], served[0])).encode("ascii"))
        part.transitions += 1
        why = live("Patron", pat, h)
        states.add(hash(("sse", bool(h.connected), bool(h.cutoff), h.cs is None,
                         None if h.cs is None else raw_of(h.cs).state, round(h.timer.remaining, 3),
                         round(h.timer.duration, 3), why is None, served[0] > 0)))
        return why

    try:
        for i in range(12):                  # connect, request, first events
            tick("start")
            if live("Patron", pat, h) is None and pat.respondent.leid == "1":
                break
        else:
            raise core.BrokenCheck("event stream never started over ideal doubles")
        if not pat.respondent.evented or int(pat.respondent.retry) != SSE_RETRY_MS:
            raise core.BrokenCheck("respondent did not pick up the event stream / retry field")
        for cut in range(1, SSE_CUTS[core.TIER] + 1):
            up = SSE_UPTIMES[ch.choose(len(SSE_UPTIMES), "uptime", 0, 1)]
            kind = ("close", "reset")[ch.choose(2, "cut", 0, 1)]
            sched.append("cut%d:after %d calls by %s" % (cut, up, kind))
            for i in range(up):
                why = tick("following the stream")
                if why is not None:
                    raise Bad27("not-reconnected", "lost the stream without a cut while following it: %s" % why)
            if kind == "close":
                env.close_current()
            else:
                raw_of(h.cs).force("recv", net.ERR(errno.ECONNRESET))
                for c in env.conns:          # the server side of a reset connection is gone too
                    c.close()
            for k in range(1, SSE_WINDOW + 1):
                why = tick("cut %d" % cut)
                if why is None and k > 1:
                    break
            if why is not None:
                raise Bad27("not-reconnected",
                            "event stream with retry: %d ms, timeout %gs, clock +%gs per call: %d service calls after cut "
                            "#%d the client is still not connected to a live socket: %s (reconnect timer: duration %gs, "
                            "remaining %gs)" % (SSE_RETRY_MS, SSE_T, SSE_STEP, SSE_WINDOW, cut, why, h.timer.duration,
                                                h.timer.remaining))
        part.outcome("Patron event stream: resumed after every cut")
        return None
    except Bad27 as b:
        return (b.kind, b.what, sched, fn)


class Bad27(Exception):
    def __init__(self, kind, what):
        self.kind = kind
        self.what = what


def trim(sched):
    """Drop the uneventful tail (good environment, nothing happening) from a printed schedule."""
    out = list(sched)
    while len(out) > 1 and out[-1] in ("-/+%g/." % T, "-/+%g/." % (T / 4)):
        out.pop()
    return out


def finish_replay(pid, path, p):
    """Common tail of --replay: report whether the recorded case still violates the property."""
    if p.violations:
        for group, example, what, _ in p.violations:
            print("VIOLATION property=%s replay=%s" % (pid, path))
            print("  what: %s" % what)
            print("  key:  %s|%s" % (group, example))
        return 1
    print("%s replay: the recorded case does not violate the property on this tree" % pid)
    return 0


def replay(path):
    import json
    d = json.load(open(path))
    r = d["replay"]
    if d.get("tier") in BOUNDS:
        core.TIER = d["tier"]          # the horizon depends on the tier
    p = work((r["subject"], r["reconnectable"], r["server_initially_up"]), replay=r["choices"])
    return finish_replay("C27", path, p)


def work(cfg, replay=None):
    subject, reconnectable, up0 = cfg
    init()
    b = BOUNDS[core.TIER]
    p = core.Part()
    states = set()
    best = {}
    sse = subject == "PatronSSE"

    def run(ch):
        with core.watchdog(20):
            if sse:
                res = execute_sse(ch, p, states)
            else:
                res = execute(ch, subject, reconnectable, up0, b["H"], p, states)
        p.traces += 1
        p.evaluations += 1
        if res is not None:
            kind, what, sched, fn = res
            p.outcome("violation %s" % kind.split("|")[0])
            rank = (ch.deviations(), len(ch.choices), ch.choices)
            if kind not in best or rank < best[kind][0]:
                tag = "%s|%s" % (subject, "reconnectable" if reconnectable else "not-reconnectable")
                best[kind] = (rank, (
                    "%s|%s" % (tag, kind),
                    "server=%s schedule=%s" % ("up" if up0 else "down", " ".join(trim(sched))),
                    "%s (%s, server initially %s): %s" % (subject, "reconnectable" if reconnectable else "not reconnectable",
                                                         "up" if up0 else "down", what),
                    dict(subject=subject, reconnectable=reconnectable, server_initially_up=up0, timeout=T,
                         schedule=sched, schedule_format="env event / clock advance / connect_ex and recv answers in that call",
                         choices=ch.choices, double_log=fn.trace(60), what=what,
                         how="build the subject over mc.net doubles with a manual clock; before each service call apply the "
                             "env event (down = close listener and its connections, close = server closes the connection), "
                             "advance the clock, then call the subject's service method(s)")))
        return res

    if replay is not None:
        run(core.Chooser(replay))
        st = dict(executions=1, max_points=len(replay))
    else:
        st = core.dfs(run, bound=(None if sse else b["dev"]))
    for kind in sorted(best):
        p.violation(*best[kind][1])
    for h in states:
        p.keys.add(h.to_bytes(8, "little", signed=True))
    p.notes["dfs executions"] += st["executions"]
    p.sample(dict(subject=subject, reconnectable=reconnectable, server_initially_up=up0, executions=st["executions"],
                  max_choice_points=st["max_points"]), limit=1)
    return p


def run():
    import os
    if os.environ.get("VERIF_REPLAY"):
        return replay(os.environ["VERIF_REPLAY"])
    net.selftest()
    ck = core.Check("C27", META["level"], META["technique"])
    cfgs = [(s, r, u) for s in SUBJECTS for r in (True, False) for u in (True, False)]
    cfgs.append(("PatronSSE", True, True))
    cfgs.extend(TLS_EXTRA)
    cfgs.extend(OWNSTORE_EXTRA)
    cfgs.extend(STACK_EXTRA)
    ck.merge(core.pmap(work, cfgs))
    ck.part.states = len(ck.part.keys)
    b = BOUNDS[core.TIER]
    ck.assumptions = [
        "socket doubles instead of loopback sockets (the kernel would own the schedule); a server going down resets its "
        "established connections (the client sees EOF), the server may also close one connection while staying up",
        "a 'service call' of a bare Client is serviceConnect()+serviceReceives()+serviceTxes(); Patron and TcpClientStack "
        "are serviced with serviceAll()",
        "a Patron built without store= owns a Store; its connector's timers must run on that same Store, which is the "
        "clock the harness (like Patron.serviceWhile) advances",
        "TcpClientStack has no constructor parameter for reconnectable; the harness sets stack.handler.reconnectable",
        "liveness window: %d service calls after the environment turned good and the timeout has elapsed (variants immediate / "
        "realistic); variant steady has no clock jump, so the window is ceil(T/(T/4)) + 4 = %d calls" % (WINDOW, STEADY_WINDOW),
        "an event-stream Patron's reconnect timeout is the one the server asked for (retry: N milliseconds), as ioflo "
        "intends (Patron.serviceAll re-arms the timer with retry/1000 s); PatronSSE: retry 500 ms, clock +125 ms per call, "
        "live again within %d calls after each of the cuts" % SSE_WINDOW,
        "states = distinct (flags, socket state, server state, timer remaining) snapshots after a service call",
    ]
    ck.coverage_extra = dict(deviation_bound=b["dev"], horizon=b["H"], closing_calls=CLOSING, window=WINDOW, steady_closing_calls=STEADY_CLOSING, steady_window=STEADY_WINDOW,
                             configurations=len(cfgs))
    return ck.finish(
        rule="{Client, Patron, TcpClientStack, ClientTls} (+ https Patron, reconnectable) x {reconnectable, not} x {server initially up, down}: every schedule of %d "
             "service calls with <= %d deviations among env event {none, toggle server, server closes connection}, clock "
             "advance {T, T/2, 0}, connect_ex {natural, EINPROGRESS, ECONNREFUSED, another completion errno (one of ECONNRESET, ECONNABORTED, "
             "ETIMEDOUT, ENETUNREACH, EHOSTUNREACH: a representative rotating with the position; in thorough the first "
             "one of an execution is each of the five)}, idle recv {would-block, ECONNRESET}; "
             "followed by %d good calls; plus PatronSSE: a reconnectable Patron on a text/event-stream with retry: 500, every "
             "sequence of %d cuts x {stream followed 2, 0, 6 calls first} x {server close, ECONNRESET}"
             % (b["H"], b["dev"], CLOSING, SSE_CUTS[core.TIER]),
        exhaustive=False,
        explanation="exhaustive within the deviation bound and horizon; bounded liveness, not a fixpoint")


if __name__ == "__main__":
    core.main(run)
