"""C34 HTTP redirects are followed safely to the final response.  Engine C (net doubles): a real redirectable
Patron facing harness-played origin servers keyed by (scheme, host, port); every redirect chain of bounded
length over absolute and relative Location forms, statuses, ports, hosts and schemes, each under a
deviation-bounded DFS over the schedule; oracle on the requests the origins saw and on the client's response."""
META = dict(
    engine="net", level="model_checking",
    technique="exhaustive generation of redirect chains (length <= 3) over Location forms x statuses x start scheme, each "
              "executed against a real Patron over socket doubles with harness-played origin servers under a stateless "
              "deviation-bounded DFS (core.dfs) over the schedule (which side is serviced next, short reads of the client); "
              "reference oracle = urljoin resolution of every Location against the URL of the request that was redirected",
    text="Twelve origins (http on ports 8080, 8081, 80 and https on 8443, 8444, 443, each on hosts 127.0.0.1 and 127.0.0.2) are "
         "played by the harness on socket doubles (TLS = the net engine's TLS double). A real redirectable Patron is started on "
         "http://127.0.0.1:8080/a/b/c?s=1 or https://127.0.0.1:8443/a/b/c?s=1 and sends one GET. The origins answer the k-th "
         "request they see with the k-th redirect of the chain (status from {301, 302, 303, 307}, a Location, a small body) and "
         "the request after the last redirect with 200. Location forms, relative to the URL just requested: absolute same origin, "
         "absolute other port, absolute other host, absolute without port (default port), absolute without path (other port), http->https (upgrade), https->http "
         "(downgrade), relative 'x', '/x/y', '../x' - each with and without a query; the relative forms' queries carry an unescaped URL "
         "('x?return=https://h.example/y', '/x/y?next=http://h/x&k=v') or a fragment with '://' ('../x?k=v#see://frag') - '?q=1', and two forms whose query values carry percent-escaped "
         "reserved characters ('?next=%2Fhome%3Fa%3D1%26b%3D2' relative, '/esc?co=A%26B&sum=1%2B1&eq=x%3Dy' absolute). All chains of length 0..2 with "
         "all four status rotations under all schedules with <= 1 deviation (quick), chains of length 3 with one status rotation "
         "under the default schedule (quick); thorough: all chains <= 3 with four rotations and <= 1 deviation, chains <= 2 with "
         "<= 2. Required: nothing raises; the origins see exactly the requests GET <path?query> of the urljoin-resolved "
         "locations, in order, each at the resolved (scheme, host, port) with a matching Host header; the client delivers exactly "
         "one response: the 200 of the last origin, not errored, carrying the redirect responses (status, Location, body) in "
         "order; a second request sent afterwards on the same Patron is answered with one more redirect (relative or absolute "
         "to the other port, by status rotation) which must be followed to the resolved location, and its final response carries "
         "exactly that one redirect; when a "
         "Location leaves https for http no request is sent there (and no further request at all) and at most one response is "
         "delivered; no request ever reaches an http origin after an https one.",
    note="Origins are harness-played (they answer a complete request at once); the redirected method is not judged (the "
         "statement does not define 303 semantics); only GET without a body is sent. Raw non-ASCII Locations are not generated "
         "(percent-escaped UTF-8 and spaces in the path are: '/caf%C3%A9/same', '/x/annual%20report'). Connection loss, refused connections and TLS handshake "
         "faults are C25/C27's subject.",
)
from urllib.parse import urljoin, urlsplit, unquote, parse_qsl

from mc import core, net, httpharness as hh

H1, H2 = "127.0.0.1", "127.0.0.2"
PORTS = dict(http=(8080, 8081, 80), https=(8443, 8444, 443))
DEFAULT = dict(http=80, https=443)
STARTS = dict(http="http://127.0.0.1:8080/a/b/c?s=1", https="https://127.0.0.1:8443/a/b/c?s=1")
STATUSES = ((301, "Moved Permanently"), (302, "Found"), (303, "See Other"), (307, "Temporary Redirect"))
TAIL = 3


def origin_of(url):
    sp = urlsplit(url)
    return (sp.scheme, sp.hostname, sp.port or DEFAULT[sp.scheme])


def target_of(url):
    sp = urlsplit(url)
    return (sp.path or "/") + ("?" + sp.query if sp.query else "")


def canon(target):
    """Request target up to percent-encoding spelling: (decoded path, decoded query pairs in order)."""
    path, sep, query = target.partition("?")
    return (unquote(path), parse_qsl(query, keep_blank_values=True))


def forms(cur, n):
    """Location forms available after requesting URL `cur`; n = index of the redirect in the chain."""
    scheme, host, port = origin_of(cur)
    pair = PORTS[scheme]
    oport = pair[1] if port == pair[0] else pair[0]
    ohost = H2 if host == H1 else H1
    out = [
        # "same" (absolute) and "abspath" (relative) carry percent-escapes in the PATH: non-ASCII and a space
        ("same", "%s://%s:%d/caf%%C3%%A9/same%d" % (scheme, host, port, n)),
        ("same+q", "%s://%s:%d/same%d?k=v%d" % (scheme, host, port, n, n)),
        ("port", "%s://%s:%d/port%d" % (scheme, host, oport, n)),
        ("port+q", "%s://%s:%d/port%d?k=v%d" % (scheme, host, oport, n, n)),
        ("host", "%s://%s:%d/host%d" % (scheme, ohost, port, n)),
        ("host+q", "%s://%s:%d/host%d?k=v%d" % (scheme, ohost, port, n, n)),
        ("noport", "%s://%s/noport%d" % (scheme, host, n)),
        ("nopath", "%s://%s:%d" % (scheme, host, oport)),
        ("rel", "x%d" % n),
        # the "+q" variants of the relative forms carry an unescaped URL as query value / a '://' in the fragment
        # (legal: ':' and '/' need no escaping there), so they look absolute to a sloppy test
        ("rel+q", "x%d?return=https://h%d.example/y" % (n, n)),
        ("abspath", "/x%d/annual%%20report" % n),
        ("abspath+q", "/x%d/y?next=http://h/x%d&k=v%d" % (n, n, n)),
        ("dotdot", "../x%d" % n),
        ("dotdot+q", "../x%d?k=v%d#see://frag%d" % (n, n, n)),
        ("query", "?q=%d" % n),
        # percent-escaped reserved characters inside query values (an escaped return URL, '&', '+', '=')
        ("escrel", "?next=%%2Fhome%%3Fa%%3D%d%%26b%%3D2" % n),
        ("escabs", "%s://%s:%d/esc%d?co=A%%26B&sum=1%%2B1&eq=x%%3Dy" % (scheme, host, port, n)),
    ]
    if scheme == "http":
        out.append(("upgrade", "https://%s:8443/up%d" % (host, n)))
    else:
        out.append(("downgrade", "http://%s:8080/down%d" % (host, n)))
    return out


def chains(start, first, maxlen):
    """All chains (tuples of (form name, location)) from `start` whose first form is `first`
    (None: the empty chain), shorter first."""
    if first is None:
        yield ()
        return
    level = []
    for name, loc in forms(STARTS[start], 0):
        if name == first:
            level.append((((name, loc),), urljoin(STARTS[start], loc), name == "downgrade"))
    for length in range(1, maxlen + 1):
        nxt = []
        for chain, cur, dead in level:
            yield chain
            if not dead and length < maxlen:
                for name, loc in forms(cur, length):
                    nxt.append((chain + ((name, loc),), urljoin(cur, loc), name == "downgrade"))
        level = nxt


def expectations(start, chain):
    """-> (list of expected (origin, target) requests, index of the downgrade redirect or None)"""
    cur = STARTS[start]
    exp = [(origin_of(cur), target_of(cur))]
    for i, (name, loc) in enumerate(chain):
        nxt = urljoin(cur, loc)
        if urlsplit(cur).scheme == "https" and urlsplit(nxt).scheme == "http":
            return exp, i
        exp.append((origin_of(nxt), target_of(nxt)))
        cur = nxt
    return exp, None


def execute(ch, start, chain, rot, part, states):
    """One execution -> (list of (kind, what), service order string, seen requests)"""
    from ioflo.aio.http import clienting
    FSM = hh.setup_ssl()
    fn = net.FakeNet(policy=hh.CutPolicy(ch))
    FSM.net = fn
    ck = net.clock()
    L = len(chain)
    exp, down_at = expectations(start, chain)
    seen = []
    # where the chain ends, and the redirect the second request will get: relative or absolute to the other port
    cur = STARTS[start]
    for name, loc in chain:
        cur = urljoin(cur, loc)
    scheme2, host2, port2 = origin_of(cur)
    if rot % 2 == 0:
        loc2 = "/again%d/w?r=2" % L
    else:
        pair = PORTS[scheme2]
        loc2 = "%s://%s:%d/again%d?r=2" % (scheme2, host2, pair[1] if port2 == pair[0] else pair[0], L)
    url2 = urljoin(cur, loc2)

    def route(origin, rq):
        k = len(seen) - 1            # this request's index
        if k < L:
            status, reason = STATUSES[(k + rot) % 4]
            body = b"moved%d" % k
            return ("HTTP/1.1 %d %s\r\nLocation: %s\r\nContent-Type: text/plain\r\nContent-Length: %d\r\n\r\n"
                    % (status, reason, chain[k][1], len(body))).encode() + body
        if k == L + 1:          # the second request on the same Patron is redirected once more
            body = b"again"
            return ("HTTP/1.1 302 Found\r\nLocation: %s\r\nContent-Type: text/plain\r\nContent-Length: %d\r\n\r\n"
                    % (loc2, len(body))).encode() + body
        body = b"final%d" % k
        return b"HTTP/1.1 200 OK\r\nContent-Type: text/plain\r\nContent-Length: %d\r\n\r\n" % len(body) + body

    origins = []
    for scheme in ("http", "https"):
        for host in (H1, H2):
            for port in PORTS[scheme]:
                origins.append(hh.Origin(fn, scheme, host, port, route, seen))
    fn.menu = net.Menu(recv_split=True)          # sockets created from now on (the client's) may read short
    sp = urlsplit(STARTS[start])
    kw = dict(context=net.FakeSslContext(fn)) if start == "https" else {}
    patron = clienting.Patron(hostname=sp.hostname, port=sp.port, scheme=sp.scheme, path=sp.path + "?" + sp.query,
                              store=ck, **kw)
    patron.open()
    patron.request()
    order = []
    viol = []
    expected_side = "C"
    done_at = None
    cap = 6 * (L + 1) + 6
    for step in range(cap):
        if done_at is None:
            c = ch.choose(2, "side", 0, 1)
            who = expected_side if c == 0 else ("S" if expected_side == "C" else "C")
        else:
            who = expected_side
        expected_side = "S" if who == "C" else "C"
        order.append(who)
        try:
            if who == "C":
                patron.serviceAll()
            else:
                for o in origins:
                    o.service()
        except core.BrokenCheck:
            raise
        except Exception as ex:
            if down_at is not None and len(seen) == len(exp):
                part.notes["raise on https->http redirect (accepted: behaviour unspecified)"] += 1
                break
            viol.append(("raised|%s" % hh.exc_sig(ex), "Patron.serviceAll raised %r at service call %d" % (ex, step + 1)))
            return viol, "".join(order), seen
        ck.advance(0.01)
        part.transitions += 1
        rsp = patron.respondent
        states.add(hash((start, who, len(seen), len(patron.responses), bool(patron.waited), len(patron.redirects),
                         bool(patron.connector.connected), len(patron.connector.rxbs), len(patron.connector.txes),
                         bool(rsp.headed), bool(rsp.ended), patron.secured)))
        if done_at is None and patron.responses:
            done_at = step
        if done_at is not None and step >= done_at + TAIL:
            break
    # ---- what the origins saw
    got = [(key, rq["method"], rq["target"], rq["headers"].get("host")) for key, rq in seen]
    want = [(key, "GET", tgt, "%s:%d" % (key[1], key[2])) for key, tgt in exp]
    https_seen = False
    for key, m, t, h in got:
        if key[0] == "https":
            https_seen = True
        elif https_seen:
            viol.append(("downgraded", "request %s %s was sent to the http origin %s:%d after an https request" % (m, t, key[1], key[2])))
            break
    for i in range(max(len(got), len(want))):
        g = got[i] if i < len(got) else None
        w = want[i] if i < len(want) else None
        if g is not None and w is not None and (g[0], g[1], canon(g[2]), g[3]) == (w[0], w[1], canon(w[2]), w[3]):
            continue
        if g is None:
            nm = chain[i - 1][0]
            viol.append(("not-followed|%s" % ("relative" if nm.split("+")[0] in ("rel", "abspath", "dotdot", "query", "escrel") else nm.split("+")[0]),
                         "redirect %d (%d, Location: %s) was not followed: expected GET %s at %s://%s:%d, no request was sent"
                         % (i, STATUSES[(i - 1 + rot) % 4][0], chain[i - 1][1], w[2], w[0][0], w[0][1], w[0][2])))
        elif w is None:
            viol.append(("extra-request", "unexpected request %d: %s %s at %s://%s:%d (Host: %s)" % (i + 1, g[1], g[2], g[0][0], g[0][1], g[0][2], g[3])))
        else:
            nm = chain[i - 1][0] if i else "start"
            what = "wrong-origin" if g[0] != w[0] else "wrong-target" if (g[1], canon(g[2])) != (w[1], canon(w[2])) else "wrong-host-header"
            viol.append(("%s|%s" % (what, nm.split("+")[0]),
                         "request %d after Location %r: got %s %s at %s://%s:%d (Host: %s), expected %s %s at %s://%s:%d (Host: %s)"
                         % (i + 1, chain[i - 1][1] if i else None, g[1], g[2], g[0][0], g[0][1], g[0][2], g[3],
                            w[1], w[2], w[0][0], w[0][1], w[0][2], w[3])))
        break
    # ---- what the client delivered
    rs = list(patron.responses)
    if len(rs) > 1:
        viol.append(("several-responses", "%d responses delivered for one request" % len(rs)))
    if down_at is None:
        if not viol and not rs:
            viol.append(("no-final-response", "after %d service calls no response was delivered (waited=%s, %d requests seen)"
                         % (len(order), patron.waited, len(seen))))
        if rs and not viol:
            r = rs[0]
            if r.get("errored") or r.get("status") != 200 or bytes(r.get("body") or b"") != b"final%d" % L:
                viol.append(("wrong-final-response", "final response: status %r errored=%r (%s) body %r; expected 200 %r"
                             % (r.get("status"), r.get("errored"), r.get("error"), bytes(r.get("body") or b""), b"final%d" % L)))
    if rs and not viol:
        reds = rs[0].get("redirects") or []
        n = L if down_at is None else down_at + 1
        gotc = [(d.get("status"), (d.get("headers") or {}).get("location"), bytes(d.get("body") or b"")) for d in reds]
        wantc = [(STATUSES[(k + rot) % 4][0], chain[k][1], b"moved%d" % k) for k in range(n)]
        if down_at is not None and gotc == wantc[:-1] and rs[0].get("status") == wantc[-1][0]:
            gotc = wantc          # the refused redirect may be the delivered response itself
        if [g[:2] for g in gotc] != [w[:2] for w in wantc]:
            viol.append(("wrong-redirect-chain", "final response carries redirects %r, expected %r" % ([g[:2] for g in gotc], [w[:2] for w in wantc])))
        elif gotc != wantc:
            viol.append(("redirect-body-changed", "the redirect responses carried by the final response have bodies %r, the "
                         "origins sent %r" % ([g[2] for g in gotc], [w[2] for w in wantc])))
    # ---- a second request on the same Patron, itself redirected once: followed to the right place, its response
    # carries the chain of THAT request only
    if rs and not viol and down_at is None:
        patron.request()
        for i in range(12):
            try:
                if i % 2 == 0:
                    patron.serviceAll()
                else:
                    for o in origins:
                        o.service()
            except Exception as ex:
                viol.append(("raised|%s" % hh.exc_sig(ex), "second request on the same Patron: serviceAll raised %r" % (ex,)))
                break
            part.transitions += 1
            if i >= 5 and len(patron.responses) >= 2 and i % 2 == 1:
                break
        if not viol:
            rs2 = list(patron.responses)
            got2 = [(key, rq["method"], canon(rq["target"])) for key, rq in seen[len(exp):]]
            want2 = [(exp[-1][0], "GET", canon(exp[-1][1])), (origin_of(url2), "GET", canon(target_of(url2)))]
            if got2 != want2:
                viol.append(("later-request-redirect-not-followed" if len(got2) < 2 else "later-request-misrouted",
                             "second request on the same Patron, answered 302 Location: %s: the origins saw %r, expected %r"
                             % (loc2, [(k_, m, seen[len(exp) + n][1]["target"]) for n, (k_, m, t) in enumerate(got2)],
                                [(want2[0][0], "GET", exp[-1][1]), (want2[1][0], "GET", target_of(url2))])))
            elif len(rs2) != 2:
                viol.append(("later-request-stalled", "second request on the same Patron (redirected once): %d responses delivered "
                             "after 12 service calls, waited=%s" % (len(rs2) - 1, patron.waited)))
            elif rs2[1].get("status") != 200 or rs2[1].get("errored") or bytes(rs2[1].get("body") or b"") != b"final%d" % (L + 2):
                viol.append(("later-request-wrong-final", "second request: final response status %r errored=%r body %r, expected "
                             "200 %r" % (rs2[1].get("status"), rs2[1].get("errored"), bytes(rs2[1].get("body") or b""),
                                         b"final%d" % (L + 2))))
            else:
                gotc = [(d.get("status"), (d.get("headers") or {}).get("location")) for d in (rs2[1].get("redirects") or [])]
                if gotc != [(302, loc2)]:
                    viol.append(("stale-redirect-chain", "the response to the second request (redirected once, Location: %s) "
                                 "carries the redirects %r" % (loc2, gotc)))
    part.outcome("%s L=%d %s" % (start, L, "violation" if viol else "refused downgrade" if down_at is not None else "followed"))
    return viol, "".join(order), seen


def sched_str(ch, order):
    if ch.deviations() == 0:
        return "default"
    return "%s devs[%s]" % (order, ",".join("%d:%s=%d" % (i, lab, c) for i, (n, lab, d, cost, c) in enumerate(ch.points) if c != d))


def plan():
    """Per tier: list of (maxlen, rotations, deviation bound) passes; a chain of length l runs in the first pass whose
    maxlen >= l ... passes are cumulative by length range."""
    if core.TIER == "thorough":
        return [((0, 2), (0, 1, 2, 3), 2), ((3, 3), (0, 1, 2, 3), 1)]
    return [((0, 2), (0, 1, 2, 3), 1), ((3, 3), None, 0)]


def work(item):
    idx, start, first = item
    hh.setup_ssl()
    p = core.Part()
    states = set()
    best = {}
    nchains = 0
    for ci, chain in enumerate(chains(start, first, 3)):
        L = len(chain)
        for (lo, hi), rots, bound in plan():
            if not (lo <= L <= hi):
                continue
            if rots is None:
                rots = ((idx + ci) % 4,)
            if L == 0:
                rots = (0,)
            nchains += 1
            for rot in rots:
                def run(ch):
                    with core.watchdog(30):
                        viol, order, seen = execute(ch, start, chain, rot, p, states)
                    p.traces += 1
                    p.evaluations += 1
                    for kind, what in viol:
                        rank = (ch.deviations(), L, idx, ci, rot, len(ch.choices), tuple(ch.choices))
                        if kind not in best or rank < best[kind][0]:
                            desc = ",".join("%d:%s" % (STATUSES[(k + rot) % 4][0], chain[k][0]) for k in range(L))
                            best[kind] = (rank, (
                                kind,
                                "start=%s chain=%s schedule=%s" % (start, desc or "-", sched_str(ch, order)),
                                "start %s, redirect chain [%s], schedule %s: %s"
                                % (STARTS[start], ", ".join("%d Location: %s" % (STATUSES[(k + rot) % 4][0], chain[k][1])
                                                            for k in range(L)), sched_str(ch, order), what),
                                dict(start=STARTS[start], chain=[dict(status=STATUSES[(k + rot) % 4][0], form=chain[k][0],
                                                                      location=chain[k][1]) for k in range(L)],
                                     choices=ch.choices, service_order=order,
                                     requests_seen=[dict(origin="%s://%s:%d" % key, method=rq["method"], target=rq["target"],
                                                         host=rq["headers"].get("host")) for key, rq in seen],
                                     expected_requests=["%s://%s:%d %s" % (k_[0], k_[1], k_[2], t) for k_, t in expectations(start, chain)[0]],
                                     what=what,
                                     how="listen on the origins; Patron(hostname, port, scheme, path='/a/b/c?s=1'[, context]) "
                                         "over mc.net doubles; patron.request(); alternate patron.serviceAll() (C) with the "
                                         "origins answering (S) in service_order; origin k-th answer is chain[k]")))
                    return None
                st = core.dfs(run, bound=bound)
                p.notes["dfs executions"] += st["executions"]
    for h in states:
        p.keys.add(h.to_bytes(8, "little", signed=True))
    p.notes["chains"] += nchains
    if idx == 1:
        p.sample(dict(start=start, first_form=first, chains=nchains), limit=1)
    return p, best


def run():
    ck = core.Check("C34", META["level"], META["technique"])
    items = []
    for start in ("http", "https"):
        items.append((len(items), start, None))
        for name, loc in forms(STARTS[start], 0):
            items.append((len(items), start, name))
    order = sorted(range(len(items)), key=lambda i: (items[i][2] in (None, "downgrade"), i))
    results = core.pmap(work, [items[i] for i in order])
    hh.merge_best(ck, results)
    ck.part.states = len(ck.part.keys)
    ck.coverage_extra = dict(passes=[dict(lengths=list(p[0]), status_rotations=("one per chain" if p[1] is None else len(p[1])),
                                          deviation_bound=p[2]) for p in plan()],
                             location_forms=[f[0] for f in forms(STARTS["http"], 0)] + ["downgrade"],
                             statuses=[s[0] for s in STATUSES], starts=sorted(STARTS.values()), origins=12)
    ck.assumptions = [
        "socket doubles instead of real sockets; origins are played by the harness and answer each complete request at once; "
        "TLS is the net engine's plaintext-moving TLS double (handshakes succeed); contexts ioflo creates itself come from an "
        "ssl-module double in ioflo.aio.tcp.clienting",
        "the reference resolution of a Location is urllib.parse.urljoin(URL of the redirected request, Location); the expected "
        "request target is its path plus '?query', compared up to percent-encoding spelling (path and query name/value pairs each percent-decoded exactly "
        "once, in order - a doubly encoded '%2520' is not '%20'); the expected Host header is host:port of the resolved origin",
        "'reissues the request' is read as: same method (GET) to the resolved location; method rewriting for 303 is not judged",
        "a Location that leaves https for http must not be followed; what the client delivers then (an errored response, "
        "nothing, or an exception) is not judged beyond 'at most one response, carrying the chain so far in order'",
        "status of the k-th redirect = STATUSES[(k + rotation) % 4]; quick tier runs all four rotations for chains <= 2 and one "
        "rotation (by chain index) for chains of length 3",
        "states = distinct client snapshots after a service call; transitions = service calls; traces = executions judged",
    ]
    return ck.finish(
        rule="2 start schemes x every chain of <= 3 redirects over 18 Location forms (per current URL) x status rotations x "
             "schedules within the deviation bound (side order, client short reads); see coverage.passes",
        exhaustive=False,
        explanation="exhaustive over the chain grammar within length 3; schedules within the deviation bound")


if __name__ == "__main__":
    core.main(run)
