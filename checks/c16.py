"""C16 script layout does not change what is built.  Engine A (real Builder, plus real Skedder runs for small programs)."""
META = dict(
    engine="flo", level="exploration",
    technique="bounded-exhaustive enumeration of layout edits (every single edit at every position, every all-at-once "
              "variant) through the real FloScript Builder; structural dump equality with the original layout, and run-trace "
              "equality with the real Skedder for runnable programs",
    text="Programs: two runnable generated programs, one generated program holding every verb and clause form (incl. `via` and `as` clauses on framer/frame/do/aux/rear/log), "
         "and the example plans (10 in quick, all 33 in thorough; box5/box6 with their `load`ed file, testServer with skedder "
         "metas). Each is parsed into logical commands and re-rendered with exactly one layout edit: each command's indentation "
         "set to 0/2/7 spaces or a tab; a trailing comment (plain, and one holding quotes and connectives) appended; a blank / "
         "comment / indented comment line inserted before it; a backslash continuation at each token boundary (continuation line indented by spaces, and by a tab); a line break "
         "before each connective token; for every command with >= 2 connectives a continuation line at every connective with a blank / whitespace-only / comment / indented-comment line before one of them - every edit at every position - plus the all-at-once variant of each kind, the "
         "one-command-per-line normal form and all kinds combined (thorough: also every pair of single edits of one runnable "
         "program). Oracle: the structural dump of the built houses equals that of the original text (or the same error); "
         "for the runnable programs the recorder events, per-tick framer snapshots and outcome of a 12-tick real Skedder run "
         "are equal too. Two runnable multi-file programs (a parent that `load`s a fragment in the middle of a frame and "
         "continues after it) get every edit on the fragment, each with and without a newline at the end of the file, so that a "
         "continuation line is the very last line of the loaded file.",
    note="Comment or blank lines are inserted between commands (also between a command and its connective continuation), not "
         "inside a backslash-continued command; comments go at the end of a physical line that does not end in a backslash. "
         "Plans are built, not run (they log to disk / open sockets).",
)
import hashlib
import itertools
import json
from mc import core

QUICK_PLANS = ["testPoint.flo", "continuation.flo", "box5.flo", "testLog.flo", "testServer.flo", "basic.flo",
               "testViaDoClausePer.flo", "testMarker.flo", "cloner.flo", "testRepeat.flo"]
CHUNK = 120   # edits per work item


def _load():
    core.use_repo()
    from mc.flo import scripts
    return scripts


def programs(scripts):
    """[(name, kind, text, flag)] smallest first; kind in prog (built and run), gen (built), plan (built)."""
    out = [(n, "prog", t, 0) for n, t in scripts.RUNNABLE.items()]
    out.append(("allverbs", "gen", scripts.corpus_program(), 0))
    plans = scripts.load_plans()
    names = [n for n in QUICK_PLANS]
    if core.TIER == "thorough":
        names += [n for n in plans if n not in QUICK_PLANS and n not in scripts.FRAGMENT_PLANS]
    for n in names:
        out.append((n, "plan", plans[n], 0 if n in QUICK_PLANS else 1))
    return out


# ----------------------------------------------------------------------------- observation

def digest(s):
    return hashlib.blake2b(s.encode("utf-8", "backslashreplace"), digest_size=12).hexdigest()


def run_trace(scripts, built):
    from mc.flo import real
    r = real.run(built.houses, tick=0.125, horizon=12, limit=20.0)
    return json.dumps([r.outcome, r.events, [t["framers"] for t in r.ticks], r.final], default=repr)


def observe(scripts, kind, name, text, plans):
    """-> (tag, detail): ('ok', digest of dump [+ run trace]) or ('fail', error signature)."""
    def bld():
        if kind == "plan":
            return scripts.build_plan(plans, name, text=text, limit=10.0)
        return scripts.build(text, extra_files=scripts.LOADED, limit=10.0)
    b = bld()
    if b.kind == "Watchdog":
        b = scripts.build_plan(plans, name, text=text, limit=40.0) if kind == "plan" else \
            scripts.build(text, extra_files=scripts.LOADED, limit=40.0)
    if not b.ok:
        return ("fail", "Watchdog: build does not terminate" if b.kind == "Watchdog"
                else scripts.failure_sig(b, strip_lines=True))
    d = scripts.dumps(b)
    if kind == "prog":
        d += "\nRUN " + run_trace(scripts, b)
    return ("ok", digest(d))


def edit_kind(label):
    if label.startswith("pair:"):
        return "pair of edits"
    if label.startswith("normalised"):
        return "normalised"
    if label.startswith("blank line appended"):
        return "lines appended at end"
    pre = "all " if label.startswith("all:") else ""
    tail = label[5:] if pre else label.rsplit("`: ", 1)[-1]
    for k in ("indent", "trailing comment", "line", "blank and comment lines", "backslash+tab", "backslash", "newline before",
              "continuation lines",
              "every kind combined"):
        if tail.startswith(k):
            return pre + k
    return pre + tail[:20]


def variants(scripts, cmds, with_pairs):
    vs = list(scripts.all_at_once(cmds)) + list(scripts.single_edits(cmds))
    if with_pairs:
        singles = [(l, s) for l, s in scripts.single_edits(cmds) if not any(v.get("post") for v in s.values())]
        for (l1, s1), (l2, s2) in itertools.combinations(singles, 2):
            (i1, st1), = s1.items()
            (i2, st2), = s2.items()
            if i1 == i2:
                merged = dict(st1)
                br = dict(st1.get("breaks", {}))
                br.update(st2.get("breaks", {}))
                merged.update(st2)
                if br:
                    merged["breaks"] = br
                if "pre" in st1 and "pre" in st2:
                    merged["pre"] = st1["pre"] + st2["pre"]
                styles = {i1: merged}
            else:
                styles = {i1: st1, i2: st2}
            vs.append(("pair: %s + %s" % (l1, l2), styles))
    return vs


def observe_multi(scripts, spec, fragtext):
    files = dict(scripts.LOADED)
    files[spec["fragname"]] = fragtext
    b = scripts.build(spec["parent"], extra_files=files, limit=10.0)
    if b.kind == "Watchdog":
        b = scripts.build(spec["parent"], extra_files=files, limit=40.0)
    if not b.ok:
        return ("fail", "Watchdog: build does not terminate" if b.kind == "Watchdog"
                else scripts.failure_sig(b, strip_lines=True))
    d = scripts.dumps(b)
    if spec.get("run"):
        d += "\nRUN " + run_trace(scripts, b)
    return ("ok", digest(d))


def work_multi(item):
    """Programs made of a parent that `load`s a fragment: the layout edits go to the fragment."""
    scripts = _load()
    pi, name, kind, spec, flag, lo, hi, _ = item
    p = core.Part()
    found = {}
    ref = observe_multi(scripts, spec, spec["fragment"])
    if lo == 0:
        p.outcome("original multi: %s" % (ref[0] if ref[0] == "ok" else ref[1][:60]))
    vs = list(scripts.fragment_variants(spec["fragment"]))
    for vi in range(lo, min(hi, len(vs))):
        label, ftext = vs[vi]
        got = observe_multi(scripts, spec, ftext)
        p.evaluations += 1
        if ftext != spec["fragment"]:
            p.nontrivial(name + "\0" + ftext)
        ek = "loaded fragment: " + edit_kind(label[len("fragment "):].split("; ")[0]) + \
             (", no final newline" if label.endswith("no newline at end of file") else "")
        p.outcome("%s: %s" % (ek, "same" if got == ref else "DIFFERENT"))
        if p.evaluations % 199 == 1:
            p.sample(dict(program=name, edit=label, outcome=got[0]))
        if got == ref:
            continue
        if ref[0] == "ok" and got[0] == "ok":
            div = "built house or run differs"
        elif ref[0] == "ok":
            div = "original builds, variant fails"
        elif got[0] == "ok":
            div = "original fails, variant builds"
        else:
            div = "different error"
        group = "%s|%s" % (ek, div)
        rank = (flag, pi, 0 if "cmd" in label else 1, vi)
        if group not in found or rank < found[group][0]:
            found[group] = (rank, "%s: %s" % (name, label),
                            "%s, %s: %s (original: %s, variant: %s)" % (name, label, div, ref[1][:80], got[1][:80]),
                            dict(program=name, edit=label, parent=spec["parent"], fragment_name=spec["fragname"],
                                 fragment_original=spec["fragment"], fragment_variant=ftext,
                                 how="write parent and fragment to one directory, build the parent with "
                                     "ioflo.base.building.Builder for both fragment texts and compare"))
    p.extra["found"] = found
    return p


def work(item):
    if item[2] == "multi":
        return work_multi(item)
    scripts = _load()
    pi, name, kind, text, flag, lo, hi, with_pairs = item
    p = core.Part()
    plans = scripts.load_plans() if kind == "plan" else {}
    found = {}
    ref = observe(scripts, kind, name, text, plans)
    cmds = scripts.parse_commands(text)
    vs = variants(scripts, cmds, with_pairs)
    if lo == 0:
        p.outcome("original %s: %s" % (kind, ref[0] if ref[0] == "ok" else ref[1][:60]))
    for vi in range(lo, min(hi, len(vs))):
        label, styles = vs[vi]
        vtext = scripts.render_variant(cmds, styles)
        got = observe(scripts, kind, name, vtext, plans)
        p.evaluations += 1
        if vtext != text:
            p.nontrivial(name + "\0" + vtext)
        ek = edit_kind(label)
        p.outcome("%s: %s" % (ek, "same" if got == ref else "DIFFERENT"))
        if p.evaluations % 499 == 1:
            p.sample(dict(program=name, edit=label, outcome=got[0]))
        if got == ref:
            continue
        if ref[0] == "ok" and got[0] == "ok":
            div = "built house or run differs"
        elif ref[0] == "ok":
            div = "original builds, variant fails"
        elif got[0] == "ok":
            div = "original fails, variant builds"
        else:
            div = "different error"
        group = "%s|%s" % (ek, div)
        rank = (flag, pi, 0 if label.startswith("cmd") else 1, vi)
        if group not in found or rank < found[group][0]:
            found[group] = (rank, "%s: %s" % (name, label),
                            "%s, %s: %s (original: %s, variant: %s)" % (name, label, div, ref[1][:80], got[1][:80]),
                            dict(program=name, edit=label, original=text, variant=vtext,
                                 how="build both texts with ioflo.base.building.Builder and compare the houses"
                                     + (" (box5/box6 load gps.flo from ioflo/app/plan)" if kind == "plan" else "")))
    p.extra["found"] = found
    return p


def run():
    ck = core.Check("C16", META["level"], META["technique"])
    scripts = _load()
    progs = programs(scripts)
    # the every-verb program must offer the split-before-connective edit a `via` / `as` clause on each verb having one
    allverbs = scripts.parse_commands([t for n, k, t, f in progs if n == "allverbs"][0])
    for verb, conn in (("framer", "via"), ("frame", "via"), ("do", "via"), ("do", "as"), ("aux", "via"), ("aux", "as"),
                       ("rear", "as"), ("log", "as")):
        if not any(c["tokens"][0] == verb and conn in c["tokens"][1:] for c in allverbs):
            raise core.BrokenCheck("generated program 'allverbs' has no `%s ... %s` command" % (verb, conn))
    items = []
    nvar = {}
    for mi, (mname, spec) in enumerate(scripts.MULTI.items()):
        n = sum(1 for _ in scripts.fragment_variants(spec["fragment"]))
        nvar[mname] = n
        for lo in range(0, n, CHUNK):
            items.append((1000 + mi, mname, "multi", spec, 0, lo, lo + CHUNK, False))
    for pi, (name, kind, text, flag) in enumerate(progs):
        cmds = scripts.parse_commands(text)
        with_pairs = core.TIER == "thorough" and name == "flat"
        n = len(variants(scripts, cmds, with_pairs))
        nvar[name] = n
        # the normal form must keep the meaning, else the parse used to place the edits is not ioflo's
        for lo in range(0, n, CHUNK):
            items.append((pi, name, kind, text, flag, lo, lo + CHUNK, with_pairs))
    order = list(range(len(items)))
    if core.SEED:
        import random
        random.Random(core.SEED).shuffle(order)
    res = scripts.pmap(work, [items[i] for i in order])
    parts = [None] * len(order)
    for j, i in enumerate(order):      # merge in item order whatever the dispatch order was
        parts[i] = res[j]
    found = {}
    for p in parts:
        for g, v in p.extra.pop("found").items():
            if g not in found or v[0] < found[g][0]:
                found[g] = v
        ck.part.merge(p)
    for g in sorted(found, key=lambda g: found[g][0]):
        rank, example, what, replay = found[g]
        ck.part.violation(g, example, what, replay)
    ck.coverage_extra = dict(programs=[p[0] for p in progs], variants_per_program=nvar, work_items=len(items))
    ck.assumptions = [
        "reference = the program's original text; equality on the full structural dump (all houses, acts with their 'human' "
        "command string, shares) and, for the two runnable programs, on recorder events + per-tick framer snapshots + outcome "
        "of a 12-tick run; failing builds compare by (error class, message with line numbers masked)",
        "blank/comment lines are inserted between commands and before connective-continuation lines, never inside a "
        "backslash-continued command (an escaped newline followed by a comment is not a reformatting)",
        "the reserved words at which a command is split (22 connectives, 6 comparisons) are a literal list in the harness "
        "written from the documentation, not read from ioflo at run time",
        "logical commands are found with the same rules as Builder.tokenize/build; the one-command-per-line normal form of "
        "every program is itself one of the variants compared with the original",
    ]
    return ck.finish(
        rule="every single layout edit (4 indents, 2 trailing comments, 3 inserted lines, backslash at each token boundary, "
             "newline before each connective) at every command of %d programs, plus 13 all-at-once variants each%s; "
             "non-trivial = variant text different from the original"
             % (len(progs), " and every pair of single edits of program 'flat'" if core.TIER == "thorough" else ""),
        exhaustive=True)


if __name__ == "__main__":
    core.main(run)
