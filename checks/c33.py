"""C33 Server-sent events parse the same for any split and any line ending.  Engine D (mc/split): every
line-ending assignment {LF, CRLF, CR}^lines of generated event streams, under every arrival schedule
into <= k receives, through the real EventSource, against a WHATWG event-stream reference."""
META = dict(
    engine="split", level="model_checking",
    technique="exhaustive enumeration of line-ending assignments x arrival schedules (all splits into <= k pieces) of generated event streams through the real EventSource, compared with a WHATWG event-stream reference interpreter run on the whole byte stream",
    text="Event streams are generated from a line grammar (data with/without space, field without colon, comment, id, event, retry "
         "numeric and non-numeric, unknown field, UTF-8 value): all one-line events, all two-line events over a six-line alphabet, "
         "selected three-line events and all pairs of one-line events; each line (and each dispatching blank line) gets its ending "
         "drawn independently from {LF, CRLF, CR} (every assignment).  Every distinct byte stream is delivered to a fresh "
         "ioflo EventSource under every split into <= 3 receives (<= 4 for streams up to 24 bytes in thorough) with parse() after each "
         "receive and, as a further environment choice, idle parse() calls with no new bytes between two receives (quick: at most one gap with one "
         "idle pass; thorough: 0-2 in every gap for <= 3 receives); events (id, name, data), retry and last event id must equal the reference interpretation of the bytes and the "
         "one-piece parse.  States = (stream, split, idle passes) schedules, transitions = parse() calls.",
    note="Bounded: <= 2 events, <= 3 field lines per event, <= 3 (4) receives.  Connection close / end-of-stream flushing, the BOM, "
         "json-decoded data and ids containing NUL are not exercised.  The reference follows ioflo's documented choice of not "
         "dispatching an event whose data is the empty string (the statement does not define that case).",
)
import itertools
import traceback

from mc import core, split

LF, CRLF, CR = b"\n", b"\r\n", b"\r"
EOLS = (LF, CRLF, CR)
EOLNAME = {LF: "LF", CRLF: "CRLF", CR: "CR"}


# --------------------------------------------------------------------------- reference

def ref_lines(b):
    """WHATWG: lines end with CRLF, LF or CR.  -> (complete lines, unterminated rest)."""
    lines, cur, i, n = [], bytearray(), 0, len(b)
    while i < n:
        c = b[i]
        if c == 13:
            lines.append(bytes(cur))
            cur = bytearray()
            if i + 1 < n and b[i + 1] == 10:
                i += 1
        elif c == 10:
            lines.append(bytes(cur))
            cur = bytearray()
        else:
            cur.append(c)
        i += 1
    return lines, bytes(cur)


def interpret(lines):
    """WHATWG event-stream interpretation of complete lines -> (events, retry, last event id).
    An event is (id, name, data); name '' = not given.  Events whose data is '' are not dispatched
    (ioflo's documented reading; WHATWG would dispatch 'data' followed by a blank line)."""
    events, data, name, leid, retry = [], [], "", None, None
    for line in lines:
        if line == b"":
            if data:
                d = "\n".join(data)
                if d != "":
                    events.append((leid, name, d))
            data, name = [], ""
            continue
        if line.startswith(b":"):
            continue
        field, sep, value = line.partition(b":")
        if value.startswith(b" "):
            value = value[1:]
        f, v = field.decode("utf-8"), value.decode("utf-8")
        if f == "event":
            name = v
        elif f == "data":
            data.append(v)
        elif f == "id":
            leid = v
        elif f == "retry":
            if v and all(ch in "0123456789" for ch in v):
                retry = int(v)
    return events, retry, leid


def reference(stream):
    lines, rest = ref_lines(stream)
    ev, retry, leid = interpret(lines)
    return dict(outcome="parsed", events=ev, retry=retry, leid=leid)


# --------------------------------------------------------------------------- streams

ALPHA12 = [b"data: a", b"data:b", b"data", b": c", b"id: 1", b"event: e", b"retry: 30", b"retry: x",
           b"x: y", b"data:  d", b"data: \xc3\xa9", b"id"]
ALPHA6 = [b"data: a", b"data:b", b": c", b"id: 1", b"event: e", b"retry: 30"]
THREE = [(b"data: a", b"data: b", b"data: c"), (b"id: 1", b"event: e", b"data: a"),
         (b"data: a", b": c", b"data"), (b"retry: 30", b"data: a", b"id: 2"),
         (b"data", b"data", b"event: e"), (b"event: e", b"data:  d", b"x: y")]
PAIR5 = [b"data: a", b"id: 1", b"event: e", b"retry: 30", b"data"]


def logical_streams():
    """List of streams; a stream is a list of events; an event is a tuple of field lines (the
    dispatching blank line is implied).  Simplest first."""
    out = []
    for l in ALPHA12:
        out.append([(l,)])
    two = ALPHA12 if core.TIER == "thorough" else ALPHA6
    for a in two:
        for b in two:
            out.append([(a, b)])
    for t in THREE:
        out.append([t])
    for a in PAIR5:
        for b in PAIR5:
            out.append([(a,), (b,)])
    if core.TIER == "thorough":
        for a in (b"data: a", b"id: 1"):
            for b in (b"data: b", b"event: e", b": c"):
                for c in (b"data: c", b"retry: 7"):
                    out.append([(a, b), (c,)])
                    out.append([(c,), (a, b)])
    return out


def flat_lines(stream):
    lines = []
    for ev in stream:
        lines.extend(ev)
        lines.append(b"")
    return lines


_CACHE = []


def byte_streams():
    if not _CACHE:
        _CACHE.append(_byte_streams())
    return _CACHE[0]


def _byte_streams():
    """Every (logical stream, ending assignment) rendered to bytes, deduplicated by bytes, in
    deterministic order: logical stream order, then uniform LF / CRLF / CR, then mixed assignments
    in product order.  -> list of dict(wire, lines, endings, cls)."""
    seen = set()
    out = []
    for stream in logical_streams():
        lines = flat_lines(stream)
        n = len(lines)
        assigns = [(e,) * n for e in EOLS]
        assigns += [a for a in itertools.product(EOLS, repeat=n) if len(set(a)) > 1]
        for a in assigns:
            wire = b"".join(l + e for l, e in zip(lines, a))
            if wire in seen:
                continue
            seen.add(wire)
            cls = "uniform-" + EOLNAME[a[0]] if len(set(a)) == 1 else "mixed"
            out.append(dict(wire=wire, lines=lines, endings=[EOLNAME[e] for e in a], cls=cls))
    return out


# --------------------------------------------------------------------------- real code

def innermost(ex):
    fn = "?"
    for fr in traceback.extract_tb(ex.__traceback__):
        if "/ioflo/aio/http/" in fr.filename:
            fn = fr.name
    return fn


def execute(pieces, gaps=()):
    """gaps[i] = idle parse() calls (no new bytes) between piece i and piece i+1."""
    from ioflo.aio.http import httping
    es = httping.EventSource(raw=bytearray())
    steps = 0
    try:
        for i, p in enumerate(pieces):
            es.raw.extend(p)
            steps += 1
            es.parse()
            if i < len(gaps):
                for _ in range(gaps[i]):
                    steps += 1
                    es.parse()
        steps += 1
        es.parse()          # one idle poll: nothing new may appear
    except Exception as ex:
        return dict(outcome="raises:%s|%s" % (type(ex).__name__, innermost(ex)), detail=str(ex)[:100]), steps
    ev = [(e["id"], e["name"], e["data"]) for e in es.events]
    return dict(outcome="parsed", events=ev, retry=es.retry, leid=es.leid), steps


def diff(a, b):
    for f in ("outcome", "events", "retry", "leid"):
        if a.get(f) != b.get(f):
            return f
    return None


CHUNK = 40
_IDLE = {}


def idle_schedules(npieces):
    """Idle service passes between receives: quick = at most one gap with one idle parse();
    thorough = 0, 1 or 2 idle passes in every gap, all combinations, for <= 3 receives."""
    if npieces not in _IDLE:
        if core.TIER == "thorough":
            if npieces <= 3:
                _IDLE[npieces] = split.idle_patterns(npieces, counts=(0, 1, 2), max_dev=None)
            else:           # four receives: one gap with one idle pass (budget)
                _IDLE[npieces] = split.idle_patterns(npieces, counts=(0, 1), max_dev=1)
        else:
            _IDLE[npieces] = split.idle_patterns(npieces, counts=(0, 1), max_dev=1)
    return _IDLE[npieces]


def work(arg):
    lo, hi, kmax = arg
    core.use_repo()
    streams = byte_streams()[lo:hi]
    part = core.Part()
    with core.watchdog(900):
        for si, s in enumerate(streams):
            wire = s["wire"]
            k = kmax if len(wire) <= 24 else 3
            ref = reference(wire)
            # generator ground truth: without a CR-ended line directly followed by an LF-ended empty
            # line the byte-level line split must give back the logical lines
            rl, rest = ref_lines(wire)
            amb = any(e == "CR" and s["endings"][i + 1] == "LF" and s["lines"][i + 1] == b""
                      for i, e in enumerate(s["endings"][:-1]))
            if rest or (not amb and rl != s["lines"]):
                raise core.BrokenCheck("reference line splitter disagrees with the generator on %r" % wire)
            whole, steps = execute([wire])
            part.states += 1
            part.transitions += steps
            part.traces += 1
            part.evaluations += 1
            part.outcome("%s:%d-events:%s" % (s["cls"], len(ref["events"]),
                                              "ok" if diff(whole, ref) is None else "whole-differs"))
            d = diff(whole, ref)
            if d is not None:
                part.violation("EventSource|whole-vs-reference|%s" % s["cls"], split.show([wire]),
                               "EventSource parsing the complete stream %s (endings %s): %s = %r, SSE rules give %r"
                               % (split.show([wire]), "/".join(s["endings"]), d, whole.get(d), ref.get(d)),
                               dict(stream=wire, lines=s["lines"], endings=s["endings"], pieces=[wire],
                                    observed=whole, expected=ref))
            for cuts, pieces in split.splits(wire, k):
                if not cuts:
                    continue
                for gaps in idle_schedules(len(pieces)):
                    obs, steps = execute(pieces, gaps)
                    part.states += 1
                    part.transitions += steps
                    part.traces += 1
                    part.evaluations += 1
                    part.nontrivial((wire, cuts, gaps))
                    d = diff(obs, whole)
                    if d is not None:
                        part.notes["split-differs:" + s["cls"] + (":with-idle-passes" if any(gaps) else "")] += 1
                        shown = split.show(pieces, gaps=gaps)
                        part.violation("EventSource|split-vs-whole|%s" % s["cls"], shown,
                                       "EventSource gives a different result when the stream arrives as %s%s: %s = %r, whole parse %r, SSE rules %r"
                                       % (shown, " ('~' = parse() with no new bytes)" if any(gaps) else "", d, obs.get(d), whole.get(d), ref.get(d)),
                                       dict(stream=wire, lines=s["lines"], endings=s["endings"], cuts=list(cuts),
                                            pieces=pieces, idle_passes_between_pieces=list(gaps), observed=obs, whole=whole,
                                            expected=ref))
            if (lo + si) % 997 == 0:
                part.sample(dict(stream=wire, endings=s["endings"], reference=ref, schedules=split.count_splits(len(wire), k)))
    return part


def run():
    ck = core.Check("C33", "model_checking", META["technique"])
    n = len(byte_streams())
    kmax = 4 if core.TIER == "thorough" else 3
    items = [(lo, min(lo + CHUNK, n), kmax) for lo in range(0, n, CHUNK)]
    ck.merge(core.pmap(work, items))
    ck.coverage_extra = dict(byte_streams=n, logical_streams=len(logical_streams()),
                             pieces_bound="3" if core.TIER == "quick" else "3 (4 for streams <= 24 bytes)")
    ck.assumptions = [
        "reference = WHATWG event-stream interpretation (lines end with CRLF, LF or CR; comment lines; field before first colon, one leading "
        "space of the value removed; data lines joined by LF; blank line dispatches and resets name; id persists; retry only if all digits)",
        "an event whose joined data is the empty string is not dispatched (ioflo's documented behaviour; not defined by the statement)",
        "event name '' means 'not given'; last event id None means 'never set'",
        "an idle pass is EventSource.parse() called while no new byte has arrived, as Respondent.parseBody does on every service pass",
        "compared after all bytes were delivered and parsed (plus one idle poll); end-of-stream flushing on close is not part of the property",
    ]
    return ck.finish(
        rule="state = (byte stream, cut positions, idle passes per gap): a service loop resumes the parser whether or not bytes arrived, so between two "
             "receives the parser is resumed 0 or 1 times with no new bytes (<= 1 gap deviates; thorough 0-2 in every gap for <= 3 receives); every ending assignment in {LF,CRLF,CR}^lines of each logical stream (deduplicated by bytes), "
             "every split into <= k receives; transition = one EventSource.parse() call; trace = one fresh-EventSource execution compared with "
             "the reference and the whole parse",
        exhaustive=True)


if __name__ == "__main__":
    core.main(run)
