"""C10 A conditional auxiliary suspends the frames below its main frame.
Engine A: conditional-auxiliary program family x BFS over env-input histories on the real Builder/Skedder;
suspension monitor from the statement + comparison with the reference interpreter."""
META = dict(
    engine="flo", level="model_checking",
    technique="explicit-state BFS over env-input histories of enumerated FloScript programs with conditional auxiliaries on the real Builder/Skedder; suspension invariants + reference interpreter conformance",
    text="Chain f0>f1>f2 plus root f3 with `aux x if e0` at depth 0/1/2, and fork f0>{f1,f2} started in the primary or the non-primary branch; x completing in its first run / after 1 or 2 further runs / never / with a guarded "
         "first frame; one transition on e1 from every chain frame to every frame or itself, placed before or after the aux line; explored through "
         "every reachable (state x env input) so the condition toggles at every tick. Monitors: a running conditional aux runs every tick "
         "regardless of its condition; frames below its main frame get no recur and no transition evaluation; clauses after the aux line are "
         "skipped while earlier ones are evaluated; first activation = entered and run once; completion = fully exited and lower frames recur "
         "in the same tick without enter events; leaving the main frame exits the aux (bracketing monitor). Plus full event / outline "
         "comparison with the reference interpreter.",
    note="Reference interpreter mc/flo/ref.py (DESIGN appendix A).",
)
from mc import core
from mc.flo import runner


def family():
    from mc.flo import families as F
    yield from F.fam_cond_aux()
    yield from F.fam_cond_aux_fork()
    yield from F.fam_cond_aux_three()
    for label, prog, meta in F.fam_restart():
        if "condaux" in label:
            yield label, prog, meta
    for label, prog, meta in F.fam_cond_two_plain():
        if core.TIER != "quick" or label.split("/")[1] in ("repeat1-never", "never-repeat2"):
            yield label, prog, meta
    for label, prog, meta in F.fam_cond_aux_two():
        # quick: two conditional auxes on the SAME frame, one finishing while the other keeps running
        if core.TIER != "quick" or ("dx0-dy0" in label and label.split("/")[1] in ("repeat1-never", "repeat1-repeat1", "never-repeat1")) \
                or ("dx0-dy1" in label and label.split("/")[1] in ("now-never", "now-repeat1")):   # instant-done aux above a running one
            yield label, prog, meta


def on_prog(p, idx, label, prog, meta):
    from mc.flo import monitors
    def brk(prog, rr, envf):
        return monitors.mon_bracket(prog, rr)
    def out(prog, rr, envf):
        return monitors.mon_outline(prog, rr)
    runner.explore_and_check(p, idx, label, prog, mons=(monitors.mon_suspend, brk, out), cmp=runner.cmp_full(fields=(0, 1, 3, 4, 5, 8)),
                             sample_every=97,
                             outcome=lambda rr: "|".join("%s:%s:%d" % (f[0], f[4], len(f[5])) for f in rr.ticks[-1]["framers"]) if rr.ticks else "none")


def run():
    ck = core.Check("C10", "model_checking", META["technique"])
    runner.run_family(ck, family, on_prog)
    ck.assumptions = ["reference interpreter mc/flo/ref.py (DESIGN appendix A)", "precur recorders first (.pr) and last (.pz) in every frame make clause evaluation observable"]
    return ck.finish(rule="program = aux kind x depth of main frame x transition (source, target, position); state = canonical snapshot of "
                          "main framer and aux; transition = one tick with one of 4 env inputs (+ stop tick)", exhaustive=True)


if __name__ == "__main__":
    core.main(run)
