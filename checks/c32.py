"""C32 Malformed HTTP input only affects its own connection.  Fault enumeration: every single-position byte
mutation x mutation kind and every truncation (with and without a following close) of each seed message,
delivered to connection K of a real Valet that also serves two healthy keep-alive connections, and to a
real Patron as the response to its request (socket doubles from mc/net.py)."""
META = dict(
    engine="split", level="fault_enumeration",
    technique="exhaustive single-fault enumeration: every position x {delete, duplicate, replace by 0x00 LF CR ':' ' ' 'g' 0xff} and every truncation (x peer closes or stays open) of each seed request / response, executed against the real Valet (three connections over socket doubles) and the real Patron",
    text="Seeds: 9 valid requests (bodiless, Content-Length, chunked, chunked with trailer, absolute URL with port, HTTP/1.0 keep-alive, JSON with "
         "charset, percent-encoded path, query) and 9 valid responses (fixed length, chunked, chunked with trailer, read-until-close, JSON, 204, "
         "event stream, redirect with Location, HTTP/1.0 keep-alive).  For every byte position every mutation kind (delete, duplicate, replace by "
         "0x00, LF, CR, ':', ' ', 'g', 0xff) and for every proper prefix a truncation (peer then stays silent or closes) is applied; distinct "
         "faulty byte strings are executed once.  Server: a real Valet with an echo WSGI app holds three accepted connections; the middle one "
         "receives the faulty bytes, the outer two send two valid keep-alive requests each; serviceAll is called repeatedly.  Required: "
         "serviceAll never raises, the healthy connections receive exactly their correct responses in both rounds, and the faulty connection "
         "ends up answered, still waiting, or closed and removed.  Client: a real Patron sends a request to a harness-played server that answers "
         "with the faulty bytes; serviceAll must never raise.  Status-line family: {HTTP/1.1, HTTP/1.0} x status codes in and not in httping.STATUS_DESCRIPTIONS "
         "(200 404 204 / 299 418 422 600 999) x reason phrase {present, absent, absent with trailing blank, only blanks, TAB, standard} as the "
         "response to the Patron.  Chunk-size family: a chunked message whose first chunk-size line is a signed or otherwise odd "
         "hex number (-1 -5 -ff +5 -0 '-5;ext=1' 0x5 5_0 huge ...), to Valet, Porter and Patron.  Every execution runs under a watchdog (3 s, a hit "
         "is confirmed once with 15 s): a service call that never returns is the violation 'hangs'.  Content-Length family: a valid message whose Content-Length value is every single-byte mutation of '12' - "
         "delete, duplicate, replace by the C32 bytes and by EVERY byte 0x80-0xFF at each position, high bytes inserted at every position "
         "(0xB2 0xB3 0xB9 decode to superscript digits, 0xBC-0xBE to fractions), signed / grouped / hex / padded forms - delivered to the middle "
         "connection of the Valet and of the Porter and to the Patron; same oracle.  Charset family: a valid JSON message whose Content-Type charset is every single-byte mutation of 'utf-8' "
         "or an unknown / non-text / empty / quoted codec name, for a json content type and for a dictable receiver, delivered to the Patron and "
         "to the middle connection of a three-connection Porter (the two places that call dictify); the service call must never raise and the "
         "Porter's healthy connections must be answered.  Oversize family: every line-like element of every seed (request / status line, "
         "each header line, each chunk-size line via leading zeros, a chunk extension, each trailer line, each event-stream line) is grown to "
         "MAX_LINE_SIZE-1, MAX_LINE_SIZE, MAX_LINE_SIZE+1 and 2*MAX_LINE_SIZE bytes (limits read from httping) and delivered in one receive and "
         "in two receives cut just before the line's end-of-line; the header count is raised to MAX_HEADERS-1, MAX_HEADERS, MAX_HEADERS+1 and "
         "2*MAX_HEADERS; same oracle.",
    note="Single faults only (one mutation or one truncation per message), messages delivered in one receive (arrival schedules are C29's "
         "subject), socket doubles answer naturally (no partial sends).  A faulty message that still parses is served like any request; whether "
         "it should have been rejected is not judged.  A client that waits forever after a truncated response is accepted (no raise).",
)
import os
import sys
import traceback

from mc import core, net, split

SHORT, LONG = 3.0, 15.0       # seconds: one execution normally takes 1-5 ms
_HANG = {}


def run_guarded(execute, *args, **kw):
    """One execution under a watchdog.  -> (outcome, violation) like the executors; a service call
    that never returns becomes the violation '<Target>|hangs|<function it spins in>'."""
    if _HANG.get("count", 0) >= 3:      # this work item keeps hanging: do not spend 3 s on each further input
        return "skipped-after-3-hangs", None
    res, hang = split.guarded(lambda: execute(*args, **kw), SHORT, LONG, _HANG)
    if hang is None:
        return res
    _HANG["count"] = _HANG.get("count", 0) + 1
    target = {"server_exec": "Valet", "porter_exec": "Porter", "client_exec": "Patron"}[execute.__name__]
    return "hangs", ("%s|hangs|%s" % (target, split.stuck_in(hang, "/ioflo/aio/")),
                     "%s.serviceAll never returns (no progress for %.0f s, confirmed with %.0f s): the service loop spins in %s, "
                     "so no connection is served any more" % (target, SHORT, LONG, split.stuck_in(hang, "/ioflo/aio/")))

SERVER_ADDR = ("127.0.0.1", 8080)
FAKE_SERVER = ("127.0.0.1", 8081)
REPL = [0x00, 0x0A, 0x0D, 0x3A, 0x20, 0x67, 0xFF]
if core.TIER == "thorough":     # wider replacement alphabet: TAB % 0 - ; = " 0x80 [ ] / ? @
    REPL += [0x09, 0x25, 0x30, 0x2D, 0x3B, 0x3D, 0x22, 0x80, 0x5B, 0x5D, 0x2F, 0x3F, 0x40]
KINDS = ["del", "dup"] + ["rep%02x" % b for b in REPL] + ["trunc", "trunc+close"]

REQ_SEEDS = [
    ("get", b"GET /k HTTP/1.1\r\nHost: h\r\n\r\n"),
    ("post-len", b"POST /k HTTP/1.1\r\nHost: h\r\nContent-Length: 5\r\n\r\nhello"),
    ("put-chunked", b"PUT /k HTTP/1.1\r\nHost: h\r\nTransfer-Encoding: chunked\r\n\r\n3\r\nabc\r\n0\r\n\r\n"),
    ("post-chunked-trailer", b"POST /k HTTP/1.1\r\nTransfer-Encoding: chunked\r\n\r\n2\r\nhi\r\n0\r\nX-T: v\r\n\r\n"),
    ("get-absolute-url", b"GET http://h:80/k HTTP/1.1\r\nHost: h\r\n\r\n"),
    ("get-http10-keepalive", b"GET /k HTTP/1.0\r\nConnection: keep-alive\r\n\r\n"),
    ("post-json", b"POST /k HTTP/1.1\r\nContent-Type: application/json; charset=utf-8\r\nContent-Length: 2\r\n\r\n{}"),
    ("get-quoted-path", b"GET /k%20x/%C3%A9 HTTP/1.1\r\nHost: h\r\n\r\n"),
    ("get-query", b"GET /k?a=1&b=%20 HTTP/1.1\r\nHost: h\r\n\r\n"),
]

RSP_SEEDS = [
    ("len", b"HTTP/1.1 200 OK\r\nContent-Length: 5\r\n\r\nhello", False),
    ("chunked", b"HTTP/1.1 200 OK\r\nTransfer-Encoding: chunked\r\n\r\n3\r\nabc\r\n0\r\n\r\n", False),
    ("chunked-trailer", b"HTTP/1.1 200 OK\r\nTransfer-Encoding: chunked\r\n\r\n2\r\nhi\r\n0\r\nX-T: v\r\n\r\n", False),
    ("until-close", b"HTTP/1.0 200 OK\r\nServer: s\r\n\r\nbody", True),
    ("json", b"HTTP/1.1 200 OK\r\nContent-Type: application/json\r\nContent-Length: 7\r\n\r\n{\"a\":1}", False),
    ("204", b"HTTP/1.1 204 No Content\r\nServer: s\r\n\r\n", False),
    ("event-stream", b"HTTP/1.1 200 OK\r\nContent-Type: text/event-stream\r\n\r\nid: 1\ndata: \xc3\xa9\n\nretry: 5\n\n", False),
    ("redirect", b"HTTP/1.1 302 Found\r\nLocation: http://127.0.0.1:8081/q?x=1\r\nContent-Length: 0\r\n\r\n", False),
    ("http10-keepalive", b"HTTP/1.0 200 OK\r\nConnection: keep-alive\r\nContent-Length: 2\r\n\r\nok", False),
]


def faults(seed, kind):
    """Yield (description, bytes, close_after) for one mutation kind, positions ascending."""
    n = len(seed)
    if kind == "del":
        for i in range(n):
            yield "del@%d" % i, seed[:i] + seed[i + 1:], False
    elif kind == "dup":
        for i in range(n):
            yield "dup@%d" % i, seed[:i + 1] + seed[i:], False
    elif kind.startswith("rep"):
        b = int(kind[3:], 16)
        for i in range(n):
            if seed[i] != b:
                yield "%s@%d" % (kind, i), seed[:i] + bytes([b]) + seed[i + 1:], False
    elif kind == "trunc":
        for i in range(1, n):
            yield "trunc@%d" % i, seed[:i], False
    elif kind == "trunc+close":
        for i in range(0, n):
            yield "trunc+close@%d" % i, seed[:i], True


def innermost(ex):
    fn = "?"
    for fr in traceback.extract_tb(ex.__traceback__):
        if "/ioflo/aio/" in fr.filename:
            fn = fr.name
    return fn


def exc_sig(ex):
    """Coarse signature: exception family + innermost ioflo function.  ValueError subclasses
    (UnicodeDecodeError ...) count as ValueError; anything raised below Patron.redirect is one group."""
    names = [fr.name for fr in traceback.extract_tb(ex.__traceback__) if "/ioflo/" in fr.filename]
    if "redirect" in names:
        return "in-redirect"
    fam = "ValueError" if isinstance(ex, ValueError) else type(ex).__name__
    return "%s|%s" % (fam, innermost(ex))


# --------------------------------------------------------------------------- server side

def echo_app(environ, start):
    body = ("%s %s %s" % (environ["REQUEST_METHOD"], environ["PATH_INFO"],
                          environ["wsgi.input"].read().decode("latin-1"))).encode("utf-8", "replace")
    start("200 OK", [("Content-Type", "text/plain"), ("Content-Length", str(len(body)))])
    return [body]


def read_responses(sock):
    """All bytes waiting at a raw client socket -> (list of (status, body), leftover, eof)."""
    data = b""
    eof = False
    for _ in range(64):
        try:
            d = sock.recv(65536)
        except OSError:
            break
        if d == b"":
            eof = True
            break
        data += d
    out = []
    while data:
        head, sep, rest = data.partition(b"\r\n\r\n")
        if not sep:
            break
        lines = head.split(b"\r\n")
        length = None
        for ln in lines[1:]:
            k, s, v = ln.partition(b":")
            if k.strip().lower() == b"content-length":
                try:
                    length = int(v.strip())
                except ValueError:
                    pass
        if length is None or len(rest) < length:
            break
        out.append((lines[0], rest[:length]))
        data = rest[length:]
    return out, data, eof


GOOD = [
    [(b"GET /a1 HTTP/1.1\r\nHost: h\r\n\r\n", b"GET /a1 "),
     (b"POST /a2 HTTP/1.1\r\nHost: h\r\nContent-Length: 3\r\n\r\nxyz", b"POST /a2 xyz")],
    [(b"POST /c1 HTTP/1.1\r\nHost: h\r\nContent-Length: 2\r\n\r\nhi", b"POST /c1 hi"),
     (b"GET /c2 HTTP/1.1\r\nHost: h\r\n\r\n", b"GET /c2 ")],
]


def server_exec(FSM, data, close_after):
    """One execution.  -> (outcome string for K, violation or None) ; violation = (group, what)."""
    from ioflo.aio.http import serving
    fn = net.FakeNet()
    FSM.net = fn
    ck = net.clock()
    valet = serving.Valet(app=echo_app, ha=("", SERVER_ADDR[1]), store=ck)
    if not valet.open():
        raise core.BrokenCheck("Valet.open failed on the fake net")
    socks = []
    for name in ("A", "K", "C"):
        s = fn.socket(name=name)
        rc = s.connect_ex(SERVER_ADDR)
        if rc != 0:
            raise core.BrokenCheck("fake connect failed rc=%r" % rc)
        socks.append(s)
    a, k, c = socks
    kca = k.getsockname()
    kresp = []
    keof = False
    for rnd in (0, 1):
        a.send(GOOD[0][rnd][0])
        c.send(GOOD[1][rnd][0])
        if rnd == 0:
            pieces = list(data) if isinstance(data, (list, tuple)) else [data]
            if pieces[0]:
                k.send(pieces[0])
            if close_after:
                k.close()
        for i in range(4):
            if rnd == 0 and i == 2 and len(pieces) > 1:      # second receive two service passes later
                try:
                    k.send(pieces[1])
                except OSError:
                    pass
            try:
                valet.serviceAll()
            except Exception as ex:
                return "raises", ("Valet|raises|%s" % exc_sig(ex),
                                  "Valet.serviceAll raised %r (round %d, call %d)" % (ex, rnd + 1, i + 1))
            ck.advance(0.05)
        for who, sock, good in (("A", a, GOOD[0][rnd]), ("C", c, GOOD[1][rnd])):
            got, left, eof = read_responses(sock)
            if eof or left or len(got) != 1 or not got[0][0].startswith(b"HTTP/1.1 200") or got[0][1] != good[1]:
                return "disturbed", ("Valet|healthy-connection-disturbed|%s-round%d" % (who, rnd + 1),
                                     "healthy connection %s, request %d: expected one 200 response with body %r, got %r leftover %r eof=%s"
                                     % (who, rnd + 1, good[1], got, left[:60], eof))
        if not close_after:
            got, left, eof = read_responses(k)
            kresp += got
            keof = keof or eof
            if left:
                return "garbage", ("Valet|faulty-connection|partial-response",
                                   "connection K received an incomplete response %r" % left[:80])
    # ---- classify K
    inix = kca in valet.servant.ixes
    inreq = kca in valet.reqs
    for ca in list(valet.reqs.keys()) + list(valet.reps.keys()):
        if ca not in valet.servant.ixes:
            return "inconsistent", ("Valet|tables-inconsistent|reqs-or-reps-without-connection",
                                    "Valet keeps a requestant/responder for %r which is not in servant.ixes" % (ca,))
    if close_after:
        if inix or inreq:
            return "stale", ("Valet|faulty-connection|closed-by-peer-not-removed",
                             "peer closed connection K but the Valet still holds it after 8 service calls")
        return "peer-closed-removed", None
    if not inix:
        if inreq:
            return "inconsistent", ("Valet|tables-inconsistent|requestant-without-connection", "K removed from ixes but not from reqs")
        if not keof:
            return "inconsistent", ("Valet|faulty-connection|removed-not-closed", "K removed from the tables but its socket was not closed")
        return ("answered+closed" if kresp else "closed"), None
    rq = valet.reqs.get(kca)
    if rq is None:
        return "inconsistent", ("Valet|tables-inconsistent|connection-without-requestant", "K in ixes without requestant")
    if rq.errored:
        return "zombie", ("Valet|faulty-connection|failed-but-open",
                          "request on K is marked failed (%s) but the connection is still open" % rq.error)
    if kresp:
        return "answered", None
    if rq.parser is None:
        return "zombie", ("Valet|faulty-connection|parsed-never-answered", "request on K parsed but no response was sent")
    return "waiting", None


# --------------------------------------------------------------------------- client side

def client_exec(FSM, data, close_after, dictable=None):
    from ioflo.aio.http import clienting
    fn = net.FakeNet()
    FSM.net = fn
    ck = net.clock()
    lst = fn.listen(FAKE_SERVER, name="srv")
    patron = clienting.Patron(hostname=FAKE_SERVER[0], port=FAKE_SERVER[1], store=ck, method="GET", path="/p",
                              dictable=dictable)
    patron.open()
    patron.request(method="GET", path="/p")
    try:
        patron.serviceAll()
    except Exception as ex:
        raise core.BrokenCheck("Patron.serviceAll raised before any response: %r" % ex)
    conn, addr = lst.accept()
    req = conn.recv(65536)
    if not req.startswith(b"GET /p HTTP/1.1\r\n"):
        raise core.BrokenCheck("fake server did not receive the request: %r" % req)
    pieces = list(data) if isinstance(data, (list, tuple)) else [data]
    if pieces[0]:
        conn.send(pieces[0])
    if close_after:
        conn.close()
    for i in range(5):
        if i == 2 and len(pieces) > 1:
            try:
                conn.send(pieces[1])
            except OSError:
                pass
        try:
            patron.serviceAll()
        except Exception as ex:
            return "raises", ("Patron|raises|%s" % exc_sig(ex), "Patron.serviceAll raised %r (call %d after the response bytes)" % (ex, i + 1))
        ck.advance(0.05)
    if patron.responses:
        r = patron.responses[-1]
        if patron.waited and not patron.redirects:
            return "inconsistent", ("Patron|state|response-recorded-still-waited", "response recorded but .waited still True")
        return ("error-recorded" if r["errored"] else "response-%s" % r["status"]), None
    if patron.events:
        return "events", None
    return "waiting", None


# --------------------------------------------------------------------------- oversize family

def elements(seed, is_request):
    """Line-like elements of a seed -> list of (name, insert_pos, eol_pos, line_len, pad_prefix, pad_byte).
    Growing an element = inserting padding at insert_pos so that the line (bytes before its EOL) gets
    the wanted length: request line (path padded), status line (reason), every header line (value),
    chunk-size line (leading zeros), chunk extension (';x=' + padding), trailer lines (value),
    event-stream lines (value)."""
    out = []
    pos = 0
    first = True
    chunked = evented = False
    while True:
        idx = seed.index(b"\r\n", pos)
        line = seed[pos:idx]
        if not line:
            pos = idx + 2
            break
        if first:
            if is_request:
                out.append(("request-line", seed.index(b" HTTP/", pos), idx, len(line), b"", b"a"))
            else:
                out.append(("status-line", idx, idx, len(line), b"", b"a"))
            first = False
        else:
            name = line.split(b":")[0].decode("latin-1")
            out.append(("header:" + name, idx, idx, len(line), b"", b"a"))
            low = line.lower()
            chunked = chunked or (low.startswith(b"transfer-encoding") and b"chunked" in low)
            evented = evented or b"text/event-stream" in low
        pos = idx + 2
    head_end = pos - 2          # position of the blank line's CRLF
    if chunked:
        n = 0
        while pos < len(seed):
            idx = seed.index(b"\r\n", pos)
            line = seed[pos:idx]
            size = int(line.split(b";")[0], 16)
            tag = "last-chunk" if size == 0 else "chunk%d" % n
            out.append((tag + "-size", pos, idx, len(line), b"", b"0"))
            out.append((tag + "-ext", idx, idx, len(line), b";x=", b"a"))
            pos = idx + 2
            if size == 0:
                while True:
                    idx = seed.index(b"\r\n", pos)
                    line = seed[pos:idx]
                    if not line:
                        break
                    out.append(("trailer:" + line.split(b":")[0].decode("latin-1"), idx, idx, len(line), b"", b"a"))
                    pos = idx + 2
                break
            pos += size + 2
            n += 1
    elif evented:
        n = 0
        while pos < len(seed):
            idx = seed.index(b"\n", pos)
            if idx > pos:
                out.append(("event-line%d" % n, idx, idx, idx - pos, b"", b"a"))
                n += 1
            pos = idx + 1
    return out, head_end


def oversize_cases(seed, is_request, limit, maxheaders):
    """Yield (description, recipe, pieces).  Lengths and counts are named relative to the limits."""
    els, head_end = elements(seed, is_request)
    for name, ins, eol, linelen, prefix, padbyte in els:
        for lname, target in (("limit-1", limit - 1), ("limit", limit), ("limit+1", limit + 1), ("2*limit", 2 * limit)):
            npad = target - linelen
            pad = prefix + padbyte * (npad - len(prefix))
            data = seed[:ins] + pad + seed[ins:]
            neweol = eol + npad
            recipe = dict(element=name, line_length=lname, line_length_bytes=target, insert_at=ins,
                          padding="%r + %r * %d" % (prefix, padbyte, npad - len(prefix)), eol_at=neweol)
            yield "oversize %s len=%s burst" % (name, lname), dict(recipe, delivery="one receive"), [data]
            yield ("oversize %s len=%s cut-before-eol" % (name, lname),
                   dict(recipe, delivery="two receives, cut at %d just before the line's EOL" % neweol),
                   [data[:neweol], data[neweol:]])
    have = sum(1 for e in els if e[0].startswith("header:"))
    for cname, target in (("max-1", maxheaders - 1), ("max", maxheaders), ("max+1", maxheaders + 1), ("2*max", 2 * maxheaders)):
        extra = b"".join(b"X-%d: v\r\n" % i for i in range(target - have))
        data = seed[:head_end] + extra + seed[head_end:]
        yield ("header-count %s burst" % cname,
               dict(element="header count", headers=cname, headers_total=target, insert_at=head_end,
                    padding="'X-<i>: v\\r\\n' for i in range(%d)" % (target - have), delivery="one receive"), [data])


def work_oversize(item):
    side, si = item
    FSM = setup()
    from ioflo.aio.http import httping
    limit, maxheaders = httping.MAX_LINE_SIZE, httping.MAX_HEADERS
    part = core.Part()
    if side == "server":
        label, seed = REQ_SEEDS[si]
        execute, closes = server_exec, False
    else:
        label, seed, closes = RSP_SEEDS[si]
        execute = client_exec
    if True:   # every execution runs under its own watchdog (run_guarded)
        for desc, recipe, pieces in oversize_cases(seed, side == "server", limit, maxheaders):
            out, viol = run_guarded(execute, FSM, pieces, closes)
            part.evaluations += 1
            part.nontrivial(repr((side, label, desc)))
            over = "over" if ("limit+1" in desc or "2*limit" in desc or "max+1" in desc or "2*max" in desc) else "within"
            part.outcome("%s:%s-%s-limit:%s" % (side, "header-count" if desc.startswith("header-count") else "line", over, out))
            if viol is not None:
                group, what = viol
                part.violation(group, "%s %s" % (label, desc),
                               "%s seed %r, fault %s (limits: line %d bytes, %d headers): %s" % (side, label, desc, limit, maxheaders, what),
                               dict(side=side, seed=label, seed_bytes=seed, fault=desc, recipe=recipe,
                                    total_bytes=sum(len(p) for p in pieces), close_after=closes,
                                    limits=dict(MAX_LINE_SIZE=limit, MAX_HEADERS=maxheaders), what=what))
        if si == 2:
            part.sample(dict(side=side, seed=label, fault=desc, recipe=recipe, outcome=out))
    return part


# --------------------------------------------------------------------------- charset family (dictify)

JSON_BODY = b'{"a": "\xc3\xa9", "n": 1}'
PORTER_ADDR = ("127.0.0.1", 8082)
GOOD_JSON = b'POST /g HTTP/1.1\r\nContent-Type: application/json; charset=utf-8\r\nContent-Length: 8\r\n\r\n{"g": 1}'


def charsets():
    """Every single-byte mutation of 'utf-8' (the C32 mutation kinds) plus unknown / non-text /
    empty / quoted codec names.  Ordered, deduplicated, latin-1 bytes."""
    base = b"utf-8"
    out = []
    for kind in KINDS:
        if kind.startswith("trunc"):
            continue
        for desc, data, close_after in faults(base, kind):
            out.append(("utf-8 " + desc, data))
    for name in (b"", b"utf-9", b"x", b"unknown-charset", b"hex", b"base64", b"zlib", b"rot13", b"undefined", b"idna",
                 b"punycode", b"unicode_escape", b'"utf-8"', b'"utf-9"', b"utf-8 ", b" utf-8", b"utf-8;q=1", b"utf-16", b"utf-32",
                 b"ascii", b"cp037", b"u" * 300):
        out.append(("name %s" % (name[:20].decode("latin-1") + ("..." if len(name) > 20 else "")), name))
    seen, res = set(), []
    for d, v in out:
        if v not in seen and v != base:
            seen.add(v)
            res.append((d, v))
    return res


def porter_exec(FSM, data, dictable):
    """Server side where dictify runs: a real Porter (echo Stewards) with three connections."""
    from ioflo.aio.http import serving
    fn = net.FakeNet()
    FSM.net = fn
    ck = net.clock()
    porter = serving.Porter(store=ck, ha=("", PORTER_ADDR[1]), dictable=dictable)
    if not porter.servant.reopen():
        raise core.BrokenCheck("Porter servant failed to open on the fake net")
    socks = []
    for name in ("A", "K", "C"):
        s = fn.socket(name=name)
        if s.connect_ex(PORTER_ADDR) != 0:
            raise core.BrokenCheck("fake connect to Porter failed")
        socks.append(s)
    a, k, c = socks
    kgot = []
    for rnd in (0, 1):
        a.send(GOOD_JSON)
        c.send(GOOD_JSON)
        if rnd == 0:
            k.send(data)
        for i in range(4):
            try:
                porter.serviceAll()
            except Exception as ex:
                return "raises", ("Porter|raises|%s" % exc_sig(ex), "Porter.serviceAll raised %r (round %d, call %d)" % (ex, rnd + 1, i + 1))
            ck.advance(0.05)
        for who, sock in (("A", a), ("C", c)):
            got, left, eof = read_responses(sock)
            if eof or left or len(got) != 1 or not got[0][0].startswith(b"HTTP/1.1 200") or b'"data":{"g":1}' not in got[0][1]:
                return "disturbed", ("Porter|healthy-connection-disturbed|%s-round%d" % (who, rnd + 1),
                                     "healthy connection %s, request %d: expected one 200 echo, got %r leftover %r eof=%s"
                                     % (who, rnd + 1, got, left[:60], eof))
        got, left, eof = read_responses(k)
        kgot += got
    if kgot:
        return ("answered-data-null" if b'"data":null' in kgot[0][1] else "answered-data-decoded"), None
    return ("closed" if eof else "waiting"), None


def work_charset(item):
    side, variant = item
    FSM = setup()
    part = core.Part()
    ctype = b"application/json" if variant == "json" else b"text/plain"
    dictable = None if variant == "json" else True
    if True:   # every execution runs under its own watchdog (run_guarded)
        for desc, cs in charsets():
            head = b"Content-Type: " + ctype + b"; charset=" + cs + b"\r\nContent-Length: " + str(len(JSON_BODY)).encode() + b"\r\n\r\n"
            if side == "client":
                data = b"HTTP/1.1 200 OK\r\n" + head + JSON_BODY
                out, viol = run_guarded(client_exec, FSM, data, False, dictable=dictable)
            else:
                data = b"POST /k HTTP/1.1\r\n" + head + JSON_BODY
                out, viol = run_guarded(porter_exec, FSM, data, dictable)
            fault = "charset=%s (%s, %s)" % (desc, "json content type" if variant == "json" else "dictable, text/plain", side)
            part.evaluations += 1
            part.nontrivial(repr((side, variant, cs)))
            part.outcome("%s:charset:%s" % (side, out))
            if viol is not None:
                group, what = viol
                part.violation(group, fault, "%s receives %r: %s" % ("Patron" if side == "client" else "Porter connection K", data, what),
                               dict(side=side, family="charset", variant=variant, charset=cs, bytes=data, what=what))
        part.sample(dict(side=side, family="charset", variant=variant, charset=cs, bytes=data, outcome=out))
    return part


# --------------------------------------------------------------------------- Content-Length family

CL_BODY = b"hello world!"          # 12 bytes: a two-digit length
HIGH_SPECIAL = [0xB2, 0xB3, 0xB9, 0xBC, 0xBD, 0xBE, 0x80, 0xA0, 0xFF]   # isdigit()/isnumeric() disagree with ASCII for the first six


def content_lengths():
    """Single-byte mutations of the valid value b'12': delete, duplicate, replace by the C32 bytes and by
    EVERY high byte 0x80-0xFF at each position, insertion of a high byte at every position.  Header
    values are decoded as iso-8859-1, so 0xB2 0xB3 0xB9 become superscript digits (str.isdigit() true,
    int() fails) and 0xBC-0xBE vulgar fractions (isnumeric() true)."""
    base = b"%d" % len(CL_BODY)
    out = []
    for i in range(len(base)):
        out.append(("del@%d" % i, base[:i] + base[i + 1:]))
        out.append(("dup@%d" % i, base[:i + 1] + base[i:]))
        for b in REPL + list(range(0x80, 0x100)):
            out.append(("rep%02x@%d" % (b, i), base[:i] + bytes([b]) + base[i + 1:]))
    for i in range(len(base) + 1):
        for b in HIGH_SPECIAL:
            out.append(("ins%02x@%d" % (b, i), base[:i] + bytes([b]) + base[i:]))
    for name in (b"", b"+12", b"-12", b"1_2", b"0x0c", b"12.0", b"1e1", b" 12 ", b"12, 12"):
        out.append(("value %r" % name.decode("latin-1"), name))
    seen, res = set(), []
    for d, v in out:
        if v not in seen and v != base:
            seen.add(v)
            res.append((d, v))
    return res


def work_contentlength(item):
    target = item[0]
    FSM = setup()
    part = core.Part()
    if True:   # every execution runs under its own watchdog (run_guarded)
        for desc, val in content_lengths():
            if target == "client":
                data = b"HTTP/1.1 200 OK\r\nContent-Type: text/plain\r\nContent-Length: " + val + b"\r\n\r\n" + CL_BODY
                out, viol = run_guarded(client_exec, FSM, data, False)
            else:
                data = b"POST /k HTTP/1.1\r\nHost: h\r\nContent-Length: " + val + b"\r\n\r\n" + CL_BODY
                out, viol = run_guarded(server_exec, FSM, data, False) if target == "valet" else run_guarded(porter_exec, FSM, data, None)
            fault = "Content-Length %s (%s)" % (desc, target)
            part.evaluations += 1
            part.nontrivial(repr((target, "content-length", val)))
            part.outcome("%s:content-length:%s" % (target, out))
            if viol is not None:
                group, what = viol
                part.violation(group, fault, "%s receives %r: %s" % (target, data, what),
                               dict(side=target, family="content-length", value=val, bytes=data, what=what))
        part.sample(dict(side=target, family="content-length", value=val, bytes=data, outcome=out))
    return part


# --------------------------------------------------------------------------- signed / odd chunk sizes

CHUNK_SIZES = [b"-1", b"-5", b"-ff", b"+5", b"-0", b"+0", b"-5;ext=1", b" -5", b"- 5", b"--5", b"0x5", b"5_0", b"-",
               b"+", b"ffffffffffffffff", b"-ffffffffffffffff", b"5 5", b"\xb25"]
# very long hex numbers (still far below MAX_LINE_SIZE): int(text, 16) has no digit limit, but turning the
# result into a decimal string fails beyond 4300 digits (~3572 hex digits) in Python >= 3.11
CHUNK_SIZES += [b"f" * n for n in (20, 3000, 3600, 4000, 10000)] + [b"1" + b"0" * 3999]


def work_chunksize(item):
    target = item[0]
    FSM = setup()
    part = core.Part()
    for val in CHUNK_SIZES:
        tail = b"Transfer-Encoding: chunked\r\n\r\n" + val + b"\r\nhello\r\n0\r\n\r\n"
        if target == "client":
            data = b"HTTP/1.1 200 OK\r\nContent-Type: text/plain\r\n" + tail
            out, viol = run_guarded(client_exec, FSM, data, False)
        else:
            data = b"POST /k HTTP/1.1\r\nHost: h\r\n" + tail
            out, viol = run_guarded(server_exec, FSM, data, False) if target == "valet" else run_guarded(porter_exec, FSM, data, None)
        shown = val.decode("latin-1")
        if len(shown) > 24:
            shown = "%s... (%d hex digits)" % (shown[:4], len(shown))
        fault = "chunk-size %r (%s)" % (shown, target)
        part.evaluations += 1
        part.nontrivial(repr((target, "chunk-size", val)))
        part.outcome("%s:chunk-size:%s" % (target, out))
        if viol is not None:
            group, what = viol
            part.violation(group, fault, "%s receives a chunked message whose first chunk-size line is %s: %s" % (target, shown, what[:300]),
                           dict(side=target, family="chunk-size", value_length=len(val), value=val if len(val) < 64 else val[:8] + b"...",
                                message_prefix=data[:120], what=what[:300]))
    part.sample(dict(side=target, family="chunk-size", value=val, bytes=data, outcome=out))
    return part


# --------------------------------------------------------------------------- status-line family

STATUS_CODES = [200, 404, 204, 299, 418, 422, 600, 999]          # in and not in httping.STATUS_DESCRIPTIONS
STATUS_REASONS = [("reason", b" Some Reason"), ("no-reason", b""), ("no-reason-trailing-space", b" "), ("blank-reason", b"    "),
                  ("tab-reason", b"\t"), ("standard-reason", None)]


def work_statusline(item):
    FSM = setup()
    from ioflo.aio.http import httping
    part = core.Part()
    for version in (b"HTTP/1.1", b"HTTP/1.0"):
        for code in STATUS_CODES:
            for rname, reason in STATUS_REASONS:
                if reason is None:
                    if code not in httping.STATUS_DESCRIPTIONS:
                        continue
                    reason = b" " + httping.STATUS_DESCRIPTIONS[code].encode("ascii")
                known = "known" if code in httping.STATUS_DESCRIPTIONS else "unknown"
                body = b"" if code == 204 else b"hello"
                data = version + b" %d" % code + reason + b"\r\nContent-Type: text/plain\r\nContent-Length: %d\r\n\r\n" % len(body) + body
                out, viol = run_guarded(client_exec, FSM, data, False)
                fault = "status line %s %d (%s code) %s" % (version.decode(), code, known, rname)
                part.evaluations += 1
                part.nontrivial(repr(("status-line", data)))
                part.outcome("client:status-line:%s-code:%s:%s" % (known, rname, out))
                if viol is not None:
                    group, what = viol
                    part.violation(group, fault, "Patron receives %r: %s" % (data, what),
                                   dict(side="client", family="status-line", bytes=data, what=what))
    part.sample(dict(side="client", family="status-line", bytes=data, outcome=out))
    return part


# --------------------------------------------------------------------------- driver

_FSM = []


class _Dns(object):
    """Stands in for the socket module inside ioflo.aio.aioing: deterministic getaddrinfo that
    resolves IP literals only (no real resolver, no network, no wall-clock dependence)."""

    def __getattr__(self, name):
        import socket
        return getattr(socket, name)

    def getaddrinfo(self, host, port, family=0, type=0, proto=0, flags=0):
        import socket
        if not isinstance(host, str):
            raise TypeError("getaddrinfo() argument 1 must be string or None")
        host.encode("idna")     # real getaddrinfo does this first (UnicodeError on bad labels)
        parts = host.split(".")
        if family in (0, socket.AF_INET) and len(parts) == 4 and all(p.isdigit() and int(p) < 256 for p in parts):
            return [(socket.AF_INET, type or socket.SOCK_DGRAM, 17, "", (host, port or 0))]
        if family in (0, socket.AF_INET6) and ":" in host:
            try:
                socket.inet_pton(socket.AF_INET6, host)
            except (OSError, ValueError):
                pass
            else:
                return [(socket.AF_INET6, type or socket.SOCK_DGRAM, 17, "", (host, port or 0, 0, 0))]
        raise socket.gaierror(socket.EAI_NONAME, "Name or service not known")


class _QuietSys(object):
    """Stands in for the sys module inside ioflo.aio.http.serving: same attributes, silent stderr."""
    stderr = open(os.devnull, "w")

    def __getattr__(self, name):
        return getattr(sys, name)


def setup():
    if not _FSM:
        core.use_repo()
        _FSM.append(net.FakeSocketModule().install())
        from ioflo.aio.http import serving
        serving.sys = _QuietSys()               # Valet writes parse errors to sys.stderr
        from ioflo.aio import aioing
        aioing.socket = _Dns()                  # Location mutations must not reach a real resolver
    return _FSM[0]


def work(item):
    if item[0].endswith("-oversize"):
        return work_oversize((item[0].split("-")[0], item[1]))
    if item[0].endswith("-statusline"):
        return work_statusline(item)
    if item[0].endswith("-chunksize"):
        return work_chunksize((item[0].split("-")[0],))
    if item[0].endswith("-contentlength"):
        return work_contentlength((item[0].split("-")[0],))
    if item[0].endswith("-charset"):
        return work_charset((item[0].split("-")[0], item[1]))
    side, si, kind = item
    FSM = setup()
    part = core.Part()
    if side == "server":
        label, seed = REQ_SEEDS[si]
        execute, closes = server_exec, False
    else:
        label, seed, closes = RSP_SEEDS[si]
        execute = client_exec
    seen = set()
    if True:   # every execution runs under its own watchdog (run_guarded)
        if kind == KINDS[0]:
            # non-vacuity: the unmutated seed must be served / accepted
            out, viol = run_guarded(execute, FSM, seed, closes)
            part.evaluations += 1
            part.outcome("%s:seed:%s" % (side, out))
            if viol is not None or out not in ("answered", "answered+closed", "response-200", "response-204", "events", "response-302",
                                               "waiting", "error-recorded"):
                raise core.BrokenCheck("unmutated seed %s/%s is not handled: %s %r" % (side, label, out, viol))
            if side == "server" and not out.startswith("answered"):
                raise core.BrokenCheck("unmutated seed request %s not answered: %s" % (label, out))
        for desc, data, close_after in faults(seed, kind):
            close_after = close_after or (closes and kind != "trunc")
            key = (data, close_after)
            if data == seed and not kind.startswith("trunc") or key in seen:
                continue
            seen.add(key)
            out, viol = run_guarded(execute, FSM, data, close_after)
            part.evaluations += 1
            part.nontrivial(repr((side, label, data, close_after)))
            part.outcome("%s:%s:%s" % (side, kind if kind.startswith("trunc") else "mutation", out))
            if viol is not None:
                group, what = viol
                part.violation(group, "%s %s" % (label, desc),
                               "%s seed %r, fault %s -> bytes %r%s: %s" % (side, label, desc, data, " then peer closes" if close_after else "", what),
                               dict(side=side, seed=label, seed_bytes=seed, fault=desc, bytes=data, close_after=close_after,
                                    healthy_requests=[g[0] for g in GOOD[0]] + [g[0] for g in GOOD[1]] if side == "server" else None,
                                    what=what))
        if kind == "rep3a" and si == 0:
            part.sample(dict(side=side, seed=label, fault=desc, bytes=data, outcome=out))
    return part


def run():
    ck = core.Check("C32", "fault_enumeration", META["technique"])
    items = [("server", i, k) for i in range(len(REQ_SEEDS)) for k in KINDS]
    items += [("client", i, k) for i in range(len(RSP_SEEDS)) for k in KINDS]
    # oversize payloads are 64-128 KiB each: dispatch them first, merge them last
    over = [("server-oversize", i, None) for i in range(len(REQ_SEEDS))] + [("client-oversize", i, None) for i in range(len(RSP_SEEDS))]
    items += [(t + "-contentlength", 0, None) for t in ("valet", "porter", "client")]
    items += [(t + "-chunksize", 0, None) for t in ("valet", "porter", "client")]
    items += [("client-statusline", 0, None)]
    items += [(side + "-charset", variant, None) for side in ("client", "server") for variant in ("json", "dictable")]
    res = core.pmap(work, over + items)
    ck.merge(res[len(over):] + res[:len(over)])
    ck.coverage_extra = dict(request_seeds=len(REQ_SEEDS), response_seeds=len(RSP_SEEDS), fault_kinds=KINDS,
                             positions="every byte position of every seed")
    ck.assumptions = [
        "socket doubles (mc/net.py) answer naturally: sends are accepted whole, receives return everything waiting, close gives the peer EOF",
        "'yields a request' is observed as a complete response on the faulty connection, 'waits' as the connection still held with a live parser "
        "and nothing sent, 'closes' as the connection removed from Valet.servant.ixes/.reqs/.reps and EOF at the peer",
        "the two healthy connections send two keep-alive requests each (one before and one after the fault was processed) and must get "
        "exactly one correct 200 response per request",
        "client side: only 'Patron.serviceAll never raises' is required; a recorded response (errored or not), dispatched events or continued "
        "waiting are all accepted",
        "name resolution is a double: IP literals resolve to themselves, every other host name raises socket.gaierror(EAI_NONAME)",
        "oversize cases: padding is 'a' in a value ('0' in front of a chunk size, ';x=aaa' as chunk extension); the second receive of a two-piece "
        "delivery arrives two service passes after the first; a line of exactly MAX_LINE_SIZE bytes may be served or rejected, only the oracle above is judged",
        "charset family: whether the body is decoded, left undecoded (data None) or the message rejected is not judged; only 'the service call "
        "never raises' and 'the Porter's other connections get their echo' are",
        "a service call that does not return within 3 s of wall time, and again not within 15 s when the same execution is repeated, is a hang "
        "(one execution normally takes milliseconds); wall time is used only for this liveness verdict",
        "the store clock advances 0.05 s per service call, far below the 5 s connection timeout, so no time-out closes interfere",
    ]
    return ck.finish(
        rule="(plus the oversize family: line-like element x 4 lengths around MAX_LINE_SIZE x 2 deliveries, header count x 4 values around MAX_HEADERS) "
             "every distinct faulty byte string obtained from one seed by one fault: position x {delete, duplicate, replace by 00 0a 0d 3a 20 67 ff}, "
             "every proper prefix (peer silent) and every prefix followed by peer close; each is one execution on fresh Valet / Patron objects",
        exhaustive=True)


if __name__ == "__main__":
    core.main(run)
