"""C28 idle timeouts drop only idle connections.  Engine C (net doubles): real Valet / Porter servers (plain and TLS)
over socket doubles with a manual store clock; stateless deviation-bounded DFS over the schedule (client sends the
next request fragment, nothing happens, the clock advances 0.4T / 0.6T / T) with a reference idle clock per connection."""
META = dict(
    engine="net", level="model_checking",
    technique="stateless deviation-bounded DFS (core.dfs) over environment schedules - per step: the client sends its next "
              "request fragment / nothing / the store clock advances by 0.4T, 0.6T or T, then one serviceAll - of real Valet "
              "(WSGI) and Porter servers over plain and TLS socket doubles; reference model = last time a byte moved on each "
              "connection and whether a persistent request head has reached the server",
    text="Servers: Valet with a WSGI app {fixed: immediate Content-Length response; stream: generator of 4 pieces, one written per "
         "service call; echo: POST body echoed} and Porter (its built-in echo responder), each over plain and TLS doubles, idle "
         "timeout T = 10 s. Three connections are accepted in the first service call, in the order N, K, M: N and M never send anything (an idle "
         "connection accepted before and one accepted after the active one); K sends a request in fragments "
         "(request line split, head completed only by a later fragment, body split) - request variants HTTP/1.1 keep-alive, "
         "HTTP/1.1 'Connection: close', HTTP/1.0, HTTP/1.0 'Connection: keep-alive'; persistent variants send a second request "
         "afterwards; variant 'ka11+close' sends a keep-alive request and then a 'Connection: close' request whose response is "
         "not written in the pass that parses its head (app /defer yields an empty piece first; POST /echo whose body arrives a "
         "pass after its head), so that a connection which was persistent for longer than T becomes non-persistent again (one deviation less). Before each of H service calls (H = 10 quick / 12 thorough) the environment chooses: K sends its next "
         "fragment (default while fragments remain) / nothing / clock +0.4T / +0.6T / +T; every non-default choice is one "
         "deviation; all schedules with <= 4 deviations (quick) / <= 5 (thorough). In 8 further slow-reader "
         "configurations (Valet, non-persistent variants only) K reads slowly: every send of the server to K is accepted only "
         "in part (half of the bytes offered), so each service pass ends in a partial send and the response takes longer than T while "
         "bytes keep moving (<= 3 / <= 4 deviations). In 6 further fine-grid "
         "configurations (HTTP/1.1 'Connection: close'; Valet fixed / stream, Porter) the clock choices are +tick (0.125 s), "
         "+T-tick and +T instead, so that bursts of activity one tick apart are followed by a silence just short of T measured "
         "from the last byte (<= 3 / <= 4 deviations). In 6 further small-buffer configurations the server's receive buffer is 8 "
         "bytes and the 'Connection: close' request arrives in pieces of 8, 16 and a further multiple of 8 bytes (control: 7, 9, "
         "rest), so every burst fills the buffer exactly (<= 3 / <= 4 deviations). An execution ends early once K was removed, "
         "or once K is persistent and quiescent (then the clock is advanced 3T and the server serviced twice more). "
         "Observed: every closeConnection the server performs from its serviceConnects timeout sweep on a connection that was "
         "not cut off (= closed for idleness). Required: such a close happens only if no byte was sent or received on that "
         "connection for >= T (idle clock starts at accept), never after the complete head of a persistent request had been "
         "received in an earlier service call; serviceAll never raises.",
    note="Only the 'only if' direction of the statement is judged (an idle connection that is kept is not a violation; drops "
         "that do happen are counted in the outcomes). Outside the slow-reader configurations sends are accepted whole; blocked sends, "
         "connection loss and handshake faults are C24-C26. Time advances only between service calls, in multiples of 0.2T, resp. of 0.125 s in the "
         "fine-grid configurations (all exact in floats); the comparison 'idle < T' is exact.",
)
import sys

from mc import core, net, httpharness as hh

PORT = 8080
T = 10.0
ADV = (("+0.4T", 4.0), ("+0.6T", 6.0), ("+T", 10.0))
TICK = 0.125
FINE_ADV = (("+tick", TICK), ("+T-tick", T - TICK), ("+T", 10.0))     # "fine" configurations: bursts one tick apart
TIERS = dict(quick=dict(H=10, bound=4), thorough=dict(H=12, bound=5))
VARIANTS = ("ka11", "close11", "http10", "ka10")
PERSISTENT = ("ka11", "ka10")
ENDING = "ka11+close"        # a keep-alive request, then a 'Connection: close' request on the same connection
DATE = "Thu, 01 Jan 2026 00:00:00 GMT"


def app(environ, start):
    path = environ["PATH_INFO"]
    if path == "/stream":
        start("200 OK", [("Content-Type", "text/plain"), ("Date", DATE)])

        def gen():
            for i in range(4):
                yield b"piece%d;" % i
        return gen()
    if path == "/defer":
        start("200 OK", [("Content-Type", "text/plain"), ("Date", DATE)])

        def later():
            yield b""           # not ready in the pass that parsed the request: nothing is written
            yield b"deferred"
        return later()
    if path == "/echo":
        body = environ["wsgi.input"].read()
        start("200 OK", [("Content-Type", "text/plain"), ("Date", DATE), ("Content-Length", str(len(body)))])
        return [body]
    start("200 OK", [("Content-Type", "text/plain"), ("Date", DATE), ("Content-Length", "5")])
    return [b"fixed"]


def fragments(variant, kind):
    """-> (list of fragments, number of bytes after which the head of the first request is complete,
    number of bytes after which the head of a persistence-ending second request is complete or None)"""
    if variant == ENDING:
        first = "echo" if kind == "echo" else "fixed"
        frs, n, _ = fragments("ka11", first)
        frs = frs[:4 if first == "echo" else 3]
        total = sum(len(f) for f in frs)
        if kind == "echo":
            head2 = b"POST /echo HTTP/1.1\r\nHost: h\r\nConnection: close\r\nContent-Length: 4\r\n\r\n"
            frs += [head2[:10], head2[10:], b"ab", b"cd"]       # head complete one pass before the body
        else:
            head2 = ("GET /%s HTTP/1.1\r\nHost: h\r\nConnection: close\r\n\r\n" % kind).encode()
            frs += [head2[:10], head2[10:]]
        return frs, n, total + len(head2)
    version = "HTTP/1.0" if variant in ("http10", "ka10") else "HTTP/1.1"
    extra = {"close11": "Connection: close\r\n", "ka10": "Connection: keep-alive\r\n"}.get(variant, "")
    if kind == "echo":
        head = "POST /echo %s\r\nHost: h\r\n%sContent-Length: 4\r\n\r\n" % (version, extra)
        body = b"abcd"
    else:
        head = "GET /%s %s\r\nHost: h\r\n%s\r\n" % (kind, version, extra)
        body = b""
    head = head.encode()
    n = len(head)
    if body:
        frs = [head[:6], head[6:n - 2], head[n - 2:] + body[:2], body[2:]]
    else:
        frs = [head[:6], head[6:n - 2], head[n - 2:]]
    if variant in PERSISTENT:
        r = head + body
        frs += [r[:10], r[10:]]
    return frs, n, None


BS = 8          # server receive buffer size in the "bs" / "bsc" configurations


def aligned_fragments(frs, control):
    """Re-cut the request so that every piece is an exact multiple of the server's receive buffer size BS
    (8, 16, rest; the request is padded with a header to a multiple of BS) - or, as a control, BS-1, BS+1, rest."""
    data = b"".join(frs)
    head, sep, body = data.partition(b"\r\n\r\n")
    pad = (-(len(data) + len(b"X-Pad: \r\n"))) % BS
    head += b"\r\nX-Pad: " + b"p" * pad
    data = head + sep + body
    cuts = (BS - 1, 2 * BS) if control else (BS, 3 * BS)
    return [data[:cuts[0]], data[cuts[0]:cuts[1]], data[cuts[1]:]], len(head) + 4


def build(server, scheme, fn, ck, mode=False):
    from ioflo.aio.http import serving
    kw = dict(context=net.FakeSslContext(fn)) if scheme == "https" else {}
    if mode in ("bs", "bsc"):
        kw["bufsize"] = BS
    if server == "Valet":
        srv = serving.Valet(app=app, ha=("", PORT), store=ck, timeout=T, scheme=scheme, **kw)
        ok = srv.open()
    else:
        srv = serving.Porter(ha=("", PORT), store=ck, timeout=T, scheme=scheme, **kw)
        ok = srv.servant.reopen()
    if not ok:
        raise core.BrokenCheck("server did not open on the fake net")
    return srv


class SlowReaderPolicy:
    """ChooserPolicy, except that every send of the sockets in `.slow` (server side of a connection whose
    client reads slowly) accepts only half of the bytes offered (at least one): each service pass of the
    server ends in a partial send, bytes still move on the wire.  Not a choice point."""

    def __init__(self, chooser):
        self.inner = net.ChooserPolicy(chooser)
        self.slow = set()

    def decide(self, sock, op, cands):
        if op == "send" and sock.ident in self.slow and cands[0][0] == "n":
            n = cands[0][1]
            a = ("n", max(1, n // 2))
            return cands.index(a) if a in cands else 0
        return self.inner.decide(sock, op, cands)


class Conn:
    def __init__(self, name, sock):
        self.name = name
        self.sock = sock
        self.ca = sock.getsockname()
        self.last = None         # clock of the last service call in which bytes moved (or of the accept)
        self.moved = (0, 0)
        self.persisted_at = None
        self.ended = False       # a later request ended the persistence
        self.removed = False


def execute(ch, server, scheme, variant, kind, slow, H, part, states):
    # slow: False | True (slow reader) | "fine" (clock choices +tick / +T-tick / +T instead of +0.4T / +0.6T / +T)
    adv = FINE_ADV if slow == "fine" else ADV
    """One execution -> (list of (kind, what), schedule tokens)"""
    FSM = hh.setup()
    policy = SlowReaderPolicy(ch)
    fn = net.FakeNet(policy=policy)
    FSM.net = fn
    ck = net.clock()
    srv = build(server, scheme, fn, ck, slow)
    frs, headlen, endlen = fragments(variant, kind)
    if slow in ("bs", "bsc"):
        frs, headlen = aligned_fragments(frs, slow == "bsc")
    conns = []
    for name in ("N", "K", "M"):       # accept order: an idle connection before and one after the active one
        s = fn.socket(name=name)
        if s.connect_ex(("127.0.0.1", PORT)) != 0:
            raise core.BrokenCheck("fake connect failed")
        conns.append(Conn(name, s))
    neighbour, k, latest = conns
    if slow is True:         # K reads slowly: the server's sends to K are accepted in part only
        k.sock.peer.menu = net.Menu(send_partial=True)
        policy.slow.add(k.sock.peer.ident)
    closes = []          # (ca, caller, cutoff, clock)
    orig_close = srv.closeConnection

    def closing(ca):
        ix = srv.servant.ixes.get(ca)
        closes.append((ca, sys._getframe(1).f_code.co_name, bool(ix.cutoff) if ix is not None else None, ck.stamp))
        return orig_close(ca)
    srv.closeConnection = closing

    sched = []
    viol = []

    def service(tag):
        mark = len(closes)
        try:
            srv.serviceAll()
        except Exception as ex:
            sched.append(tag + "!")
            viol.append(("raised|%s" % hh.exc_sig(ex), "%s.serviceAll raised %r at service call %d" % (server, ex, len(sched))))
            return False
        part.transitions += 1
        now = ck.stamp
        for c in conns:
            if c.removed:
                continue
            peer = c.sock.peer
            if peer is None:
                continue
            if c.last is None:
                c.last = now          # accepted in this call: the idle period starts here
            for ca, caller, cutoff, when in closes[mark:]:
                if ca != c.ca:
                    continue
                c.removed = True
                if caller == "serviceConnects" and not cutoff:
                    idle = now - c.last
                    part.outcome("%s %s: closed for idleness" % (server, scheme))
                    if c.persisted_at is not None:
                        viol.append(("persistent-dropped",
                                     "connection %s was closed by the idle sweep at t=%g although the head of a persistent "
                                     "(%s) request had been received at t=%g" % (c.name, now, variant, c.persisted_at)))
                    elif idle < T:
                        viol.append(("early-idle-drop",
                                     "connection %s was closed by the idle sweep at t=%g but bytes last moved on it at t=%g "
                                     "(%g s < timeout %g s)" % (c.name, now, c.last, idle, T)))
                else:
                    part.outcome("%s %s: closed by %s" % (server, scheme, caller))
            if c.removed:
                continue
            m = (len(peer.sent), len(peer.recvd))
            if m != c.moved:
                c.moved = m
                c.last = now
            if c is k and c.persisted_at is None and not c.ended and (variant in PERSISTENT or variant == ENDING) \
                    and m[1] >= headlen:
                c.persisted_at = now
            if c is k and endlen is not None and not c.ended and m[1] >= endlen:
                c.ended = True            # head of the 'Connection: close' request received: persistence is over,
                c.persisted_at = None     # from the next pass on the plain idle rule applies again
        ix = srv.servant.ixes.get(k.ca)
        st = (server, scheme, variant, kind, slow, len(sched), k.removed, neighbour.removed, latest.removed, k.persisted_at is not None,
              None if ix is None else (round(ix.timer.remaining, 3), ix.timeout, len(ix.txes), len(ix.rxbs)))
        states.add(hash(st))
        return not viol

    sent = 0
    for step in range(H):
        opts = []
        if sent < len(frs):
            opts.append("send")
        opts.append("idle")
        opts += [a[0] for a in adv]
        c = ch.choose(len(opts), "env", 0, 1)
        tag = opts[c]
        if tag == "send":
            k.sock.send(frs[sent])
            sent += 1
        elif tag != "idle":
            ck.advance(dict(adv)[tag])
        sched.append(tag)
        if not service(tag):
            break
        if k.removed:
            break
        if k.persisted_at is not None and sent == len(frs):
            ix = srv.servant.ixes.get(k.ca)
            rep = getattr(srv, "reps", {}).get(k.ca)
            if ix is not None and not ix.txes and (rep is None or rep.ended):
                ck.advance(3 * T)
                sched.append("+3T")
                if service("+3T"):
                    sched.append("idle")
                    service("idle")
                if not viol and k.removed:
                    raise core.BrokenCheck("K removed without an observed close")
                if not viol:
                    part.outcome("%s %s: persistent connection kept after 3T idle" % (server, scheme))
                break
    return viol, sched


def work(cfg):
    idx, server, scheme, variant, kind, slow = cfg
    hh.setup()
    tier = TIERS[core.TIER]
    bound = tier["bound"] - 1 if (slow or variant == ENDING) else tier["bound"]
    p = core.Part()
    states = set()
    best = {}

    def run(ch):
        with core.watchdog(30):
            viol, sched = execute(ch, server, scheme, variant, kind, slow, tier["H"], p, states)
        p.traces += 1
        p.evaluations += 1
        for kindv, what in viol:
            group = "%s-%s|%s" % (server, "tls" if scheme == "https" else "plain", kindv)
            rank = (ch.deviations(), len(sched), idx, tuple(ch.choices))
            if group not in best or rank < best[group][0]:
                best[group] = (rank, (
                    group,
                    "%s /%s%s schedule=%s" % (variant, kind, " fine-ticks" if slow == "fine" else " bufsize-aligned" if slow == "bs" else " bufsize-unaligned" if slow == "bsc"
                                              else " slow-reader" if slow else "", ",".join(sched)),
                    "%s over %s, timeout %g s, request %s /%s in fragments%s, schedule [%s]: %s"
                    % (server, "TLS" if scheme == "https" else "plain TCP", T, variant, kind,
                       "" if slow == "fine" else
                       ", server bufsize %d and request pieces of %s bytes" % (BS, "8, 16 and a multiple of 8" if slow == "bs" else "7, 9 and the rest")
                       if slow in ("bs", "bsc") else
                       ", client reads slowly (every server send is accepted in part: half of the bytes offered)" if slow else "",
                       ", ".join(sched), what),
                    dict(server=server, scheme=scheme, timeout=T, variant=variant, app=kind, slow_reader=slow,
                         fragments=(aligned_fragments(fragments(variant, kind)[0], slow == "bsc")[0] if slow in ("bs", "bsc")
                                    else fragments(variant, kind)[0]),
                         server_bufsize=BS if slow in ("bs", "bsc") else 8096, schedule=sched, choices=ch.choices, what=what,
                         how="%s(ha=('',8080), timeout=10.0, store=clock[, scheme='https', context=...]) over mc.net doubles; "
                             "connect three raw client sockets N, K, M (in that order); per schedule item: 'send' = K sends its next fragment, "
                             "'+xT' = clock.advance(x*10), '+tick' = clock.advance(0.125), '+T-tick' = clock.advance(9.875), then "
                             "server.serviceAll()" % server)))
        return None

    st = core.dfs(run, bound=bound)
    for h in states:
        p.keys.add(h.to_bytes(8, "little", signed=True))
    p.notes["dfs executions"] += st["executions"]
    if idx == 0:
        p.sample(dict(server=server, scheme=scheme, variant=variant, app=kind, slow_reader=slow, executions=st["executions"],
                      max_choice_points=st["max_points"]), limit=1)
    return p, best


def configs():
    cfgs = []
    for server in ("Valet", "Porter"):
        for scheme in ("http", "https"):
            for variant in VARIANTS:
                for kind in (("fixed", "stream", "echo") if server == "Valet" else ("echo",)):
                    if variant == "ka10" and kind != "echo":
                        continue          # HTTP/1.0 keep-alive differs from ka11 only in the head: echo covers it
                    cfgs.append((len(cfgs), server, scheme, variant, kind, False))
    # persistence ended by a later request whose response is not written in the pass that parsed its head
    for server in ("Valet", "Porter"):
        for scheme in ("http", "https"):
            for kind in (("defer", "echo") if server == "Valet" else ("echo",)):
                cfgs.append((len(cfgs), server, scheme, ENDING, kind, False))
    # fine time grid: activity bursts one tick (0.125 s) apart, then silence of T - tick or T
    for server in ("Valet", "Porter"):
        for scheme in ("http", "https"):
            for kind in (("fixed", "stream") if server == "Valet" else ("echo",)):
                cfgs.append((len(cfgs), server, scheme, "close11", kind, "fine"))
    # small receive buffer: request pieces that are exact multiples of the buffer size (and a control that are not)
    for server in ("Valet", "Porter"):
        for scheme in ("http", "https"):
            cfgs.append((len(cfgs), server, scheme, "close11", "fixed" if server == "Valet" else "echo", "bs"))
            if server == "Valet":
                cfgs.append((len(cfgs), server, scheme, "close11", "fixed", "bsc"))
    # slow reader: non-persistent exchanges whose response needs many partial sends
    # (Valet only: Porter removes a non-persistent connection in the pass that queued the response)
    for scheme in ("http", "https"):
        for variant in ("close11", "http10"):
            for kind in ("fixed", "stream"):
                cfgs.append((len(cfgs), "Valet", scheme, variant, kind, True))
    return cfgs


def run():
    ck = core.Check("C28", META["level"], META["technique"])
    cfgs = configs()
    order = sorted(range(len(cfgs)), key=lambda i: (bool(cfgs[i][5]), cfgs[i][3] not in PERSISTENT, cfgs[i][4] != "echo", i))
    hh.merge_best(ck, core.pmap(work, [cfgs[i] for i in order]))
    ck.part.states = len(ck.part.keys)
    tier = TIERS[core.TIER]
    ck.coverage_extra = dict(horizon=tier["H"], deviation_bound=tier["bound"], timeout=T, configurations=len(cfgs),
                             servers=["Valet", "Porter"], transports=["plain", "TLS double"], variants=list(VARIANTS),
                             apps=["fixed", "stream", "echo"], slow_reader_configurations=sum(1 for c in cfgs if c[5] is True),
                             fine_tick_configurations=sum(1 for c in cfgs if c[5] == "fine"), tick=TICK,
                             slow_reader_deviation_bound=tier["bound"] - 1)
    ck.assumptions = [
        "socket and TLS doubles (mc/net.py) instead of real sockets; TLS handshakes succeed at once, sends are accepted whole "
        "except in the slow-reader configurations, where every send to K is accepted in part (half of the bytes offered, at "
        "least one) - accepted bytes count as bytes sent",
        "'closed for idleness' is observed as closeConnection called from the server's serviceConnects sweep on a connection "
        "whose .cutoff is False; closes by serviceReps / serviceStewards (non-persistent exchange finished) and of cut-off "
        "connections are other mechanisms and are not judged",
        "the idle period of a connection starts when the server accepts it and restarts in every service call in which the "
        "server-side socket sent or received at least one byte; time only advances between service calls",
        "'kept alive by HTTP persistence' = the complete head of an HTTP/1.1 request without 'Connection: close', or of an "
        "HTTP/1.0 request with 'Connection: keep-alive', was received in an earlier service call - until the complete head of a "
        "later 'Connection: close' request has been received; from the next service call on the plain idle rule (no drop "
        "unless no byte moved for >= T) applies again",
        "only the 'only if' direction is judged: keeping an idle connection longer than T is not a violation",
        "states = distinct (step, connection flags, timer remaining, buffer lengths) snapshots; transitions = service calls; "
        "traces = executions judged",
    ]
    return ck.finish(
        rule="{Valet x {fixed, stream, echo}, Porter} x {plain, TLS} x {HTTP/1.1 keep-alive, HTTP/1.1 close, HTTP/1.0, HTTP/1.0 "
             "keep-alive}: every schedule of <= %d steps with <= %d deviations among {send next fragment, nothing, +0.4T, +0.6T, "
             "+T}; plus slow-reader configurations (non-persistent variants, every server send to K partial) with one deviation "
             "less" % (tier["H"], tier["bound"]),
        exhaustive=False,
        explanation="exhaustive within the horizon and deviation bound")


if __name__ == "__main__":
    core.main(run)
