"""C38 exchanges time out and retransmit on schedule.  Engine B: BFS over operation/stamp-advance
sequences on fresh real Exchanger/Exchangent objects, compared step by step with a reference timer model."""
META = dict(
    engine="seq", level="model_checking",
    technique="explicit-state BFS over stamp-advance/process/send/restart sequences on real exchanges vs a reference timer model, per timer configuration",
    text="For every exchange class (Exchanger, a minimal Exchangent subclass), stack kind (Stack, RemoteStack), timeout in {default, 0, 0.5, 1} and "
         "redo timeout in {default, 0, 0.25, 0.5, 1} under every redo keyword spelling the constructor declares, a fresh real exchange is created, started, "
         "and driven by all sequences of operations (advance the stack stamp by 0/0.125/0.25/0.5/1 then process(); send / transmit / message either of two distinct messages (one of them a zero-length Packet); start again with either message, also after a timeout) "
         "with the stamp advanced by 0/0.125/0.375/0.75/3 between construction and start, "
         "explored breadth first with canonical-state dedupe to a fixpoint; after every operation the packets queued on the stack and the done/failed "
         "flags are compared with a plain reference model of the two timers.",
    note="Time is the stack's Stamper advanced in dyadic steps (exact float arithmetic); process() is taken as the only observation point of the timers "
         "(at most one retransmission per process call, timeout checked before redo). After the exchange has finished only a new start() is explored.",
)
import inspect
from mc import core

QUICK = core.TIER != "thorough"
TIMEOUTS = [None, 0, 0.5, 1] if QUICK else [None, 0, 0.5, 1, 0.75, 2.5]
REDOS = [None, 0, 0.25, 0.5, 1.0] if QUICK else [None, 0, 0.25, 0.5, 1.0, 0.125, 0.375]
DELTAS = [0.0, 0.125, 0.25, 0.5, 1.0] if QUICK else [0.0, 0.0625, 0.125, 0.25, 0.5, 1.0]
MAX_DEPTH = 10 if QUICK else 16
GAPS = [0.0, 0.125, 0.375, 0.75, 3.0]     # stamp advance between constructing the exchange and start():
                                          # none, < every redo, between redo and timeout, > timeouts 0.5, > every timeout
MSGS = ("m1", "m2")
SPELLINGS = ("redoTimeout", "redoTimout")


def ops_alphabet():
    ops = [("adv", d) for d in DELTAS]
    ops += [("send", m) for m in MSGS]
    ops += [("transmit", m) for m in MSGS]
    ops += [("message", m) for m in MSGS]
    ops += [("start", m) for m in MSGS]
    return ops


class Model:
    """Reference: two deadlines on the stack stamp; process() is the observation point."""

    def __init__(self, T, R):
        self.T, self.R = T, R
        self.now = 0.0
        self.tx = None
        self.done = self.failed = False
        self.tdead = self.rdead = None

    def start(self, m):
        self.done = self.failed = False
        self.tdead = self.now + self.T
        self.rdead = self.now + self.R
        self.tx = m
        return [m] if m is not None else []     # a correspondent may start without anything to send yet

    def send(self, m):
        self.tx = m
        return [m]

    transmit = send

    def message(self, m):
        self.tx = m
        return ["msg:" + m]

    def adv(self, d):
        self.now += d
        if self.T > 0 and self.now >= self.tdead:
            self.done = self.failed = True
            return []
        if self.R > 0 and self.now >= self.rdead:
            self.rdead = self.now + self.R     # the redo interval keeps running from start, message or not
            return [self.tx] if self.tx is not None else []
        return []


class Run:
    """A fresh real exchange plus the model with a history replayed; per-step comparison."""

    def __init__(self, cfg, history):
        from ioflo.aio.proto import exchanging, stacking, devicing, packeting
        cls, skind, T, R, spelling, gap, payload, first = cfg
        self.cfg = cfg
        self.diverged = None       # (group, what)
        self.construct_error = None
        self.stack = stacking.Stack() if skind == "Stack" else stacking.RemoteStack()
        if skind == "Stack":
            self.device = devicing.Device(stack=self.stack, uid=7, name="peer", ha="peerha")
        else:       # RemoteStack.message() needs a destination remote
            self.device = self.stack.addRemote(devicing.RemoteDevice(stack=self.stack, uid=7, name="peer", ha="peerha"))
        # payload kinds: one message is an ordinary packet, the other a zero-length packet (packeting.Packet(stack), a poke);
        # messages are told apart by identity.  `payload` says which of the two is the empty one.
        self.pk = {m: packeting.Packet(stack=self.stack, packed=b"" if m == payload else m.encode("ascii")) for m in MSGS}
        self.label = {id(p): m for m, p in self.pk.items()}

        if cls == "Exchanger":
            klass = exchanging.Exchanger
        else:
            class Corresponder(exchanging.Exchangent):
                """Minimal correspondent that answers with its .tx and stays open (as protocol subclasses do)."""
                def respond(self, rx=None):
                    if rx is not None:
                        self.rx = rx
                    if self.tx is not None:       # nothing to answer yet: stay open, the first send comes later
                        self.send(self.tx)
            klass = Corresponder
        kwa = dict(device=self.device)
        if T is not None:
            kwa["timeout"] = T
        kwa[spelling] = R
        try:
            self.ex = klass(stack=self.stack, **kwa)
        except Exception as ex:
            self.ex = None
            self.construct_error = "%s: %s" % (type(ex).__name__, ex)
            return
        self.model = Model(klass.Timeout if T is None else T, klass.RedoTimeout if R is None else R)
        # the exchange exists for `gap` before it is started: deadlines count from start(), not from construction
        self.stack.stamper.stamp += gap
        self.model.now += gap
        self.step(("start", first))
        for op in history:
            if self.diverged:
                break
            self.step(op)

    def drain(self):
        out = []
        while self.stack.txPkts:
            item = self.stack.txPkts.popleft()
            pkt = item[0] if isinstance(item, tuple) else item
            out.append(self.label.get(id(pkt), repr(pkt)))
        while self.stack.txMsgs:
            item = self.stack.txMsgs.popleft()
            msg = item[0] if isinstance(item, tuple) else item
            out.append("msg:" + self.label.get(id(msg), repr(msg)))
        return out

    def step(self, op):
        kind, arg = op
        ex, cls = self.ex, self.cfg[0]
        try:
            if kind == "adv":
                self.stack.stamper.stamp += arg
                ex.process()
                exp = self.model.adv(arg)
            elif kind == "send":
                ex.send(self.pk[arg])
                exp = self.model.send(arg)
            elif kind == "transmit":
                ex.transmit(self.pk[arg])
                exp = self.model.transmit(arg)
            elif kind == "message":
                ex.message(self.pk[arg])
                exp = self.model.message(arg)
            else:
                if cls == "Exchanger":
                    ex.start(self.pk[arg])
                else:
                    ex.tx = self.pk[arg] if arg is not None else None
                    ex.start(rx="req")
                exp = self.model.start(arg)
            got = self.drain()
            err = None
        except Exception as e:
            err = "%s: %s" % (type(e).__name__, e)
            got, exp = None, None
        if err:
            self.diverged = ("%s|raises %s" % (kind, err.split(":")[0]), "%s raised %s" % (op, err))
            return
        self.last_got = got
        flags = (bool(ex.done), bool(ex.failed))
        mflags = (self.model.done, self.model.failed)
        if got != exp:
            if len(got) > len(exp):
                k = "extra-transmission"
            elif len(got) < len(exp):
                k = "missing-retransmission" if kind == "adv" else "missing-transmission"
            else:
                k = "wrong-message"
            self.diverged = ("%s|%s" % (kind, k), "after %s the stack queue got %r, reference expects %r" % (op, got, exp))
        elif flags != mflags:
            k = "fails-early" if flags[1] and not mflags[1] else ("no-failure-at-timeout" if mflags[1] and not flags[1] else "flags")
            self.diverged = ("%s|%s" % (kind, k), "after %s (done, failed)=%r, reference expects %r" % (op, flags, mflags))

    def canon(self):
        ex = self.ex
        return (round(ex.timer.remaining, 6), bool(ex.timer.expired), round(ex.redoTimer.remaining, 6),
                bool(ex.redoTimer.expired), bool(ex.done), bool(ex.failed), self.label.get(id(ex.tx)),
                # the reference's view of the latest message is part of the state: an implementation that forgets a
                # message must not get the two histories merged before the next retransmission shows the difference
                self.model.tx)


def cfg_str(cfg, spelled=True):
    cls, skind, T, R, spelling, gap, payload, first = cfg
    return "%s(stack=%s, timeout=%r, %s=%r)%s%s%s" % (cls, skind, T, spelling, R, " started %r after construction" % gap if gap else "",
                                                     "" if payload == "m2" else " [%s is the zero-length packet]" % payload,
                                                     "" if first else " started without a message")


def hist_str(history):
    return " ".join("%s:%s" % (k, a) for k, a in history) or "(start only)"


def work(cfg):
    core.use_repo()
    p = core.Part()
    ops = ops_alphabet()

    def build(history):
        p.evaluations += 1
        return Run(cfg, history)

    def enabled(run, history):
        if run.ex is None or run.diverged:
            return []
        if run.ex.done:
            return [("start", m) for m in MSGS]      # a finished (timed out) exchange may only be started again
        return ops

    def check(run, history):
        p.traces += 1
        if run.construct_error:
            msg = run.construct_error
            p.outcome("construct:" + msg.split(":")[0])
            p.violation("construct|%s" % msg, cfg_str(cfg),
                        "creating %s raised %s" % (cfg_str(cfg), msg),
                        dict(config=cfg_str(cfg), how="exchanging.%s(stack=stacking.%s(), device=..., timeout=%r, %s=%r)"
                             % (cfg[0] if cfg[0] == "Exchanger" else "Exchangent", cfg[1], cfg[2], cfg[4], cfg[3]), raised=msg))
            return True
        if run.diverged:
            group, what = run.diverged
            p.outcome("diverged:" + group)
            p.violation(group, "%s %s" % (cfg_str(cfg), hist_str(history)), what,
                        dict(config=cfg_str(cfg), ops_after_start=[list(o) for o in history],
                             how="construct at stamp 0, advance the stamp by the gap named in config (if any), start with message m1 (or without one if config says so); 'adv d' = stack.stamper.stamp += d then exchange.process(); "
                                 "'send|transmit|message m' = exchange.send/transmit/message(packet m); 'start m' = start again with packet m", divergence=what))
            return True
        if run.ex.failed:
            p.outcome("failed-at-timeout")
        elif history and history[-1][0] == "adv":
            p.outcome("process:" + ("redo" if run.last_got else "idle"))
        else:
            p.outcome("op:" + (history[-1][0] if history else "start"))
        return False

    with core.watchdog(600):
        res = core.bfs([], enabled, build, lambda r: r.canon() if r.ex is not None else ("noex",), check=check,
                       max_depth=MAX_DEPTH)
    p.states = res["states"]
    p.transitions = res["transitions"]
    if res["capped"]:
        p.capped = True
    p.notes["configs"] += 1
    p.notes["max_depth_reached=%d" % res["max_depth"]] += 1
    if res["states"] > 1:
        p.sample(dict(config=cfg_str(cfg), states=res["states"], transitions=res["transitions"], depth=res["max_depth"],
                      fixpoint=res["fixpoint"]))
    return p


def configs():
    core.use_repo()
    from ioflo.aio.proto import exchanging
    params = inspect.signature(exchanging.Exchange.__init__).parameters
    spellings = [s for s in SPELLINGS if s in params]
    out = []
    for cls in ("Exchanger", "Exchangent"):
        for skind in ("Stack", "RemoteStack"):
            for T in TIMEOUTS:
                for R in REDOS:
                    for sp in spellings:
                        for gap in GAPS:
                            if gap and skind != "Stack" and QUICK:
                                continue          # gaps on one stack kind in the quick tier
                            for payload in (("m2",) if QUICK or gap else ("m2", "m1")):
                                out.append((cls, skind, T, R, sp, gap, payload, "m1"))
                                if cls == "Exchangent" and not gap and payload == "m2":
                                    out.append((cls, skind, T, R, sp, gap, payload, None))   # correspondent that has nothing to send at start
    return spellings, out


def run():
    import gc
    gc.collect()
    gc.freeze()          # forked workers then do not copy the parent heap page by page
    ck = core.Check("C38", "model_checking", META["technique"])
    spellings, cfgs = configs()
    if not spellings:
        ck.part.violation("construct|no redo keyword", "Exchange.__init__",
                          "Exchange.__init__ declares neither redoTimeout nor redoTimout", dict())
    ck.merge(core.pmap(work, cfgs))
    ck.coverage_extra = dict(configurations=len(cfgs), redo_keyword_spellings=spellings, deltas=DELTAS,
                             construct_to_start_gaps=GAPS, timeouts=[repr(t) for t in TIMEOUTS], redo_timeouts=[repr(r) for r in REDOS], max_depth=MAX_DEPTH)
    ck.assumptions = [
        "an exchange may be started with no message yet (Exchangent subclass whose respond() defers; Exchanger.start() refuses that with ValueError): the redo "
        "interval still runs from start() and is re-armed at each process() call at which it has elapsed, so the first message sent later is retransmitted at the "
        "next such point, not immediately (what the unchanged code does)",
        "messages are Packet objects (Exchange.send/transmit hand them to stack.transmit, which calls pkt.pack()); m2 is a zero-length packeting.Packet "
        "(falsy: len 0), m1 an ordinary one (thorough also the other way round); a zero-length packet is a message like any other",
        "process() is the only point where timers are observed: at each call the exchange fails if the overall timeout has elapsed, otherwise "
        "retransmits its latest message exactly once if the redo interval has elapsed since the start or the last retransmission (interval restarts at that call)",
        "a redo keyword spelling is only exercised if Exchange.__init__ declares it (redoTimeout, or the pinned tree's redoTimout)",
        "timeout and redo interval count from start() (also a second start() after a timeout), not from construction of the exchange object",
        "the latest message is the one most recently passed to start/send/transmit/message; a retransmission re-queues that object as a packet",
        "send() of a new message does not restart the redo interval (as the code does; the statement is silent)",
        "Exchangent is exercised through a minimal subclass whose respond() sends .tx and stays open; after finish/fail the only operation explored is starting the exchange again",
        "stamps are dyadic so float comparison with deadlines is exact (Exchangent's default 0.1 redo interval never comes within 0.02 of a visited stamp)",
    ]
    return ck.finish(
        rule="per configuration (class x stack kind x timeout x redo x declared keyword spelling x construction-to-start gap in %r): BFS over all sequences of "
             "{advance stamp by d then process() for d in %r, send/transmit/message(m1|m2), start(m1|m2) again} from a started exchange, global dedupe on "
             "(timer remaining/expired, redo remaining/expired, done, failed, latest message held by the exchange and by the reference), to fixpoint or depth %d; "
             "queue contents and flags compared with the reference after every operation" % (GAPS, DELTAS, MAX_DEPTH),
        exhaustive=True)


if __name__ == "__main__":
    core.main(run)
