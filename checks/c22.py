"""C22 each log rule records exactly the runs and updates it promises.
Engine E (file oracle) + explicit-state BFS over histories of share writes and logger runs."""
META = dict(
    engine="vfs", level="model_checking",
    technique="explicit-state BFS over histories {logger RUN, write same, write different, write other field, push/append, "
              "restart, advance tick} on a real Logger+Log driven through its runner generator, files on an in-memory "
              "file system, step-by-step comparison with a reference model of the statement",
    text="For each of the 7 rules x field selection {all, one} (plus, for change and update, logs with two - thorough also three - loggees, "
         "each with its own write operation, two-loggee logs whose first or second loggee has never been stamped and is written "
         "with the non-stamping Share.change, the degenerate always/once/update/change logs with an empty field selection (no loggee; loggee share without fields at START), "
         "and change-rule logs whose field selection names a field the share lacks at START - in first, "
         "middle and last position - that is created later with None or with a value): breadth-first search, with canonical-state dedupe, over every history "
         "of up to 6 (quick) / 12 (thorough) operations after START from the alphabet {RUN, tick, write same value, write different "
         "value, write other field, push to deck / append to streak list (a proper entry by a producer that re-fetches the container from the "
         "share each time, the same by a producer holding the container it obtained once, or the next of None, 0, '', {}, []), STOP+START "
         "restart (once)}, at most one logger send per tick "
         "as the Skedder does, writes before or after the logger in a tick.  After every operation, and again after an appended STOP, "
         "the log file content on the in-memory file system must equal header + the records the statement promises; queue rules must "
         "leave the queue empty.  For streak and deck additionally the complete grid of queue contents of up to 3 (quick) / 4 (thorough) "
         "elements over {proper entry, None, 0, '', {}, []}, split in every way around an earlier run; streak also with a dict and an odict "
         "as the logged container (elements = its items, insertion order).",
    note="One log; one loggee share of two fields (change/update also with one or two further single-field loggees, thorough depth 9/8 there); logger period is represented by which ticks carry a RUN (the Skedder only "
         "decides when to send RUN); values cycle mod 3; writes use Share.update (the stamping write); bounded depth, not a proof.",
)
import json
import os

from mc import core

TICK = 0.125
RULES = ["once", "always", "update", "change", "streak", "deck", "never"]
RULENAME = dict(once="Once", always="Always", update="Update", change="Change",
                streak="Streak", deck="Deck", never="Never")
QUEUE = ("streak", "deck")
BASE = "log"
TAG = "x"


# Elements that are not proper entries: non-mappings and falsy values.  None matters most:
# it is a legal deck element (Share.push / Deck.push accept it) but also what Deck.spew()
# returns for 'empty'.
JUNK = ["None", "0", "''", "{}", "[]"]


def junk_value(name):
    return dict([("None", None), ("0", 0), ("''", ""), ("{}", {}), ("[]", [])])[name]


MULTI = {"two": ["y"], "three": ["y", "z"],     # field selections with further loggees (tags), one field each
         "two-x0": ["y"], "two-y0": ["y"]}      # ... where loggee x / y has never been stamped (Share.change only)
UNSTAMPED = {"two-x0": "x", "two-y0": "y"}


def alphabet(rule, sel="all"):
    if rule in QUEUE:
        # q: producer re-fetches the container from the share for every append; qa: producer appends
        # through the reference it obtained once, before the first drain; j: next junk element (cycles)
        return ["R", "T", "q", "qa", "j", "wb", "X"]
    extra = ["%sd" % t for t in MULTI.get(sel, [])]  # yd / zd: write a different value to that loggee
    if sel == "no-loggee":                           # nothing to write to: runs, ticks, restart
        return ["R", "T", "X"]
    if sel == "empty-share":                         # ws: share.update() ; wd: creates / changes field a (no restart:
        return ["R", "T", "ws", "wd"]                # a second prepare() would pick the new field up, unspecified)
    if sel in ABSENT_SEL:                            # kn / kv: create-or-write field c with None / with a value
        return ["R", "T", "wd", "wb", "kn", "kv", "X"]
    if sel in UNSTAMPED:                             # cx / cy: Share.change() (no stamp) on the unstamped loggee
        return ["R", "T", "wd", "c" + UNSTAMPED[sel]] + extra + ["X"]
    return ["R", "T", "ws", "wd", "wb"] + extra + ["X"]


MAPPING_SEL = ("dict", "odict")     # streak: the logged field is a mapping, elements are its (key, value) items


def elems(obj):
    """Elements of a queue container in its own order (items for a mapping)."""
    return list(obj.items()) if isinstance(obj, dict) else list(obj)


def kind_of(e):
    """Element kind for canonical states: proper entry or which junk."""
    if isinstance(e, tuple) and len(e) == 2 and isinstance(e[0], str):    # mapping item
        return kind_of(e[1])
    if isinstance(e, dict) and e:
        return "m"
    if isinstance(e, int) and not isinstance(e, bool) and e > 0:
        return "m"
    return repr(e)


# Degenerate logs whose prepared field selection is empty: no loggee at all, or a loggee share that
# has no field when the logger starts (no field list given; the share is filled at run time).
EMPTY_SEL = ("no-loggee", "empty-share")

# Field selections naming a field (c) the share does not have at START, in every position.
ABSENT_SEL = {"abs-first": ["c", "a", "b"], "abs-mid": ["a", "c", "b"], "abs-last": ["a", "b", "c"]}


class _Absent(object):
    """Value of a selected field the share does not (yet) have: an empty column."""
    def __str__(self):
        return ""
    __repr__ = __str__


ABSENT = _Absent()


def selected_fields(rule, sel):
    """Fields the log is expected to show (statement: 'field selection')."""
    if sel in EMPTY_SEL:
        return []
    if sel in ABSENT_SEL:
        return list(ABSENT_SEL[sel])
    if rule == "streak":
        return ["a"]                      # streak logs the first field only
    return ["a", "b"] if sel == "all" else ["a"]


def given_fields(rule, sel):
    """fields= argument handed to addLoggee."""
    if sel in EMPTY_SEL or sel in MAPPING_SEL:
        return None
    if sel in ABSENT_SEL:
        return list(ABSENT_SEL[sel])
    if rule == "deck":
        return ["a", "b"] if sel == "all" else ["a"]     # deck requires an explicit list
    return None if sel == "all" else ["a"]


# --------------------------------------------------------------------------- reference

class Ref:
    """Boring model of the statement.  A 'run' is every time the logger performs its log
    action: START, each RUN, and the final log of STOP."""

    def __init__(self, rule, sel, by_stamp=False):
        self.rule = rule
        self.by_stamp = by_stamp     # classification model only, see Node.alt
        self.wstamp = 0.0            # stamp of the latest write (share created at 0.0)
        self.rstamp = None           # stamp of the latest record
        self.sel = sel
        self.fields = selected_fields(rule, "all" if sel in MULTI else sel)
        self.others = list(MULTI.get(sel, []))      # tags of the further loggees
        self.ov = dict((t, 0) for t in self.others)
        self.now = 0.0
        self.a = ABSENT if sel == "empty-share" else 0
        self.b = 0
        self.c = ABSENT              # field the share lacks until kn / kv creates it
        self.queue = []
        self.npush = 0
        self.njunk = 0
        self.records = []            # the records the statement requires, in order
        self.items = []              # ("req", line) | ("opt", stamp): see matches()
        self.recorded = False        # at least one record written by a run
        self.pending = False         # an update was made after the previous record
        self.last = None             # last logged values of the selected fields
        self.started = False
        self.sent = False            # a control was sent to the logger in this tick
        self.restarted = False
        cols = (["%s.%s" % (TAG, f) for f in self.fields] if len(self.fields) > 1 else [TAG]) + self.others
        if sel == "no-loggee":
            cols = []                # a loggee with an empty selection still gets its tag column, no loggee gets none
        self.header = "text\t%s\t%s\n_time%s\n" % (RULENAME[rule], BASE, "".join("\t" + c for c in cols))

    def values(self):
        d = dict(a=self.a, b=self.b, c=self.c)
        return [d[f] for f in self.fields] + [self.ov[t] for t in self.others]

    def record(self, vals):
        line = "%s%s\n" % (self.now, "".join("\t%s" % (v,) for v in vals))
        self.records.append(line)
        self.items.append(("req", line))

    def run(self):
        r = self.rule
        if r == "never":
            return
        if r == "streak":                # every element of the sequence is loggable with %s
            for e in self.queue:
                self.record([e])
            self.queue = []
            return
        if r == "deck":                  # every queued mapping entry, in order; what an element that is
            for e in self.queue:         # not a (non-empty) mapping produces is not defined: zero or
                if isinstance(e, dict) and e:      # one line with this stamp is accepted, the drain goes on
                    self.record([e[f] for f in self.fields])
                else:
                    self.items.append(("opt", "%s" % self.now))
            self.queue = []
            return
        if r == "once":
            go = not self.recorded
        elif r == "always":
            go = True
        elif r == "update" and self.by_stamp:
            go = (not self.recorded) or self.wstamp > self.rstamp
        elif r == "update":
            go = (not self.recorded) or self.pending
        else:  # change
            go = (not self.recorded) or self.values() != self.last
        if go:
            self.record(self.values())
            self.recorded = True
            self.rstamp = self.now
            self.pending = False
            self.last = self.values()

    def enabled(self):
        out = []
        for op in alphabet(self.rule, self.sel):
            if op == "R" and self.sent:
                continue
            if op == "X" and (self.sent or self.restarted):
                continue
            out.append(op)
        return out

    def apply(self, op):
        if op == "START":
            self.started = True
            self.sent = True
            self.run()
        elif op == "R":
            self.sent = True
            self.run()
        elif op == "STOP":
            self.sent = True
            self.run()
            self.started = False
        elif op == "T":
            self.now += TICK
            self.sent = False
        elif op == "ws":
            self.pending = True
            self.wstamp = self.now
        elif op == "wd":
            self.a = 1 if self.a is ABSENT else (self.a + 1) % 3
            self.pending = True
            self.wstamp = self.now
        elif op == "wb":
            self.b = (self.b + 1) % 3
            self.pending = True
            self.wstamp = self.now
        elif op in ("yd", "zd"):
            self.ov[op[0]] = (self.ov[op[0]] + 1) % 3
            self.pending = True
            self.wstamp = self.now
        elif op == "kn":
            self.c = None
            self.pending = True
            self.wstamp = self.now
        elif op == "kv":
            self.c = 1 if self.c in (ABSENT, None) else (self.c + 1) % 3
            self.pending = True
            self.wstamp = self.now
        elif op == "cx":                 # value changes, but Share.change() is not an update
            self.a = (self.a + 1) % 3
        elif op == "cy":
            self.ov["y"] = (self.ov["y"] + 1) % 3
        elif op in ("q", "qa"):
            self.npush += 1
            n = self.npush
            self.queue.append(dict(a=n, b=10 * n) if self.rule == "deck" else ("k%d" % n, n) if self.sel in MAPPING_SEL else n)
        elif op == "j":
            self.apply("j:" + JUNK[self.njunk % len(JUNK)])
        elif op.startswith("j:"):
            self.njunk += 1
            v = junk_value(op[2:])
            self.queue.append(("j%d" % self.njunk, v) if self.sel in MAPPING_SEL else v)
        elif op == "X":
            self.apply("STOP")
            self.apply("T")
            self.apply("START")
            self.restarted = True
        else:
            raise core.BrokenCheck("unknown op %r" % op)

    def content(self):
        return self.header + "".join(self.records)

    def matches(self, got):
        """got == header + required records, with at most one extra line (carrying the run's
        stamp) allowed where an undefined element was drained."""
        if got == self.content():
            return True
        if got is None or not got.startswith(self.header):
            return False
        gl = got[len(self.header):].splitlines(True)
        i = 0
        for k, (kind, val) in enumerate(self.items):
            if kind == "req":
                if i < len(gl) and gl[i] == val:
                    i += 1
                else:
                    return False
            elif i < len(gl) and (gl[i].startswith(val + "\t") or gl[i] == val + "\n"):
                nxt = next((v for kk, v in self.items[k + 1:] if kk == "req"), None)
                if gl[i] != nxt:
                    i += 1
        return i == len(gl)


# --------------------------------------------------------------------------- implementation driver

class Impl:
    def __init__(self, rule, sel):
        from mc import vfs
        from ioflo.base import globaling as g
        from ioflo.aid.odicting import odict
        self.odict = odict
        self.rule = rule
        self.fs = vfs.VFS()
        self.undo = vfs.install(self.fs)
        self.sel = sel
        queue0 = {} if sel == "dict" else odict() if sel == "odict" else []
        init = None if sel in EMPTY_SEL else [("a", queue0 if rule == "streak" else 0), ("b", 0)]
        self.w = vfs.LogWorld(self.fs, getattr(g, rule.upper()),
                              fields=given_fields(rule, "all" if sel in MULTI else sel),
                              share_init=init, tick=TICK, base=BASE, tag=TAG,
                              logger_kw=dict(reuse=(sel != "one")),
                              more_loggees=[(t, "mc." + t, None, [("a", 0)]) for t in MULTI.get(sel, [])],
                              unstamped=["mc." + UNSTAMPED[sel]] if sel in UNSTAMPED else (),
                              no_loggee=(sel == "no-loggee"))
        self.npush = 0
        self.njunk = 0
        # the producer's own reference to the queue object, taken once before anything is drained
        self.alias = self.w.share.deck if rule == "deck" else self.w.share["a"] if rule == "streak" else None

    def apply(self, op):
        w = self.w
        sh = w.share
        if op == "START":
            return w.start()
        if op == "R":
            return w.run()
        if op == "STOP":
            return w.stop()
        if op == "T":
            return w.advance()
        if op == "ws":
            return sh.update(a=sh["a"]) if "a" in sh else sh.update()
        if op == "wd":
            return sh.update(a=(sh["a"] + 1) % 3 if "a" in sh else 1)
        if op == "wb":
            return sh.update(b=(sh["b"] + 1) % 3)
        if op == "q":
            self.npush += 1
            n = self.npush
            if self.rule == "deck":
                return sh.push(self.odict([("a", n), ("b", 10 * n)]))
            if self.sel in MAPPING_SEL:
                sh["a"]["k%d" % n] = n
                return None
            return sh["a"].append(n)
        if op == "qa":
            self.npush += 1
            n = self.npush
            if self.rule == "deck":
                return self.alias.push(self.odict([("a", n), ("b", 10 * n)]))
            if self.sel in MAPPING_SEL:
                self.alias["k%d" % n] = n
                return None
            return self.alias.append(n)
        if op in ("yd", "zd"):
            o = w.shares["mc." + op[0]]
            return o.update(a=(o["a"] + 1) % 3)
        if op in ("cx", "cy"):
            o = w.shares["mc." + op[1]]
            return o.change(a=(o["a"] + 1) % 3)
        if op == "kn":
            return sh.update(c=None)
        if op == "kv":
            c = sh["c"] if "c" in sh else None
            return sh.update(c=1 if c is None else (c + 1) % 3)
        if op == "j":
            return self.apply("j:" + JUNK[self.njunk % len(JUNK)])
        if op.startswith("j:"):
            self.njunk += 1
            v = junk_value(op[2:])
            if self.rule == "deck":
                return sh.push(v)
            if self.sel in MAPPING_SEL:
                sh["a"]["j%d" % self.njunk] = v
                return None
            return sh["a"].append(v)
        if op == "X":
            w.stop()
            w.advance()
            return w.start()
        raise core.BrokenCheck("unknown op %r" % op)

    def current(self):
        """The queue object the share holds now."""
        return self.w.share.deck if self.rule == "deck" else self.w.share["a"] if self.rule == "streak" else None

    def queue(self):
        """Everything still queued: in the object the producer holds and, should the share
        hold a different object by now, in that one too."""
        if self.alias is None:
            return []
        cur = self.current()
        out = elems(self.alias)
        if cur is not self.alias:
            out += elems(cur) if isinstance(cur, (list, dict, type(self.alias))) else [cur]
        return out

    def queue_len(self):
        return len(self.queue())

    def content(self):
        return self.fs.logical(self.w.log.path) if self.w.log.path else None

    def canon(self):
        w = self.w
        now = w.store.stamp

        def age(s):
            return None if s is None else round((now - s) / TICK, 6)
        lasts = ()
        if self.rule == "change":
            lasts = tuple(sorted((t, tuple(sorted(vars(d).items()))) for t, d in w.log.lasts.items()))
        sh = w.share
        a = sh["a"] if "a" in sh else "absent"
        return (w.logger.status, w.logger.desire, age(w.log.stamp), age(sh.stamp), age(w.logger.stamp),
                tuple(kind_of(e) for e in elems(a)) if isinstance(a, (list, dict)) else a, sh["b"] if "b" in sh else "absent", sh["c"] if "c" in sh else "absent",
                None if self.alias is None else (self.current() is self.alias, tuple(kind_of(e) for e in elems(self.alias))),
                tuple(kind_of(e) for e in sh.deck), lasts,
                tuple((n, o["a"], age(o.stamp)) for n, o in sorted(w.shares.items()) if o is not sh),
                w.log.first, w.log.file is not None and not w.log.file.closed)


class Node:
    """One BFS state materialised: real objects + reference, both with `hist` replayed."""

    def __init__(self, rule, sel, hist):
        self.rule, self.sel, self.hist = rule, sel, list(hist)
        self.ref = Ref(rule, sel)
        # Second model used ONLY to name the divergence predicted in DESIGN section 6 (rule
        # 'update' decided by comparing stamps: an update carrying the stamp of the previous
        # record is invisible).  It never makes a comparison pass.
        self.alt = Ref(rule, sel, by_stamp=True) if rule == "update" else None
        self.impl = Impl(rule, sel)
        self.error = None
        self.cached = None
        for op in hist:
            self.step(op)
            if self.error:
                break

    def step(self, op):
        self.ref.apply(op)
        if self.alt:
            self.alt.apply(op)
        try:
            self.impl.apply(op)
        except Exception as ex:  # the property says nothing raises
            self.error = (op, ex)

    def canon(self):
        r = self.ref
        return (self.impl.canon(), r.recorded, r.pending, tuple(r.last or ()),
                tuple(kind_of(e) for e in r.queue), r.njunk % len(JUNK), r.sent, r.restarted, r.started)


def is_subseq(small, big):
    it = iter(big)
    return all(any(x == y for y in it) for x in small)


def diverge(node, hist, part, stage):
    """Compare implementation and reference; register a violation and return True when
    they differ."""
    rule, sel = node.rule, node.sel
    ex_hist = " ".join(hist)
    example = "fields=%s: %s" % (sel, ex_hist)
    replay = dict(rule=rule, fields=sel, history=list(hist), tick=TICK,
                  how="LogWorld(fs, rule, fields, share a/b) ; START/R/STOP = logger.runner.send(...) ; T = store.changeStamp(+tick) ; "
                      "ws/wd/wb = share.update(a=same / a=(a+1)%3 / b=(b+1)%3) ; yd/zd = the same on the further loggee shares mc.y / mc.z "
                      "(fields=two/three: log.addLoggee(tag='y', loggee='mc.y'), ...) ; fields=no-loggee: the log has no loggee ; fields=empty-share: store.create('mc.x') without "
                      "fields, no field list, ws = share.update(), wd = share.update(a=1 or (a+1)%3) ; fields=abs-first/mid/last: fields=['c','a','b'] etc. with no field c in the share at START, kn = "
                      "share.update(c=None), kv = share.update(c=1 or (c+1)%3) ; fields=two-x0 / two-y0: share mc.x / mc.y is initialised "
                      "with Share.change() so its stamp is None, cx / cy = share.change(a=(a+1)%3) on it ; q = deck push(odict(a=n,b=10n)) / list append(n) ; "
                      "qa = the same through the reference to share.deck / share['a'] taken once right after construction ; "
                      "fields=dict/odict (streak): field a is a dict / odict, q = share['a']['k<n>'] = n, j:<v> = share['a']['j<m>'] = v ; "
                      "j:<v> = deck push(v) / list append(v) for v in None, 0, '', {}, [] ; j = the next of these in that order ; "
                      "X = STOP, T, START")
    if node.error:
        op, ex = node.error
        part.violation("%s|raises|%s" % (rule, type(ex).__name__), example,
                       "rule %s: %s raised %r during %s after history %s" % (rule, op, ex, stage, ex_hist), replay)
        return True
    got = node.impl.content()
    exp = node.ref.content()
    replay.update(expected=exp, observed=got)
    files = node.impl.fs.listing()
    if got is None or len(files) != 1:
        part.violation("%s|files" % rule, example, "rule %s: expected exactly one log file, found %r" % (rule, files), replay)
        return True
    ql = node.impl.queue_len()
    if rule in QUEUE and hist and hist[-1] in ("START", "R", "STOP", "X") and ql != 0:
        part.violation("%s|queue-not-empty" % rule, example,
                       "rule %s: %d element(s) %r left in the queue after a logger run (%s)"
                       % (rule, ql, node.impl.queue(), ex_hist), replay)
        return True
    if node.ref.matches(got):
        return False
    h = node.ref.header
    if not got.startswith(h) or got.count(h.split("\n")[0] + "\n") != 1:
        part.violation("%s|header" % rule, example,
                       "rule %s: file does not start with exactly one header: %r (%s)" % (rule, got[:80], ex_hist), replay)
        return True
    gl = got[len(h):].splitlines(True)
    el = list(node.ref.records)
    if is_subseq(gl, el):
        kind = "missing-record"
        if node.alt and got == node.alt.content():
            kind = "missing-record|update-with-stamp-of-previous-record"
    elif is_subseq(el, gl):
        kind = "extra-record"
    else:
        kind = "wrong-record"
    part.violation("%s|%s" % (rule, kind), example,
                   "rule %s, %s after history [%s] (%s): records %r, statement promises %r"
                   % (rule, kind, ex_hist, stage, gl, el), replay)
    return True


# --------------------------------------------------------------------------- worker

def work(item):
    rule, sel, depth = item
    core.use_repo()
    part = core.Part()
    counters = dict(execs=0)

    def build(hist):
        counters["execs"] += 1
        return Node(rule, sel, hist)

    def enabled(node, hist):
        return node.ref.enabled()

    def canon(node):
        return node.cached if node.cached is not None else node.canon()

    def check(node, hist):
        part.traces += 1
        node.cached = None if node.error else node.canon()
        bad = diverge(node, hist, part, "step")
        if bad:
            part.outcome("%s:violation" % rule)
            return True
        # appended STOP (in this tick when the logger has not been sent to yet, else next tick)
        tail = ["STOP"] if not node.ref.sent else ["T", "STOP"]
        for op in tail:
            node.step(op)
            if node.error:
                break
        part.traces += 1
        bad = diverge(node, hist + tail, part, "appended STOP")
        nrec = len(node.ref.records)
        part.outcome("%s:%s" % (rule, "violation" if bad else
                                ("0 records" if nrec == 0 else "1 record" if nrec == 1 else "2+ records")))
        if not bad and len(hist) == depth + 1 and len(part.samples) < 1 and nrec >= 1:
            part.sample(dict(rule=rule, fields=sel, history=hist + tail, file=node.impl.content()))
        return bad

    with core.watchdog(600):
        res = core.bfs(["START"], enabled, build, canon, check=check, max_depth=depth)
    part.states = res["states"]
    part.transitions = res["transitions"]
    part.evaluations = part.traces
    part.extra["max_depth"] = res["max_depth"]
    part.notes["real_executions"] = counters["execs"]
    part.nontrivial((rule, sel))
    return part


def work_grid(item):
    """Queue rules only: every sequence of up to `maxlen` elements over {proper entry, None, 0,
    '', {}, []} queued before a logger run, for every split of the sequence around an earlier
    run (START, first part, tick, RUN, second part, tick, RUN, tick, STOP), compared with the
    reference after every operation."""
    _tag, rule, sel, maxlen = item
    import itertools
    core.use_repo()
    part = core.Part()
    elems = ["q", "qa"] + ["j:" + j for j in JUNK]
    with core.watchdog(600):
        for n in range(1, maxlen + 1):
            for seq in itertools.product(elems, repeat=n):
                for cut in range(0, n):                  # cut == 0: everything before one run
                    hist = ["START"] + list(seq[:cut]) + (["T", "R"] if cut else []) + list(seq[cut:]) + ["T", "R", "T", "STOP"]
                    node = Node(rule, sel, [])
                    done = []
                    bad = False
                    for op in hist:
                        node.step(op)
                        done.append(op)
                        part.traces += 1
                        if diverge(node, done, part, "grid"):
                            bad = True
                            break
                    nj = sum(1 for e in seq if e not in ("q", "qa"))
                    part.outcome("%s:grid %s" % (rule, "violation" if bad else
                                                 "no junk" if nj == 0 else "all junk" if nj == n else "junk between entries"))
                    part.nontrivial((rule, sel, seq, cut))
                    if not bad and n == maxlen and cut == 1 and seq[:3] == ("q", "j:None", "qa") and len(part.samples) < 1:
                        part.sample(dict(rule=rule, fields=sel, history=hist, file=node.impl.content()))
    part.evaluations = part.traces
    part.notes["grid_histories"] = sum(len(elems) ** n * n for n in range(1, maxlen + 1))
    return part


def work_any(item):
    return work_grid(item) if item[0] == "grid" else work(item)


def replay(path):
    core.use_repo()
    with open(path) as f:
        rp = json.load(f)["replay"]
    node = Node(rp["rule"], rp["fields"], rp["history"])
    print("history :", " ".join(rp["history"]))
    if node.error:
        print("raised  :", repr(node.error))
    print("observed:", repr(node.impl.content()))
    print("expected:", repr(node.ref.content()))
    print("queue   :", node.impl.queue())
    return 1 if (node.error or not node.ref.matches(node.impl.content())
                 or (node.rule in QUEUE and rp["history"][-1] in ("START", "R", "STOP", "X") and node.impl.queue())) else 0


def run():
    if os.environ.get("VERIF_REPLAY"):
        return replay(os.environ["VERIF_REPLAY"])
    depth = 6 if core.TIER == "quick" else 12
    ck = core.Check("C22", "model_checking", META["technique"])
    maxlen = 3 if core.TIER == "quick" else 4
    items = [(r, s, depth) for r in RULES for s in ("all", "one")]
    # logs with several loggees (the rules that loop over loggees): 2 loggees, thorough also 3
    # (bounded lower in thorough: the alphabet has 7-8 operations and a much larger value space)
    mdepth = {"two": depth if core.TIER == "quick" else 9, "three": 8,
              "two-x0": depth if core.TIER == "quick" else 9, "two-y0": depth if core.TIER == "quick" else 9}
    items += [(r, s, mdepth[s]) for r in ("change", "update") for s in (("two", "three") if core.TIER != "quick" else ("two",))]
    items += [(r, s, mdepth[s]) for r in ("update", "change") for s in ("two-x0", "two-y0")]
    # degenerate logs with an empty field selection: records hold the time stamp only
    items += [(r, s, depth) for r in ("always", "once", "update", "change") for s in EMPTY_SEL]
    # rule change with a selected field the share lacks at START (first / middle / last position)
    items += [("change", s, depth if core.TIER == "quick" else 9) for s in sorted(ABSENT_SEL)]
    items += [("grid", r, s, maxlen) for r in QUEUE for s in ("all", "one")]
    # streak whose logged field is a mapping (dict, odict): elements are its items, in insertion order
    items += [("streak", s, depth) for s in MAPPING_SEL] + [("grid", "streak", s, maxlen) for s in MAPPING_SEL]
    parts = core.pmap(work_any, items)
    # keep, per group, the shortest (then lexicographically first) example over all shards
    allv = sorted((v for p in parts for v in p.violations),
                  key=lambda v: (v[0], len(v[1].split()), v[1]))
    first = core.Part()
    for v in allv:
        first.violation(*v)
    ck.merge([first])
    for p in parts:
        p.violations = []
    ck.merge(parts)
    ck.assumptions = [
        "a 'logger run' is each time the logger performs its log action: START, every RUN and the final log of STOP (Logger.makeRunner docstring)",
        "an 'update' is a stamping write of the loggee share (Share.update), whatever field it touches; 'change' looks at the selected fields only",
        "the Skedder sends a tasker at most one control per tick, so RUN is enabled once per tick; logger period = which ticks carry a RUN",
        "a file reopened by a restart is not a new file: exactly one header in total",
        "header/record layout as pinned by test_logging.py: 'text<TAB>Rule<TAB>name', '_time' + tag or tag.field columns, '%s' formatting",
        "deck: every queued non-empty mapping must give exactly one record, in order, and the deck must be empty after every run; what an "
        "element that is not a non-empty mapping (None, 0, '', {}, []) produces is not defined by the statement: zero or one line with the "
        "run's stamp is accepted at its position, but the drain must continue past it.  streak: every element of the sequence, falsy or "
        "not, is one record formatted with %s",
        "fields=two/three: the log has loggees x (fields a, b), y (and z), columns x.a x.b y (z); 'change' compares every logged column "
        "with its last logged value, 'update' counts a stamped write to any loggee",
        "streak with a mapping as logged field (fields=dict / odict): the queued elements are its (key, value) items, FIFO = insertion order, "
        "each logged once as '%s' of the item, the same mapping object left empty",
        "queue rules: 'the queue' is the container object the producer put into the share (streak: the list in field a, deck: share.deck); "
        "a producer may keep its reference to it, so after every run that same object must be empty and later appends through it must be logged",
        "fields=two-x0 / two-y0: loggee x / y is initialised and written with Share.change(), which leaves share.stamp None; such a write "
        "is not an 'update' (no record promised by rule update) but is a value change for rule change; stamped updates of the other "
        "loggee must be recorded whatever the position of the unstamped one",
        "fields=no-loggee / empty-share: a log whose prepared field selection is empty still writes one record per rule firing, holding "
        "the time stamp only (header '_time' resp. '_time<TAB>tag'); with no logged field, 'change' fires at its first run only; 'update' fires "
        "on every stamped write of the (field-less) loggee and never without a loggee.  This is what the unchanged tree does and what the "
        "statement's per-rule record counts demand.  No restart for empty-share: a second prepare() would pick up fields created meanwhile",
        "fields=abs-*: a selected field the share does not have is an empty column; when the field appears (with None or a value) the "
        "logged field differs from its last logged value, so rule change promises a record; changes of the other selected fields must be "
        "recorded whatever the position of the absent one",
        "canonical state = logger status/desire, ages (in ticks) of log, share and logger stamps, share values, queue contents by element kind, last-logged values, "
        "file-open flags, plus the reference's own state; histories reaching the same canonical state are expanded once",
    ]
    ck.coverage_extra = dict(depth=depth, shards=len(items), queue_grid_maxlen=maxlen, alphabet=dict(value_rules=alphabet("once"), queue_rules=alphabet("deck")))
    return ck.finish(
        rule="BFS from START to depth %d over the alphabet, for 7 rules x {all fields, one field}; every transition and every "
             "state+STOP compared with the reference; states = distinct canonical states; plus, for streak and deck, the grid of every "
             "queue content of up to %d elements over {entry, None, 0, '', {}, []} x every split around an earlier run; "
             "distinct = (rule, field selection) pairs + grid cases" % (depth, maxlen),
        exhaustive=True,
        explanation="exhaustive within the depth bound: every history of at most %d operations after START is reached or is "
                    "equivalent (same canonical state) to one that is" % depth)


if __name__ == "__main__":
    core.main(run)
