"""C30 HTTP requests and WSGI responses survive the round trip (no sockets).
Requester.build -> Requestant.parse -> Valet.buildEnviron, and app -> Responder -> Respondent, over the
exhaustive product of small sets of methods, paths, query values, headers, bodies / statuses, headers,
body kinds, raised HTTPErrors."""
META = dict(
    engine="split", level="exploration",
    technique="exhaustive product of small input sets pushed through the real client builder / server parser / WSGI environ builder and the real WSGI responder / client parser, compared field by field with the inputs",
    text="Requests: 9 methods x 6 paths (space, latin, CJK, pre-quoted, semicolon) x 16 query-argument sets (reserved characters & = + % # ; ? / "
         "quotes, empty, unicode, int) x 3 header sets x 24 bodies (none, all 256 byte values, text, five JSON values, form arguments with the same "
         "reserved values) = every combination is built by Requester.build, parsed by Requestant and turned into a WSGI environ by "
         "Valet.buildEnviron; method, unquoted path, query args (parse_qsl of QUERY_STRING), headers (case-insensitive), body / decoded form / "
         "decoded JSON and the CGI variables must equal the inputs.  Responses: 5 statuses x 3 header sets x 9 body kinds, 204 / 304 / 102 with the empty kinds, and HEAD requests answered with each body kind (lists, generators "
         "with empty yields, StopIteration value, write() callable, binary) x with/without Content-Length x chunkable or not, plus HTTPError "
         "raised at call time / first next / after an empty yield (4 statuses x reasons x header sets), are served by Responder and parsed by "
         "Respondent; status, reason, headers and body must equal what the application produced.  Every such response is additionally delivered to "
         "the client in two receives cut at EVERY byte offset (parser serviced after each receive, with and without an idle pass in between) with "
         "the same oracle.  Reuse: every ordered pair of 19 response "
         "kinds (fixed, chunked, generator streamed / fixed, empty, StopIteration value, write(), binary, 204 / 304 / 102 without Content-Length, "
         "HEAD answered with a body, HTTPError at three sites) x chunkable "
         "combinations is served by ONE Responder that is reset between the two the way Valet does on a persistent connection and parsed by ONE "
         "re-armed Respondent; both responses must equal what the application produced and leave no bytes behind.  Method sequences: every "
         "sequence of 1-3 requests over HEAD / GET / POST / DELETE on ONE keep-alive Patron against a real Valet (socket doubles), x Patron "
         "constructed with default method or HEAD x each request answered fixed-length, streamed or by HTTPError x requests issued one by one or "
         "queued at once; every response must match the app's output (no body for HEAD) when delivered AND still after all later responses, and "
         "leave nothing in the receive buffer.  Payload kinds: every sequence of 2-3 requests over json / form / raw / no payload on one Patron; the server "
         "must read the same body and CONTENT_* as for the same request on a fresh Patron.  Environ independence: every sequence of 2-3 requests with different header sets on one connection; the "
         "app reports its HTTP_*/CONTENT_* variables, which must equal those of the same request on a fresh connection.  Path reuse: 2-3 GET/POST requests on one Patron where only the first (or the constructor) names "
         "a path containing space / non-ASCII / ',' / '%' and the later ones omit it; the server must see the same path every time.",
    note="Pure product of small sets; arrival schedules only as two-piece fragmentation of the Responder's own output (C29 covers the general case); multipart form bodies, header values outside "
         "latin-1, duplicate header names and HTTPError raised after the head was sent are not exercised.  GET requests "
         "carry no body by ioflo's documented design, so the expected body for GET is empty.",
)
import io
import json
import traceback
from urllib.parse import parse_qsl

from mc import core, split

METHODS = ["POST", "GET", "PUT", "PATCH", "DELETE", "HEAD", "OPTIONS", "TRACE", "CONNECT"]
PATHS = ["/", "/a b", "/\xe9", "/漢/x", "/a%20b", "/a;b"]
VALUES = ["v", "", "a b", "a&b", "a=b", "a+b", "%", "#", "\xe9", "a;b", "?", "/", "x'y\"z"]
HEADERSETS = [
    [],
    [("Accept", "application/json")],
    [("X-Custom-Header", "Value With Spaces, and: colon"), ("x-lower", "caf\xe9")],
]


def qarg_sets():
    out = [None]
    out += [[("q", v)] for v in VALUES]
    out.append([("a", "1"), ("b", "2 3"), ("c", "\xe9&=")])
    out.append([("n", 5)])
    if core.TIER == "thorough":
        out += [[("p", a), ("q", b)] for a in VALUES for b in VALUES]
    return out


def bodies():
    out = [("none", None), ("bytes", bytes(range(256))), ("bytes", b"hello"), ("text", "h\xe9llo")]
    for d in ({"a": 1}, [1, "\xe9", None, True, 1.5], "str", {"nested": {"k": [1, 2]}, "u": "漢"}, 0):
        out.append(("json", d))
    out += [("form", [("k", v)]) for v in VALUES]
    out.append(("form", [("a", "1"), ("b", "2 3"), ("c", "\xe9&=")]))
    out.append(("form", [("n", 5)]))
    if core.TIER == "thorough":
        out += [("form", [("p", a), ("q", b)]) for a in VALUES for b in VALUES]
    return out


def innermost(ex):
    fn = "?"
    for fr in traceback.extract_tb(ex.__traceback__):
        if "/ioflo/aio/http/" in fr.filename:
            fn = fr.name
    return fn


# --------------------------------------------------------------------------- request direction

def show_req(method, path, qargs, headers, bkind, bval):
    s = "%s %s" % (method, path)
    if qargs:
        s += " qargs=%r" % (qargs,)
    if headers:
        s += " headers=%r" % (headers,)
    if bkind != "none":
        s += " %s=%r" % (bkind, bval if not (isinstance(bval, bytes) and len(bval) > 16) else "<%d bytes 00..ff>" % len(bval))
    return s


def request_case(valet, method, path, qargs, headers, bkind, bval, part):
    from ioflo.aio.http import clienting, serving
    from ioflo.aio.tcp import serving as tcpserving
    from ioflo.aid.odicting import odict
    case = show_req(method, path, qargs, headers, bkind, bval)
    replay = dict(direction="request", method=method, path=path, qargs=qargs, headers=headers, body_kind=bkind, body=bval)
    kw = dict(hostname="127.0.0.1", port=8080, method=method, path=path)
    if qargs is not None:
        kw["qargs"] = odict(qargs)
    if headers:
        kw["headers"] = odict(headers)
    if bkind in ("bytes", "text"):
        kw["body"] = bval
    elif bkind == "json":
        kw["data"] = bval
    elif bkind == "form":
        kw["fargs"] = odict(bval)

    def bad(field, what):
        part.violation("request|%s" % field, case, "request %s: %s" % (case, what), replay)

    try:
        wire = clienting.Requester(**kw).build()
    except Exception as ex:
        bad("raises:%s|%s" % (type(ex).__name__, innermost(ex)), "Requester.build raised %r" % ex)
        return "build-raises"
    replay["wire"] = wire
    ix = tcpserving.Incomer(ha=("127.0.0.1", 8080), ca=("127.0.0.1", 50001), cs=None, store=valet.store)
    rt = serving.Requestant(msg=ix.rxbs, incomer=ix)
    ix.rxbs.extend(wire)
    try:
        rt.parse()
    except Exception as ex:
        bad("raises:%s|%s" % (type(ex).__name__, innermost(ex)), "Requestant.parse raised %r on %r" % (ex, wire))
        return "parse-raises"
    if rt.parser is not None or not rt.ended:
        bad("incomplete", "server still waits for more bytes after the complete request %r" % wire)
        return "incomplete"
    if rt.errored:
        bad("errored", "server rejects the client's own request: %s" % rt.error)
        return "errored"
    if ix.rxbs:
        bad("leftover", "%d bytes of the request left unconsumed" % len(ix.rxbs))
    try:
        env = valet.buildEnviron(rt)
    except Exception as ex:
        bad("raises:%s|%s" % (type(ex).__name__, innermost(ex)), "Valet.buildEnviron raised %r" % ex)
        return "environ-raises"
    # ---- expectations
    if rt.method != method:
        bad("method", "method %r parsed as %r" % (method, rt.method))
    if rt.path != path:
        bad("path", "path %r parsed as %r" % (path, rt.path))
    expq = [(k, str(v)) for k, v in (qargs or [])]
    gotq = parse_qsl(rt.query, keep_blank_values=True)
    if gotq != expq:
        bad("query", "query args %r arrive as %r (query string %r)" % (expq, gotq, rt.query))
    for k, v in headers:
        if rt.headers.get(k.lower()) != v:
            bad("headers", "header %s: %r arrives as %r" % (k, v, rt.headers.get(k.lower())))
    if rt.headers.get("host") != "127.0.0.1:8080":
        bad("headers", "Host header is %r" % rt.headers.get("host"))
    body = bytes(rt.body)
    ctype = rt.headers.get("content-type", "")
    if method == "GET" or bkind == "none":
        if body != b"":
            bad("body", "unexpected body %r" % body)
    elif bkind == "bytes":
        if body != bval:
            bad("body", "binary body changed (%d bytes sent, %d parsed)" % (len(bval), len(body)))
    elif bkind == "text":
        if body != bval.encode("iso-8859-1"):
            bad("body", "text body %r arrives as %r" % (bval, body))
    elif bkind == "json":
        try:
            got = json.loads(body.decode("utf-8"))
        except ValueError:
            got = "<undecodable %r>" % body
        if got != bval or not ctype.startswith("application/json"):
            bad("json", "JSON data %r arrives as %r (content-type %r)" % (bval, got, ctype))
    elif bkind == "form":
        exp = [(k, str(v)) for k, v in bval]
        got = parse_qsl(body.decode("utf-8"), keep_blank_values=True)
        if got != exp or not ctype.startswith("application/x-www-form-urlencoded"):
            bad("form", "form args %r arrive as %r (body %r)" % (exp, got, body))
    # ---- WSGI environ consistent with the parsed request
    want = {"REQUEST_METHOD": rt.method, "PATH_INFO": rt.path, "QUERY_STRING": rt.query, "SERVER_PROTOCOL": "HTTP/1.1",
            "CONTENT_LENGTH": str(len(body)), "CONTENT_TYPE": ctype, "SERVER_NAME": "127.0.0.1", "SERVER_PORT": "8080",
            "wsgi.url_scheme": "http", "SCRIPT_NAME": ""}
    for k in sorted(want):
        if env.get(k) != want[k]:
            bad("environ:%s" % k, "environ[%s] = %r, request says %r" % (k, env.get(k), want[k]))
    winput = env.get("wsgi.input")
    if not isinstance(winput, io.BytesIO) or winput.read() != body:
        bad("environ:wsgi.input", "wsgi.input does not deliver the body")
    for k, v in rt.headers.items():
        key = "HTTP_" + k.replace("-", "_").upper()
        if env.get(key) != v:
            bad("environ:HTTP_*", "environ[%s] = %r, header is %r" % (key, env.get(key), v))
    return "ok"


def work_requests(arg):
    method, path = arg
    core.use_repo()
    from ioflo.aio.http import serving
    valet = serving.Valet(app=None, ha=("127.0.0.1", 8080))   # never opened: no socket
    part = core.Part()
    with core.watchdog(900):
        for qargs in qarg_sets():
            for headers in HEADERSETS:
                for bkind, bval in bodies():
                    if qargs and qargs[0][0] == "p" and bkind == "form" and bval[0][0] == "p":
                        continue   # thorough: value pairs are crossed with the basic sets only
                    out = request_case(valet, method, path, qargs, headers, bkind, bval, part)
                    part.evaluations += 1
                    part.nontrivial(show_req(method, path, qargs, headers, bkind, bval))
                    part.outcome("request:%s:%s" % (bkind if method != "GET" else "GET-" + bkind, out))
        part.sample(dict(direction="request", case=show_req(method, path, qarg_sets()[3], HEADERSETS[1], "json", {"a": 1})))
    return part


# --------------------------------------------------------------------------- response direction

STATUSES = ["200 OK", "201 Created", "404 Not Found", "500 Internal Server Error", "299 Custom Reason"]
RHEADERS = [
    [],
    [("Content-Type", "text/plain")],
    [("Content-Type", "application/json"), ("X-Custom", "a: b, c"), ("Set-Cookie", "k=v; Path=/")],
]
BODYKINDS = ["list1", "list3", "empty-list", "gen", "gen-return", "gen-empty", "gen-empty-yield", "write", "binary"]
BODILESS_STATUSES = ["204 No Content", "304 Not Modified", "102 Processing"]     # no body by HTTP rules
EMPTYKINDS = ("empty-list", "gen-empty", "gen-empty-yield")


def bodiless(status, method):
    """HTTP: a response to HEAD and any 1xx / 204 / 304 response carries no body."""
    code = int(status.split(" ")[0])
    return method == "HEAD" or code in (204, 304) or 100 <= code < 200


def make_app(status, headers, kind, declare):
    pieces = {"list1": [b"hello"], "list3": [b"he", b"", b"llo\r\n0\r\n\r\n"], "empty-list": [],
              "gen": [b"a", b"", b"bc"], "gen-return": [b"a", b"z"], "gen-empty": [], "gen-empty-yield": [b""],
              "write": [b"ab", b"cd"],
              "binary": [bytes(range(256))]}[kind]
    body = b"".join(pieces)
    hdrs = list(headers)
    if declare:
        hdrs.append(("Content-Length", str(len(body))))
    if kind in ("list1", "list3", "empty-list", "binary"):
        def app(environ, start):
            start(status, list(hdrs))
            return list(pieces)
    elif kind in ("gen", "gen-empty-yield"):
        def app(environ, start):
            start(status, list(hdrs))
            for p in pieces:
                yield p
    elif kind == "gen-return":
        def app(environ, start):
            start(status, list(hdrs))
            yield pieces[0]
            return pieces[1]
    elif kind == "gen-empty":
        def app(environ, start):
            start(status, list(hdrs))
            return
            yield b""  # pragma: no cover
    elif kind == "write":
        def app(environ, start):
            write = start(status, list(hdrs))
            write(pieces[0])
            return [pieces[1]]
    return app, hdrs, body


ERR_STATUS = [(400, ""), (404, ""), (500, "Custom Failure"), (418, "")]
ERR_HEADERS = [None, {"X-E": "1"}, {"Content-Type": "application/problem", "X-E": "2"}]
ERR_SITES = ["call", "first-next", "after-empty-yield"]


def make_error_app(status, reason, eheaders, site):
    from ioflo.aio.http import httping

    def err():
        return httping.HTTPError(status, reason=reason, title="T", detail="D\xe9", fault=7, headers=eheaders)
    if site == "call":
        def app(environ, start):
            raise err()
    elif site == "first-next":
        def app(environ, start):
            raise err()
            yield b""  # pragma: no cover
    else:
        def app(environ, start):
            start("200 OK", [("Content-Type", "text/html")])
            yield b""
            raise err()
    e = err()
    hdrs = list((eheaders or {}).items())
    return app, "%d %s" % (e.status, e.reason), hdrs, e.render()


def response_case(case, app, status, hdrs, body, chunkable, part, replay, method="GET"):
    from ioflo.aio.http import clienting, serving
    from ioflo.aio.tcp import serving as tcpserving

    def bad(field, what):
        part.violation("response|%s" % field, case, "response %s: %s" % (case, what), replay)

    ix = tcpserving.Incomer(ha=("127.0.0.1", 8080), ca=("127.0.0.1", 50001), cs=None, store=STORE[0])
    environ = {"REQUEST_METHOD": method, "PATH_INFO": "/", "SERVER_PROTOCOL": "HTTP/1.1" if chunkable else "HTTP/1.0"}
    rp = serving.Responder(incomer=ix, app=app, environ=environ, chunkable=chunkable)
    if bodiless(status, method):
        body = b""
    calls = 0
    try:
        while not rp.ended and calls < 20:
            rp.service()
            calls += 1
    except Exception as ex:
        bad("raises:%s|%s" % (type(ex).__name__, innermost(ex)), "Responder.service raised %r instead of sending a response" % ex)
        return "service-raises"
    if not rp.ended:
        bad("never-ends", "Responder not ended after %d service() calls" % calls)
        return "never-ends"
    wire = b"".join(bytes(t) for t in ix.txes)
    replay["wire"] = wire
    delimited = bodiless(status, method) or chunkable or any(k.lower() == "content-length" for k, v in hdrs)
    def deliver(pieces, gaps=None):
        """Fresh Respondent, pieces delivered with parse() after each (+ idle passes) -> list of (field, what)."""
        r = clienting.Respondent(msg=bytearray(), method=method)
        steps, finished, exc, delivered = split.drive(r, pieces, close=not delimited, idle=1, gaps=gaps)
        if exc is not None:
            return [("raises:%s|%s" % (type(exc).__name__, innermost(exc)), "Respondent.parse raised %r on %r" % (exc, wire))]
        if not finished:
            return [("incomplete", "client still waits after the complete response %r" % wire)]
        if r.errored:
            return [("errored", "client rejects the server's response: %s" % r.error)]
        out = []
        code, sep, reason = status.partition(" ")
        if r.status != int(code) or r.reason != reason:
            out.append(("status", "status %r parsed as %r %r" % (status, r.status, r.reason)))
        for k, v in hdrs:
            if r.headers.get(k.lower()) != v:
                out.append(("headers", "header %s: %r parsed as %r" % (k, v, r.headers.get(k.lower()))))
        if bytes(r.body) != body:
            out.append(("body", "body %r parsed as %r (wire %r)" % (body, bytes(r.body), wire)))
        if r.msg:
            out.append(("leftover", "%d bytes %r of the response left in the client's receive buffer (wire %r)"
                        % (len(r.msg), bytes(r.msg[:40]), wire)))
        return out

    problems = deliver([wire])
    for field, what in problems:
        bad(field, what)
    if problems:
        return problems[0][0] if problems[0][0] in ("incomplete", "errored") or problems[0][0].startswith("raises") else "differs"
    # ---- fragmentation: the same wire bytes arrive in two receives, cut at every offset, the parser
    # serviced after each receive, without and with one idle pass in between
    nfrag = 0
    for cut in range(1, len(wire)):
        pieces = [wire[:cut], wire[cut:]]
        for gaps in ((0,), (1,)):
            nfrag += 1
            for field, what in deliver(pieces, gaps):
                part.violation("response-fragmented|%s" % field, "%s cut@%d%s" % (case, cut, " idle 1" if gaps[0] else ""),
                               "response %s delivered as %s: %s" % (case, split.show(pieces, limit=400, gaps=gaps), what),
                               dict(replay, cut=cut, pieces=pieces, idle_passes_between_pieces=list(gaps)))
    part.notes["fragmented deliveries (2 receives, every offset, x idle pass)"] += nfrag
    part.evaluations += nfrag
    return "ok"


STORE = []


def work_responses(arg):
    core.use_repo()
    from ioflo.base import storing
    STORE[:] = [storing.Store(stamp=0.0)]
    part = core.Part()
    with core.watchdog(300):
        if arg[0] == "normal":
            for method, statuses in ((arg[1], [arg[2]]),):
                for status in statuses:
                    for headers in RHEADERS:
                        for kind in BODYKINDS:
                            if status in BODILESS_STATUSES and kind not in EMPTYKINDS:
                                continue     # an application has no business sending a body with 1xx/204/304
                            for declare in (True, False):
                                if status in BODILESS_STATUSES and declare:
                                    continue
                                for chunkable in (True, False):
                                    app, hdrs, body = make_app(status, headers, kind, declare)
                                    case = "%s%s headers=%r body=%s content-length=%s chunkable=%s" % (
                                        "HEAD request -> " if method == "HEAD" else "", status, headers, kind,
                                        "declared" if declare else "absent", chunkable)
                                    out = response_case(case, app, status, hdrs, body, chunkable, part,
                                                        dict(direction="response", request_method=method, status=status, headers=hdrs,
                                                             body_kind=kind, body=body, chunkable=chunkable), method=method)
                                    part.evaluations += 1
                                    part.nontrivial(case)
                                    part.outcome("response:%s%s:%s:%s" % ("HEAD:" if method == "HEAD" else "", kind,
                                                                           "len" if declare else ("chunked" if chunkable else "close"), out))
            part.sample(dict(direction="response", case=case))
        else:
            for site in ERR_SITES:
                for status, reason in ERR_STATUS:
                    for eh in ERR_HEADERS:
                        for chunkable in (True, False):
                            app, st, hdrs, body = make_error_app(status, reason, eh, site)
                            case = "HTTPError(%d%s headers=%r) raised at %s chunkable=%s" % (
                                status, ", reason=%r" % reason if reason else "", eh, site, chunkable)
                            out = response_case(case, app, st, hdrs + [("Content-Length", str(len(body)))], body, chunkable, part,
                                                dict(direction="response", raised="HTTPError", status=status, reason=reason,
                                                     headers=eh, site=site, chunkable=chunkable, expected_body=body))
                            part.evaluations += 1
                            part.nontrivial(case)
                            part.outcome("response:HTTPError@%s:%s" % (site, out))
            part.sample(dict(direction="response", case=case))
    return part



# --------------------------------------------------------------------------- reused Responder: ordered pairs

PAIRKINDS = [          # label, ("app", body kind, Content-Length declared) | ("err", raise site)
    ("fixed", ("app", "list1", True)),
    ("chunked", ("app", "list1", False)),
    ("gen-streamed", ("app", "gen", False)),
    ("gen-fixed", ("app", "gen", True)),
    ("empty", ("app", "empty-list", False)),
    ("empty-fixed", ("app", "empty-list", True)),
    ("stopiteration-value", ("app", "gen-return", False)),
    ("write-callable", ("app", "write", False)),
    ("binary-fixed", ("app", "binary", True)),
    ("204-empty", ("app", "empty-list", False, "204 No Content", "GET")),
    ("204-gen-empty-yield", ("app", "gen-empty-yield", False, "204 No Content", "GET")),
    ("304-empty", ("app", "empty-list", False, "304 Not Modified", "GET")),
    ("304-gen-empty-yield", ("app", "gen-empty-yield", False, "304 Not Modified", "GET")),
    ("102-empty", ("app", "empty-list", False, "102 Processing", "GET")),
    ("head-body", ("app", "list1", False, None, "HEAD")),
    ("head-body-fixed", ("app", "list1", True, None, "HEAD")),
    ("error-at-call", ("err", "call")),
    ("error-at-first-next", ("err", "first-next")),
    ("error-after-empty-yield", ("err", "after-empty-yield")),
]


def pair_member(which, spec):
    """-> (sub app, expected status, expected headers, expected body) for response number `which`."""
    tag = "first" if which == 0 else "second"
    if spec[0] == "app":
        status = "200 OK" if which == 0 else "201 Created"
        method = "GET"
        if len(spec) > 3:
            status, method = spec[3] or status, spec[4]
        app, hdrs, body = make_app(status, [("Content-Type", "text/plain"), ("X-Which", tag)], spec[1], spec[2])
        if bodiless(status, method):
            body = b""
        return app, status, hdrs, body, method
    code, reason = (404, "") if which == 0 else (500, "Custom Failure")
    app, status, hdrs, body = make_error_app(code, reason, {"X-Which": tag}, spec[1])
    return app, status, hdrs + [("Content-Length", str(len(body)))], body, "GET"


def pair_case(case, specs, chunkables, part, replay):
    """One Responder serves two responses, reset between them the way Valet.serviceReqs does on a
    persistent connection; one Respondent parses both, re-armed the way Patron does."""
    import inspect
    from ioflo.aio.http import clienting, serving
    from ioflo.aio.tcp import serving as tcpserving
    members = [pair_member(i, specs[i]) for i in (0, 1)]

    def app(environ, start):       # one application object per connection, dispatching on the request
        return members[environ["verif.which"]][0](environ, start)

    ix = tcpserving.Incomer(ha=("127.0.0.1", 8080), ca=("127.0.0.1", 50001), cs=None, store=STORE[0])
    buf = bytearray()
    r = clienting.Respondent(msg=buf, method="GET")
    rp = None
    for which in (0, 1):
        sub, status, hdrs, body, method = members[which]
        chunkable = chunkables[which]
        tagw = "first" if which == 0 else "second"

        def bad(field, what):
            part.violation("response-reused|%s|%s" % (tagw, field), case,
                           "reused Responder %s, %s response: %s" % (case, tagw, what), replay)

        environ = {"REQUEST_METHOD": method, "PATH_INFO": "/", "verif.which": which,
                   "SERVER_PROTOCOL": "HTTP/1.1" if chunkable else "HTTP/1.0"}
        if rp is None:
            rp = serving.Responder(incomer=ix, app=app, environ=environ, chunkable=chunkable)
        else:
            if "chunkable" in inspect.signature(rp.reset).parameters:
                rp.reset(environ=environ, chunkable=chunkable)      # Valet.serviceReqs, reuse branch
            else:
                rp.reset(environ=environ)
        calls = 0
        try:
            while not rp.ended and calls < 20:
                rp.service()
                calls += 1
        except Exception as ex:
            bad("raises:%s|%s" % (type(ex).__name__, innermost(ex)), "Responder.service raised %r" % ex)
            return "service-raises"
        if not rp.ended:
            bad("never-ends", "Responder not ended after %d service() calls" % calls)
            return "never-ends"
        wire = b"".join(bytes(t) for t in ix.txes)
        ix.txes.clear()
        replay["wire_%s" % tagw] = wire
        delimited = bodiless(status, method) or chunkable or any(k.lower() == "content-length" for k, v in hdrs)
        if which == 1:                       # Patron: makeParser() after a response ...
            r.makeParser()
        r.reinit(method=method)              # ... and reinit(method=...) at every transmit
        steps, finished, exc, delivered = split.drive(r, [wire], close=not delimited, idle=1)
        if exc is not None:
            bad("raises:%s|%s" % (type(exc).__name__, innermost(exc)), "Respondent.parse raised %r on %r" % (exc, wire))
            return "parse-raises"
        if not finished:
            bad("incomplete", "client still waits after the complete response %r" % wire)
            return "incomplete"
        if r.errored:
            bad("errored", "client rejects the response: %s (wire %r)" % (r.error, wire))
            return "errored"
        code, sep, reason = status.partition(" ")
        if r.status != int(code) or r.reason != reason:
            bad("status", "status %r parsed as %r %r" % (status, r.status, r.reason))
        for k, v in hdrs:
            if r.headers.get(k.lower()) != v:
                bad("headers", "header %s: %r parsed as %r" % (k, v, r.headers.get(k.lower())))
        if bytes(r.body) != body:
            bad("body", "body %r parsed as %r (wire %r)" % (body, bytes(r.body), wire))
        if buf:
            bad("leftover", "%d bytes %r left in the client's receive buffer after the response" % (len(buf), bytes(buf[:40])))
            del buf[:]
    return "ok"


def work_pairs(arg):
    core.use_repo()
    from ioflo.base import storing
    STORE[:] = [storing.Store(stamp=0.0)]
    part = core.Part()
    first_label, first_spec = PAIRKINDS[arg]
    with core.watchdog(300):
        for second_label, second_spec in PAIRKINDS:
            for chunkables in ((True, True), (True, False), (False, True), (False, False)):
                first_delimited = (chunkables[0] or first_spec[0] == "err" or first_spec[2] or
                                   (len(first_spec) > 3 and bodiless(first_spec[3] or "200 OK", first_spec[4])))
                if not first_delimited:
                    continue     # an undelimited first response ends the connection: no second response on it
                case = "%s -> %s chunkable=%s,%s" % (first_label, second_label, chunkables[0], chunkables[1])
                out = pair_case(case, (first_spec, second_spec), chunkables, part,
                                dict(direction="response-pair", first=first_label, second=second_label,
                                     chunkable=list(chunkables),
                                     how="one serving.Responder: service() until ended, reset(environ=..., chunkable=...), service() again; "
                                         "one clienting.Respondent: parse, makeParser(), reinit(method='GET'), parse"))
                part.evaluations += 1
                part.nontrivial("pair " + case)
                part.outcome("response-reused:%s:%s" % (second_label, out))
        part.sample(dict(direction="response-pair", case=case))
    return part


# --------------------------------------------------------------------------- one Patron, one connection, switching methods

SEQ_METHODS = ["HEAD", "GET", "POST", "DELETE"]
SEQ_KINDS = {"f": "fixed", "s": "streamed", "e": "error"}       # how the app answers one request
RESOURCE = b"Hello World, this is the body of the resource."
_FSM = []


def request_sequences(first):
    """Every sequence of 1-3 (method, response kind) requests starting with method `first`:
    lengths 1-2 over all three kinds, length 3 over fixed / streamed."""
    import itertools
    out = []
    for n in (1, 2, 3):
        kinds = "fse" if n < 3 else "fs"
        for ms in itertools.product(SEQ_METHODS, repeat=n):
            if ms[0] != first:
                continue
            for ks in itertools.product(kinds, repeat=n):
                out.append(list(zip(ms, ks)))
    return out


def seq_app(environ, start):
    """Answers by the last letter of the path: f = Content-Length, s = streamed (chunked, with an
    empty yield), e = raises HTTPError 404."""
    from ioflo.aio.http import httping
    from urllib.parse import quote
    m, path = environ["REQUEST_METHOD"], environ["PATH_INFO"]
    echo = environ["wsgi.input"].read().decode("latin-1")
    kind = path[-1]
    path = quote(path, safe="/")           # the path the server saw, in ASCII
    extra = [("X-Method", m), ("X-Path", path), ("X-Body", echo)]
    if kind == "e":
        raise httping.HTTPError(404, title="T", detail="D", headers=dict(extra))
    body = m.encode("ascii") + b" " + path.encode("ascii") + b" " + RESOURCE
    if kind == "f":
        start("200 OK", [("Content-Type", "text/plain"), ("Content-Length", str(len(body)))] + extra)
        return [body]
    start("200 OK", [("Content-Type", "text/plain")] + extra)
    return iter([body[:len(m) + 1], b"", body[len(m) + 1:]])


def seq_expected(i, m, k, path=None):
    from urllib.parse import quote
    path = quote(path if path is not None else "/r%d%s" % (i, k), safe="/")
    hdrs = {"x-method": m, "x-path": path, "x-body": "payload-%d" % i if m == "POST" else "", "content-type": "text/plain"}
    if k == "e":
        status, body = (404, "Not Found"), b"404 Not Found\nT\nD\n"
        hdrs["content-length"] = str(len(body))
    else:
        status, body = (200, "OK"), m.encode("ascii") + b" " + path.encode("ascii") + b" " + RESOURCE
        if k == "f":
            hdrs["content-length"] = str(len(body))
    return path, status, hdrs, (b"" if m == "HEAD" else body)


def sequence_case(case, ctor_method, queue, reqs, part, replay, ctor_path=None):
    """Real Patron <-> real Valet over socket doubles, keep-alive, requests issued with Patron.request().
    Every response is checked when delivered, and every delivered response is checked AGAIN after
    the whole sequence (a caller may keep responses while it issues further requests)."""
    from mc import net
    from ioflo.aio.http import clienting, serving
    FSM = _FSM[0]
    fn = net.FakeNet()
    FSM.net = fn
    ck = net.clock()
    valet = serving.Valet(app=seq_app, ha=("", 8090), store=ck)
    if not valet.open():
        raise core.BrokenCheck("Valet.open failed on the fake net")
    kw = dict(hostname="127.0.0.1", port=8090, store=ck)
    if ctor_method is not None:
        kw["method"] = ctor_method
    if ctor_path is not None:
        kw["path"] = ctor_path
    patron = clienting.Patron(**kw)
    patron.open()

    def bad(field, what):
        part.violation("patron-sequence|%s" % field, case, "one Patron, requests %s: %s" % (case, what), replay)

    def spec(i):
        r = reqs[i]
        if len(r) == 2:
            return r[0], r[1], "/r%d%s" % (i, r[1]), "/r%d%s" % (i, r[1])
        return r                       # (method, kind, path argument or None = reuse, path the server must see)

    def issue(i):
        m, k, parg, pexp = spec(i)
        patron.request(method=m, path=parg, body=b"payload-%d" % i if m == "POST" else None)

    def compare(i, rsp, when):
        m, k, parg, pexp = spec(i)
        path, status, hdrs, want = seq_expected(i, m, k, pexp)
        ok = True
        if (rsp["status"], rsp["reason"]) != status:
            bad("status" + when, "request %d (%s %s): status %r %r, app sent %r" % (i + 1, m, path, rsp["status"], rsp["reason"], status))
            ok = False
        for hk in sorted(hdrs):
            if rsp["headers"].get(hk) != hdrs[hk]:
                bad("headers" + when, "request %d (%s %s): header %s is %r, app sent %r" % (i + 1, m, path, hk, rsp["headers"].get(hk), hdrs[hk]))
                ok = False
        if bytes(rsp["body"]) != want:
            bad("body" + when, "request %d (%s %s): body %r, expected %r" % (i + 1, m, path, bytes(rsp["body"]), want))
            ok = False
        return ok

    delivered = []
    if queue == "all-at-once":
        for i in range(len(reqs)):
            issue(i)
    for i in range(len(reqs)):
        m, k = reqs[i][0], reqs[i][1]
        if queue == "one-by-one":
            issue(i)
        rsp = None
        try:
            for _ in range(10):
                patron.serviceAll()
                valet.serviceAll()
                ck.advance(0.05)
                if patron.responses:
                    rsp = patron.responses.popleft()
                    break
        except Exception as ex:
            bad("raises:%s|%s" % (type(ex).__name__, innermost(ex)), "request %d (%s): service loop raised %r" % (i + 1, m, ex))
            return "raises"
        if rsp is None:
            bad("no-response", "request %d (%s) never gets its response (client still parsing: %r buffered)"
                % (i + 1, m, bytes(patron.connector.rxbs[:50])))
            return "no-response"
        if rsp["errored"]:
            bad("errored", "request %d (%s): response errored: %s" % (i + 1, m, rsp["error"]))
            return "errored"
        fine = compare(i, rsp, "")
        delivered.append((rsp, fine))  # the caller keeps the response
        if queue == "one-by-one" or i == len(reqs) - 1:
            if patron.connector.rxbs:
                bad("leftover", "request %d (%s): %d bytes %r left in the client's receive buffer after the response"
                    % (i + 1, m, len(patron.connector.rxbs), bytes(patron.connector.rxbs[:40])))
                return "leftover"
    if patron.responses:
        bad("extra-response", "%d more responses than requests" % len(patron.responses))
    # ---- every response delivered earlier must still say what it said
    for i, (rsp, fine) in enumerate(delivered[:-1]):
        if fine and not compare(i, rsp, "-changed-after-later-response"):
            return "earlier-response-changed"
    return "ok"


def work_sequences(arg):
    ctor_method, queue, first = arg
    core.use_repo()
    from mc import net
    if not _FSM:
        _FSM.append(net.FakeSocketModule().install())
    part = core.Part()
    with core.watchdog(600):
        for reqs in request_sequences(first):
            case = "%s  (Patron(method=%s), requests queued %s)" % (
                " ".join("%s:%s" % (m, SEQ_KINDS[k]) for m, k in reqs), ctor_method or "default GET", queue)
            out = sequence_case(case, ctor_method, queue, reqs, part,
                                dict(direction="patron-sequence", constructor_method=ctor_method, queue=queue,
                                     requests=[dict(method=m, path="/r%d%s" % (i, k), answer=SEQ_KINDS[k]) for i, (m, k) in enumerate(reqs)],
                                     how="Valet(app).open(); Patron(hostname, port[, method]).open(); Patron.request(method=m, path=p); "
                                         "alternate Patron.serviceAll() / Valet.serviceAll() until patron.responses; keep every response and "
                                         "look at all of them again at the end"))
            part.evaluations += 1
            part.nontrivial("seq " + case)
            methods = [m for m, k in reqs]
            switches = sum(1 for a, b in zip([ctor_method or "GET"] + methods, methods) if (a == "HEAD") != (b == "HEAD"))
            part.outcome("patron-sequence:%d-head-switches:%s:%s" % (switches, "".join(k for m, k in reqs)[-2:], out))
        part.sample(dict(direction="patron-sequence", case=case))
    return part


REUSE_PATHS = ["/p/f", "/a b/f", "/caf\xe9/f", "/x,y/f", "/a%20b/f", "/\u6f22/f", "/100%/f"]


def work_path_reuse(arg):
    """Follow-up requests that OMIT the path reuse the Patron's stored path: the server must see the
    client's path for every request (one-by-one issue: Patron.request reads requester.path at call time)."""
    import itertools
    core.use_repo()
    from mc import net
    if not _FSM:
        _FSM.append(net.FakeSocketModule().install())
    part = core.Part()
    for path in REUSE_PATHS:
        for n in (2, 3):
            for methods in itertools.product(("GET", "POST"), repeat=n):
                for where in ("first-request", "constructor"):
                    reqs = [(m, "f", (path if (i == 0 and where == "first-request") else None), path) for i, m in enumerate(methods)]
                    case = "%s  path %r given to the %s, omitted afterwards" % (" ".join(methods), path, where)
                    out = sequence_case(case, None, "one-by-one", reqs, part,
                                        dict(direction="patron-path-reuse", path=path, path_given_to=where, methods=list(methods),
                                             how="Patron(hostname, port[, path=p]).open(); Patron.request(method=m[, path=p]) then "
                                                 "Patron.request(method=m) without path; the app reports PATH_INFO in X-Path"),
                                        ctor_path=path if where == "constructor" else None)
                    part.evaluations += 1
                    part.nontrivial("reuse " + case)
                    part.outcome("patron-path-reuse:%s:%s" % (where, out))
    part.sample(dict(direction="patron-path-reuse", case=case))
    return part


ENV_REQS = {      # name -> (method, path, headers, body)
    "A": ("POST", "/envA?q=1", [("Content-Type", "text/plain"), ("X-Custom", "one")], b"hello"),
    "B": ("GET", "/envB", [], None),
    "C": ("PUT", "/envC", [("X-Other", "two")], b"xy"),
    "D": ("DELETE", "/envD", [("Accept", "*/*"), ("X-Custom", "three")], None),
}


def env_app(environ, start):
    """Reports what the application is shown: every HTTP_* / CONTENT_* variable and the request line variables."""
    shown = sorted((k, v) for k, v in environ.items()
                   if k.startswith("HTTP_") or k.startswith("CONTENT_") or
                   k in ("REQUEST_METHOD", "PATH_INFO", "QUERY_STRING", "SERVER_PROTOCOL"))
    body = json.dumps([shown, environ["wsgi.input"].read().decode("latin-1")]).encode("ascii")
    start("200 OK", [("Content-Type", "application/json"), ("Content-Length", str(len(body)))])
    return [body]


def env_expected(name):
    m, path, headers, body = ENV_REQS[name]
    p, sep, q = path.partition("?")
    e = {"REQUEST_METHOD": m, "PATH_INFO": p, "QUERY_STRING": q, "SERVER_PROTOCOL": "HTTP/1.1",
         "HTTP_HOST": "127.0.0.1:8091", "HTTP_ACCEPT_ENCODING": "identity",
         "CONTENT_TYPE": dict((k.lower(), v) for k, v in headers).get("content-type", ""),
         "CONTENT_LENGTH": str(len(body or b""))}
    if body:
        e["HTTP_CONTENT_LENGTH"] = str(len(body))
    for k, v in headers:
        e["HTTP_" + k.upper().replace("-", "_")] = v
    return sorted(e.items()), (body or b"").decode("latin-1")


PAY_REQS = {      # name -> (method, path, headers, body, data, fargs): one payload kind each, given explicitly
    "J": ("POST", "/payJ", [], None, {"k": "v", "n": 1}, None),
    "F": ("PUT", "/payF", [], None, None, [("f", "a b"), ("g", "x&y")]),
    "R": ("POST", "/payR", [], b"raw-bytes", None, None),
    "N": ("DELETE", "/payN", [], None, None, None),
}
PAY_EXPECTED = {   # name -> (body the server must read, CONTENT_TYPE, CONTENT_LENGTH)
    "J": ('{"k":"v","n":1}', "application/json; charset=utf-8", "15"),
    "F": ("f=a+b&g=x%26y", "application/x-www-form-urlencoded; charset=utf-8", "13"),
    "R": ("raw-bytes", "", "9"),
    "N": ("", "", "0"),
}


def env_run(names, queue, table=None):
    """One Patron, one keep-alive connection to a real Valet: -> list of reported (environ items, body) or an error string."""
    from mc import net
    from ioflo.aio.http import clienting, serving
    from ioflo.aid.odicting import odict
    fn = net.FakeNet()
    _FSM[0].net = fn
    ck = net.clock()
    valet = serving.Valet(app=env_app, ha=("", 8091), store=ck)
    if not valet.open():
        raise core.BrokenCheck("Valet.open failed on the fake net")
    patron = clienting.Patron(hostname="127.0.0.1", port=8091, store=ck)
    patron.open()

    table = table or ENV_REQS

    def issue(name):
        spec = table[name]
        m, path, headers, body = spec[:4]
        data, fargs = (spec[4], spec[5]) if len(spec) > 4 else (None, None)
        if fargs is not None:
            fargs = odict(fargs)
        # Patron.request is differential by design: anything omitted is taken from the previous request,
        # so every request names its own headers and query args explicitly
        # (its docstring: "Body/Data/fargs must be newly provided" - payloads are never carried over)
        patron.request(method=m, path=path, qargs=odict(), headers=odict(headers), body=body, data=data, fargs=fargs)

    out = []
    if queue == "all-at-once":
        for nme in names:
            issue(nme)
    for nme in names:
        if queue == "one-by-one":
            issue(nme)
        rsp = None
        for _ in range(10):
            patron.serviceAll()
            valet.serviceAll()
            ck.advance(0.05)
            if patron.responses:
                rsp = patron.responses.popleft()
                break
        if rsp is None or rsp["errored"] or rsp["status"] != 200:
            return "request %s: no usable response (%r)" % (nme, rsp and (rsp["status"], rsp["error"]))
        try:
            shown, body = json.loads(bytes(rsp["body"]).decode("ascii"))
        except ValueError:
            return "request %s: undecodable report %r" % (nme, bytes(rsp["body"])[:80])
        out.append((sorted((k, v) for k, v in shown), body))
    return out


def work_environ(arg):
    """The WSGI environ of a request must not depend on what was sent earlier on the connection."""
    import itertools
    core.use_repo()
    from mc import net
    if not _FSM:
        _FSM.append(net.FakeSocketModule().install())
    part = core.Part()
    names = sorted(ENV_REQS)
    fresh = {}
    for nme in names:                       # each request as the first request of a fresh connection
        got = env_run([nme], "one-by-one")
        part.evaluations += 1
        if isinstance(got, str):
            raise core.BrokenCheck("environ baseline: " + got)
        fresh[nme] = got[0]
        if got[0] != env_expected(nme):
            part.violation("environ|first-request", nme,
                           "request %s %s as first request of a connection: the app is shown %r, the request says %r"
                           % (ENV_REQS[nme][0], ENV_REQS[nme][1], got[0], env_expected(nme)),
                           dict(direction="environ", requests=[nme], specs={k: list(map(str, v)) for k, v in ENV_REQS.items()}))
    for n in (2, 3):
        for seq in itertools.product(names, repeat=n):
            for queue in ("one-by-one", "all-at-once"):
                case = "%s requests queued %s" % (" ".join("%s(%s)" % (x, ENV_REQS[x][0]) for x in seq), queue)
                got = env_run(list(seq), queue)
                part.evaluations += 1
                part.nontrivial("environ " + case)
                replay = dict(direction="environ", requests=list(seq), queue=queue,
                              specs={k: [v[0], v[1], v[2], v[3]] for k, v in ENV_REQS.items()},
                              how="Valet(app).open(); one Patron; Patron.request(method, path, headers, body) per request; the app "
                                  "returns its HTTP_*/CONTENT_*/request-line environ variables as JSON")
                if isinstance(got, str):
                    part.outcome("environ:broken-exchange")
                    part.violation("environ|no-response", case, "requests %s: %s" % (case, got), replay)
                    continue
                ok = True
                for i, nme in enumerate(seq):
                    if got[i] != fresh[nme]:
                        ok = False
                        extra = sorted(set(map(tuple, got[i][0])) - set(map(tuple, fresh[nme][0])))
                        missing = sorted(set(map(tuple, fresh[nme][0])) - set(map(tuple, got[i][0])))
                        part.violation("environ|depends-on-earlier-requests", case,
                                       "requests %s: request %d (%s %s) reaches the app with an environ that differs from the one the same "
                                       "request gets on a fresh connection: unexpected %r, missing %r"
                                       % (case, i + 1, ENV_REQS[nme][0], ENV_REQS[nme][1], extra, missing), replay)
                part.outcome("environ:%d-requests:%s" % (n, "same-as-fresh" if ok else "differs"))
    part.sample(dict(direction="environ", case=case, shown=got if isinstance(got, str) else got[-1]))
    return part


def work_payloads(arg):
    """Payload kinds on one reused Patron: json data=, form fargs=, raw body=, none - every sequence of 2-3."""
    import itertools
    core.use_repo()
    from mc import net
    if not _FSM:
        _FSM.append(net.FakeSocketModule().install())
    part = core.Part()
    names = ["J", "F", "R", "N"]
    fresh = {}

    def view(report):
        shown, body = report
        d = dict(shown)
        return (body, d.get("CONTENT_TYPE"), d.get("CONTENT_LENGTH"))

    for nme in names:
        got = env_run([nme], "one-by-one", PAY_REQS)
        part.evaluations += 1
        if isinstance(got, str):
            raise core.BrokenCheck("payload baseline: " + got)
        fresh[nme] = got[0]
        if view(got[0]) != PAY_EXPECTED[nme]:
            part.violation("payload|first-request", nme,
                           "request %s %s on a fresh Patron: server reads body / CONTENT_TYPE / CONTENT_LENGTH %r, the request was built from %r"
                           % (PAY_REQS[nme][0], PAY_REQS[nme][1], view(got[0]), PAY_EXPECTED[nme]),
                           dict(direction="payload", requests=[nme]))
    for n in (2, 3):
        for seq in itertools.product(names, repeat=n):
            for queue in ("one-by-one", "all-at-once"):
                kinds = {"J": "json", "F": "form", "R": "raw", "N": "none"}
                case = "%s requests queued %s" % (" ".join("%s:%s" % (PAY_REQS[x][0], kinds[x]) for x in seq), queue)
                got = env_run(list(seq), queue, PAY_REQS)
                part.evaluations += 1
                part.nontrivial("payload " + case)
                replay = dict(direction="payload", requests=list(seq), queue=queue,
                              specs={k: dict(method=v[0], path=v[1], body=v[3], data=v[4], fargs=v[5]) for k, v in PAY_REQS.items()},
                              how="one Patron; Patron.request(method, path, qargs={}, headers={}, body=, data=, fargs=) per request, "
                                  "payload given explicitly every time; the app reports the body it read and CONTENT_*")
                if isinstance(got, str):
                    part.outcome("payload:broken-exchange")
                    part.violation("payload|no-response", case, "requests %s: %s" % (case, got), replay)
                    continue
                ok = True
                for i, nme in enumerate(seq):
                    if got[i] != fresh[nme]:
                        ok = False
                        part.violation("payload|depends-on-earlier-requests", case,
                                       "requests %s: request %d (%s %s) reaches the server with body / CONTENT_TYPE / CONTENT_LENGTH %r; the "
                                       "same request on a fresh Patron gives %r"
                                       % (case, i + 1, PAY_REQS[nme][0], PAY_REQS[nme][1], view(got[i]), view(fresh[nme])), replay)
                part.outcome("payload:%d-requests:%s" % (n, "same-as-fresh" if ok else "differs"))
    part.sample(dict(direction="payload", case=case))
    return part


def work_fragmented_requests(arg):
    """Keep-alive connection to a real Valet played by a raw client socket: the 2nd (and 3rd) request arrives in
    two receives with server passes in between; the app must see every request exactly as sent."""
    core.use_repo()
    from mc import net
    from ioflo.aio.http import clienting, serving
    if not _FSM:
        _FSM.append(net.FakeSocketModule().install())
    part = core.Part()
    first = b"GET /r0f HTTP/1.1\r\nHost: h\r\n\r\n"
    later = [("POST", "/r1f", b"POST /r1f HTTP/1.1\r\nHost: h\r\nContent-Type: text/plain\r\nContent-Length: 9\r\n\r\npayload-1", "payload-1"),
             ("PUT", "/r1s", b"PUT /r1s HTTP/1.1\r\nHost: h\r\nTransfer-Encoding: chunked\r\n\r\n4\r\npayl\r\n5\r\noad-1\r\n0\r\n\r\n", "payload-1"),
             ("GET", "/r1f", b"GET /r1f HTTP/1.1\r\nHost: h\r\nAccept: */*\r\n\r\n", "")]

    def exchange(valet, ck, sock, pieces, passes):
        for i, piece in enumerate(pieces):
            sock.send(piece)
            for _ in range(passes if i < len(pieces) - 1 else 4):
                valet.serviceAll()
                ck.advance(0.05)
        data = b""
        try:
            while True:
                d = sock.recv(65536)
                if not d:
                    break
                data += d
        except OSError:
            pass
        r = clienting.Respondent(msg=bytearray(data), method="GET")
        r.parse()
        if r.parser is not None or r.errored or r.msg:
            return None, data
        return r, data

    for m, path, wire, echo in later:
        for cut in range(1, len(wire)):
            for passes in (1, 2):
                fn = net.FakeNet()
                _FSM[0].net = fn
                ck = net.clock()
                valet = serving.Valet(app=seq_app, ha=("", 8092), store=ck)
                if not valet.open():
                    raise core.BrokenCheck("Valet.open failed")
                sock = fn.socket(name="client")
                sock.connect_ex(("127.0.0.1", 8092))
                case = "GET /r0f then %s %s delivered as %s with %d server pass(es) between the receives" % (
                    m, path, split.show([wire[:cut], wire[cut:]], limit=300), passes)
                replay = dict(direction="fragmented-request", first=first, second=wire, cut=cut, passes_between=passes,
                              how="raw client socket on the fake net -> real Valet(seq_app); Valet.serviceAll() between the receives")
                part.evaluations += 1
                part.nontrivial("fragreq %s %d %d" % (path + m, cut, passes))
                try:
                    r1, raw1 = exchange(valet, ck, sock, [first], 1)
                    r2, raw2 = exchange(valet, ck, sock, [wire[:cut], wire[cut:]], passes)
                except Exception as ex:
                    part.outcome("request-fragmented:raises")
                    part.violation("request-fragmented|raises:%s|%s" % (type(ex).__name__, innermost(ex)), case,
                                   "%s: Valet.serviceAll raised %r" % (case, ex), replay)
                    continue
                if r1 is None or r1.status != 200 or r1.headers.get("x-path") != "/r0f":
                    raise core.BrokenCheck("first whole request not answered: %r" % raw1[:200])
                problem = None
                if r2 is None:
                    problem = ("no-response", "no complete response to the second request (server sent %r)" % raw2[:120])
                elif (r2.status, r2.headers.get("x-method"), r2.headers.get("x-path"), r2.headers.get("x-body")) != (200, m, path, echo):
                    problem = ("wrong-request-seen", "the app saw %r, the client sent %r" % (
                        (r2.status, r2.headers.get("x-method"), r2.headers.get("x-path"), r2.headers.get("x-body")), (200, m, path, echo)))
                part.outcome("request-fragmented:%s" % (problem[0] if problem else "ok"))
                if problem:
                    part.violation("request-fragmented|%s" % problem[0], case, "%s: %s" % (case, problem[1]), replay)
    part.sample(dict(direction="fragmented-request", case=case))
    return part


def work(item):
    if item[0] == "fragreq":
        return work_fragmented_requests(item[1])
    if item[0] == "payload":
        return work_payloads(item[1])
    if item[0] == "environ":
        return work_environ(item[1])
    if item[0] == "reuse":
        return work_path_reuse(item[1])
    if item[0] == "seq":
        return work_sequences(item[1])
    if item[0] == "req":
        return work_requests(item[1])
    if item[0] == "pair":
        return work_pairs(item[1])
    return work_responses(item[1])


def run():
    ck = core.Check("C30", "exploration", META["technique"])
    # the fragmented response shards are the heaviest: dispatch them first
    items = [("rsp", ("normal", m, st)) for m, sts in (("GET", STATUSES + BODILESS_STATUSES), ("HEAD", STATUSES[:2])) for st in sts]
    items += [("rsp", ("errors",))]
    items += [("req", (m, p)) for m in METHODS for p in PATHS]
    items += [("pair", i) for i in range(len(PAIRKINDS))]
    items += [("reuse", 0), ("environ", 0), ("payload", 0), ("fragreq", 0)]
    items += [("seq", (c, q, f)) for c in (None, "HEAD") for q in ("one-by-one", "all-at-once") for f in SEQ_METHODS]
    ck.merge(core.pmap(work, items))
    ck.coverage_extra = dict(request_dimensions=dict(methods=len(METHODS), paths=len(PATHS), qarg_sets=len(qarg_sets()),
                                                     header_sets=len(HEADERSETS), bodies=len(bodies())),
                             response_dimensions=dict(statuses=len(STATUSES) + 1, header_sets=len(RHEADERS), body_kinds=len(BODYKINDS),
                                                      content_length=2, chunkable=2, error_sites=len(ERR_SITES),
                                                      error_statuses=len(ERR_STATUS), error_header_sets=len(ERR_HEADERS)),
                             reused_responder_pairs=dict(response_kinds=[k for k, v in PAIRKINDS], ordered_pairs=len(PAIRKINDS) ** 2,
                                                         chunkable_combinations=4))
    ck.assumptions = [
        "query and form arguments are compared through urllib.parse.parse_qsl(keep_blank_values=True) of QUERY_STRING / the urlencoded body; values are compared as str(value)",
        "GET requests carry no body (Requester.build: 'do not send body on GET'), so the expected server-side body for GET is empty whatever body/data/fargs were given",
        "PATH_INFO is compared with the parser's unquoted unicode path (consistency of the environ with the parsed request), not with the PEP 3333 latin-1 convention",
        "a raised HTTPError must reach the client as status = error.status, reason = error.reason, body = error.render(), headers including error.headers, wherever the application raises it before the head is sent (at call, at the first next(), after an empty yield)",
        "responses without Content-Length on a non-chunkable (HTTP/1.0) exchange are read until close: Respondent.close() after the bytes",
        "reused Responder: the second response is produced after Responder.reset(environ=..., chunkable=...) exactly as Valet.serviceReqs does for "
        "the next request on a persistent connection (chunkable = request is HTTP/1.1); the client Respondent is re-armed with makeParser() and "
        "reinit(method=...) as Patron does; pairs whose first response is not delimited (no Content-Length, not chunkable) are skipped because "
        "that response ends the connection; response bodies are read when each response completes",
        "method sequences: one keep-alive Patron talks to a real Valet over the socket doubles of mc/net.py (natural answers, manual clock); "
        "every sequence of 1-3 requests over HEAD, GET, POST, DELETE, each answered with Content-Length, streamed (chunked) or by a raised "
        "HTTPError (all mixes; length 3: fixed / streamed only), is issued with Patron.request(method=..., path=...), either each after the "
        "previous response or all queued first, on a Patron constructed with the default method or with method='HEAD'; the caller keeps every "
        "response and all of them are compared again after the last one (a delivered response must not change); each response must carry "
        "the app's status, X-Method / X-Path / X-Body (echo of the request body) / Content-Type (and Content-Length) headers and body (empty for HEAD) and leave the receive buffer empty",
        "path reuse: a Patron.request() that omits the path reuses the path of the Patron's previous request (or of its constructor); the "
        "server-side PATH_INFO (reported by the app, quoted, in X-Path and in the body) must equal the client's path for every request; paths "
        "with a space, latin-1 and CJK characters, ',', '%20' and a bare '%'",
        "environ independence: requests with different header sets (POST + body + Content-Type + X-Custom, bare GET, PUT + body + X-Other, DELETE "
        "+ Accept + X-Custom) are sent in every order (2-3 per connection, with repetition) on one keep-alive Patron; the app reports its HTTP_* / "
        "CONTENT_* / request-line variables; each must equal what the same request is shown as the first request of a fresh connection, which in "
        "turn must equal exactly the headers that request carries (+ Host, Accept-Encoding, Content-Length)",
        "payload kinds: Patron.request's docstring says 'Body/Data/fargs must be newly provided', so a request's payload is exactly what that "
        "request names; every sequence of 2-3 requests over {json data=, form fargs=, raw body=, no payload} (non-GET methods, payload, qargs "
        "and headers passed explicitly each time) must reach the server with the same body / CONTENT_TYPE / CONTENT_LENGTH / HTTP_* as the same "
        "request on a fresh Patron",
        "fragmented later request: on a keep-alive connection played by a raw client socket the first request arrives whole, the second "
        "(POST with Content-Length, chunked PUT, GET) arrives in two receives cut at every offset with 1 or 2 Valet.serviceAll() passes in "
        "between; the app must see the second request exactly as sent (method, path, body) and answer it",
        "by HTTP rules a response to HEAD and any 1xx / 204 / 304 response has no body: the body the client must see for those is empty whatever "
        "the application yields, the application's headers (including a Content-Length on a HEAD response) must still arrive, and no byte of "
        "such a response may stay in the client's receive buffer",
        "fragmentation: the bytes the Responder produced are fed to a fresh Respondent as two receives (every offset 1..n-1), parse() after each "
        "receive and optionally one idle parse() in between; the outcome must be the same round trip (status, headers, body, nothing left over); "
        "the reused-Responder pairs and the Patron sequences are delivered unfragmented",
        "auto-added headers (Host, Accept-Encoding, Server, Date, Transfer-Encoding) are not compared except Host",
    ]
    return ck.finish(
        rule="every element of methods x paths x query-arg sets x header sets x bodies (requests) and statuses x header sets x body kinds x "
             "content-length x chunkable plus error sites x error statuses x error headers x chunkable (responses), and every ordered pair of "
             "the 19 response kinds x 4 chunkable combinations on one reused Responder, and every method sequence of length 1-3 over 4 methods x 2 constructors x 2 apps x 2 queueing modes on one "
             "Patron; each combination is a distinct non-trivial case",
        exhaustive=True)


if __name__ == "__main__":
    core.main(run)
