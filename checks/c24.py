"""C24 stream transports deliver queued bytes exactly once and in order.  Engine C (net doubles):
stateless DFS over every send / recv answer sequence within byte and stall bounds."""
META = dict(
    engine="net", level="fault_enumeration",
    technique="stateless DFS over all socket-double answer sequences (send: every count, zero, would-block; "
              "recv: every cut, would-block) for each transport class; no sampling",
    text="For Client, ClientTls, Incomer, IncomerTls (fake TLS socket), the serial Driver over a server double and over "
         "DeviceNb with a fake os, every queue of 1-3 messages of 1-3 distinct bytes (total <= 6 quick / 9 thorough) is "
         "transmitted while the socket double answers each send with every possible count, zero or would-block (TLS: "
         "SSLWantWrite/SSLWantRead); all answer sequences with at most 2 (3) non-progress answers are enumerated. After "
         "every service call the bytes accepted by the double must be a prefix of the queue concatenation, at drain "
         "exactly equal to it, and the real WireLog (buffify) must hold exactly the accepted chunks. The queues are also "
         "handed over as bytearray objects (total <= 3 / 6) and with one bytearray object queued twice in a row; delivery "
         "must still be exact and the caller's objects unchanged afterwards; and with bufsize / .bs = 2, smaller than a "
         "message and than the backlog (total <= 4 / 7), and = 1, so that messages are exact multiples of it (total <= 3 / 6). "
         "Queues containing zero-length messages at every position (messages of 0-2 bytes, total <= 3 / 4) run on all six "
         "transports. Client and ClientTls are also built with caller-supplied containers (txes= / rxbs= empty or already primed) and "
         "driven through the caller's own references. Two connections accepted by one real Server / ServerTls are "
         "driven together (messages queued alternately, every interleaving of their serviceTxes; and: one dies with data "
         "queued, a new one is accepted) with a per-connection oracle. Receive side: a "
         "stream of 1-6 (9) distinct bytes is delivered with every cut and would-block pattern, through serviceReceives "
         "and serviceReceiveOnce with a large and a 2-byte buffer; rxbs must equal the bytes returned so far after every "
         "call and the whole stream at the end; streams that end with the peer closing or resetting, possibly in the same "
         "serviceReceives pass as data, must be complete in rxbs too.",
    note="Trusts that the doubles' answer space (counts 0..len, would-block, arbitrary cuts) covers what a non-blocking "
         "stream socket can answer without error; error answers are C25's subject. Messages longer than 3 bytes and more "
         "than 3 stalls per execution are outside the bound.",
)
import itertools

from mc import core, net

QUICK = dict(tx_total=6, tx_stalls=2, rx_total=6, rx_stalls=2, ba_total=3, smallbs_total=4, bs1_total=3, inject_total=3, empty_total=3, rxend_total=3,
             pairs=(((2,), (2,)), ((1, 2), (2,))), pair_stalls=1)
THOROUGH = dict(tx_total=9, tx_stalls=3, rx_total=9, rx_stalls=3, ba_total=6, smallbs_total=7, bs1_total=6, inject_total=5, empty_total=4, rxend_total=5,
                pairs=(((2,), (2,)), ((1, 2), (2,)), ((3,), (1, 2)), ((2, 1), (1, 2))), pair_stalls=2)
ALPHABET = b"abcdefghijklmnopqrstuvwxyz"
TRANSPORTS = ("Client", "ClientTls", "Incomer", "IncomerTls", "Driver", "DriverDeviceNb")
PORT = 7000

FSM = None
MODS = None
LAST = {}


class OsShim:
    """Stands in for the `os` global of ioflo.aio.serial.serialing: read/write go to a FakeSocket."""

    def __init__(self, real):
        self._real = real
        self.sock = None

    def __getattr__(self, name):
        return getattr(self._real, name)

    def read(self, fd, n):
        try:
            return self.sock.recv(n)
        except BlockingIOError:
            import errno
            raise net.oserror(errno.EAGAIN)

    def write(self, fd, data):
        try:
            return self.sock.send(data)
        except BlockingIOError:
            import errno
            raise net.oserror(errno.EAGAIN)

    def close(self, fd):
        pass


class ServerDouble:
    """The `server=` collaborator of serialing.Driver (same contract as SerialNb / DeviceNb):
    send() returns the count written (0 when it would block), receive() returns bytes or b''."""

    def __init__(self, sock, bs):
        self.sock = sock
        self.bs = bs
        self.opened = True

    def send(self, data):
        try:
            return self.sock.send(data)
        except BlockingIOError:
            return 0

    def receive(self):
        try:
            return self.sock.recv(self.bs)
        except BlockingIOError:
            return b""


def init():
    global FSM, MODS
    if FSM is not None:
        return
    core.use_repo()
    from ioflo.aio.tcp import clienting, serving
    from ioflo.aio.serial import serialing
    from ioflo.aio import wiring
    FSM = net.FakeSocketModule().install()
    shim = OsShim(serialing.os)
    serialing.os = shim
    MODS = dict(clienting=clienting, serving=serving, serialing=serialing, wiring=wiring, shim=shim)


def make(kind, fn, bs, txes=None, rxbs=None):
    """Build the real transport over fresh doubles.  Returns (transport, its FakeSocket, wirelog,
    address the wire log prints)."""
    m = MODS
    ck = net.clock()
    wl = m["wiring"].WireLog(buffify=True)
    wl.reopen()
    FSM.net = fn
    if kind in ("Client", "ClientTls"):
        ls = fn.listen((net.LOOP, PORT))
        if kind == "Client":
            t = m["clienting"].Client(ha=(net.LOOP, PORT), bufsize=bs, wlog=wl, store=ck, txes=txes, rxbs=rxbs)
        else:
            t = m["clienting"].ClientTls(ha=(net.LOOP, PORT), bufsize=bs, wlog=wl, store=ck, txes=txes, rxbs=rxbs,
                                         context=net.FakeSslContext(fn))
        t.reopen()
        if not t.serviceConnect():
            raise core.BrokenCheck("%s did not connect over ideal doubles" % kind)
        ls.accept()
        sock = t.cs.raw if kind == "ClientTls" else t.cs
        return t, sock, wl, t.ha
    a, b = fn.pair((net.LOOP, PORT), (net.LOOP, 50001))
    if kind == "Incomer":
        t = m["serving"].Incomer(ha=a.getsockname(), bs=bs, ca=a.getpeername(), cs=a, wlog=wl, store=ck)
        return t, a, wl, t.ca
    if kind == "IncomerTls":
        t = m["serving"].IncomerTls(ha=a.getsockname(), bs=bs, ca=a.getpeername(), cs=a, wlog=wl, store=ck,
                                    context=net.FakeSslContext(fn))
        return t, a, wl, t.ca
    if kind == "Driver":
        t = m["serialing"].Driver(name="drv", server=ServerDouble(a, bs))
        return t, a, None, None
    if kind == "DriverDeviceNb":
        dev = m["serialing"].DeviceNb(port="/dev/fake", bs=bs)
        dev.fd = 7
        dev.opened = True          # open() needs a tty; everything after it is exercised
        m["shim"].sock = a
        t = m["serialing"].Driver(name="drv", server=dev)
        return t, a, None, None
    raise core.BrokenCheck(kind)


def wire_records(prefix, addr, chunks):
    return b"".join(("%s %s\n" % (prefix, addr)).encode() + c + b"\n" for c in chunks)


def shapes(total):
    out = []
    for n in (1, 2, 3):
        for lens in itertools.product((1, 2, 3), repeat=n):
            if sum(lens) <= total:
                out.append(lens)
    out.sort(key=lambda l: (sum(l), len(l), l))
    return out


def empty_shapes(total):
    """Queues of 1-3 messages of 0-2 bytes that contain at least one EMPTY message."""
    out = []
    for n in (1, 2, 3):
        for lens in itertools.product((0, 1, 2), repeat=n):
            if 0 in lens and sum(lens) <= total:
                out.append(lens)
    out.sort(key=lambda l: (sum(l), len(l), l))
    return out


def messages(lens):
    out, i = [], 0
    for n in lens:
        out.append(ALPHABET[i:i + n])
        i += n
    return out


def stalled(ans):
    return ans == net.BLOCK or ans == net.N(0) or ans[0] == "ssl"


def tx_config(kind, lens, stalls, part, replay=None, form="bytes", bs=8096, inject="own"):
    """All send-answer sequences for one transport and one queue.
    form: "bytes" - every message an immutable bytes object;
          "bytearray" - every message a fresh bytearray the caller keeps a reference to;
          "twice" - the first message is ONE bytearray object queued twice in a row (the caller re-sends its
                    buffer), followed by the remaining messages as fresh bytearrays.
    inject (Client / ClientTls): "own" - the client makes its own .txes and the harness queues with .tx();
          "fresh" - the caller hands an EMPTY deque to the constructor (txes=) and later appends to its own reference;
          "primed" - the caller's deque already holds the first message at construction."""
    msgs = messages(lens)
    if form == "twice":
        msgs = [msgs[0]] + msgs
    total = b"".join(msgs)
    tls = kind.endswith("Tls")
    free = net.Menu(send_partial=True, send_block=True, send_ssl=("want_read",) if tls else ())
    tight = net.Menu(send_partial=True, send_min=1)
    limit = len(total) + stalls + 2

    def run(ch):
        with core.watchdog(20):
            return run1(ch)

    def run1(ch):
        fn = net.FakeNet(chooser=ch)
        given = None
        if inject != "own":
            import collections
            given = collections.deque(msgs[:1] if inject == "primed" else ())
        t, sock, wl, addr = make(kind, fn, bs, txes=given)
        sock.menu = free if stalls else tight
        if form == "bytes":
            queued = list(msgs)
        else:
            queued = [bytearray(mm) for mm in msgs]
            if form == "twice":
                queued[1] = queued[0]            # the same object, queued twice
        if given is None:
            for mm in queued:
                t.tx(mm)
        else:
            for mm in queued[len(given):]:
                given.append(mm)              # through the caller's own reference
        pending = t.txes if given is None else given
        budget = stalls
        calls = 0
        chunks = []
        bad = None
        if given is not None and t.txes is not given:
            bad = ("container-not-used", "the deque handed to the constructor as txes= is not the client's .txes")
        while bad is None and pending and calls < limit:
            mark = len(fn.log)
            before = len(sock.sent)
            try:
                t.serviceTxes()
            except Exception as ex:
                bad = ("raised", "%s: %s" % (type(ex).__name__, ex))
                break
            calls += 1
            for name, op, ans in fn.log[mark:]:
                if op == "send":
                    if stalled(ans):
                        budget -= 1
                    elif ans[0] == "n":
                        pass
            if budget <= 0:
                sock.menu = tight
            sent = bytes(sock.sent)
            if sent != total[:len(sent)]:
                bad = ("not-a-prefix", "accepted %r is not a prefix of %r" % (sent, total))
                break
        sent = bytes(sock.sent)
        if bad is None:
            if pending:
                bad = ("stuck", "queue not drained after %d service calls although every later send "
                                "made progress; accepted %r of %r" % (calls, sent, total))
            elif sent != total:
                bad = ("lost-or-repeated", "queue drained but the socket accepted %r, queued %r" % (sent, total))
        if bad is None and [bytes(q) for q in queued] != msgs:
            bad = ("caller-buffer-changed", "the bytearray objects handed to tx() were %r and are %r after servicing"
                   % (msgs, [bytes(q) for q in queued]))
        answers = [net.show(a) for n_, op, a in fn.log if op == "send"]
        LAST["answers"] = answers
        if bad is None and wl is not None:
            chunks, pos = [], 0
            for n_, op, a in fn.log:
                if op == "send" and a[0] == "n" and a[1] > 0:
                    chunks.append(total[pos:pos + a[1]])
                    pos += a[1]
            want = wire_records("TX", addr, chunks)
            got = wl.getTx()
            if got != want:
                bad = ("wirelog", "wire log holds %r, the socket accepted chunks %r" % (got, chunks))
        part.evaluations += 1
        nst = sum(1 for a in answers if a in ("block", "n:0") or a.startswith("ssl"))
        if ch.deviations():
            part.nontrivial("tx|%s|%r|%s|%d|%s|%s" % (kind, lens, form, bs, inject, ",".join(answers)))
        part.outcome("tx %d stalls, %d sends" % (nst, len(answers)))
        if bad is not None:
            part.violation("%s.serviceTxes|%s" % (kind, bad[0]),
                           "queue=%s%s answers=%s" % ("/".join((mm.decode() or "''") for mm in msgs),
                                                      ("" if form == "bytes" else " (%s)" % form) +
                                                      ("" if bs == 8096 else " bs=%d" % bs) +
                                                      ("" if inject == "own" else " txes=%s" % inject), ",".join(answers)),
                           "%s transmit: %s" % (kind, bad[1]),
                           dict(transport=kind, direction="tx", queue=[mm.decode() for mm in msgs],
                                send_answers=answers, choices=ch.choices, accepted=sent.decode(),
                                case=["tx", kind, list(lens), stalls, form, bs, inject], queued_as=form, bufsize=bs,
                                txes_argument=inject,
                                expected=total.decode(),
                                how="queue the messages with .tx() (form bytearray: as bytearray objects; twice: the "
                                    "first bytearray object is queued two times), call .serviceTxes() repeatedly; the "
                                    "socket double answers the successive send() calls as listed"))
        return bad

    if replay is not None:
        run(core.Chooser(replay))
        return 1
    st = core.dfs(run)
    return st["executions"]


def rx_config(kind, nbytes, bs, once, stalls, part, replay=None, inject="own"):
    """inject (Client / ClientTls): "own" - the client makes its own .rxbs; "fresh" - the caller hands an EMPTY
    bytearray to the constructor (rxbs=) and reads it afterwards; "primed" - it already holds b"zz"."""
    stream = ALPHABET[:nbytes]
    prefix = b"zz" if inject == "primed" else b""
    free = net.Menu(recv_split=True, recv_block=True)
    tight = net.Menu(recv_split=True)
    limit = 2 * nbytes + stalls + 3

    def run(ch):
        with core.watchdog(20):
            return run1(ch)

    def run1(ch):
        fn = net.FakeNet(chooser=ch)
        given = None if inject == "own" else bytearray(prefix)
        t, sock, wl, addr = make(kind, fn, bs, rxbs=given)
        buf = t.rxbs if given is None else given          # the buffer the caller holds
        sock.feed(stream)
        sock.menu = free if stalls else tight
        budget = stalls
        calls = 0
        bad = None
        if given is not None and t.rxbs is not given:
            bad = ("container-not-used", "the bytearray handed to the constructor as rxbs= is not the client's .rxbs")
        while bad is None and len(sock.recvd) < nbytes and calls < limit:
            mark = len(fn.log)
            try:
                if once:
                    t.serviceReceiveOnce()
                else:
                    t.serviceReceives()
            except Exception as ex:
                bad = ("raised", "%s: %s" % (type(ex).__name__, ex))
                break
            calls += 1
            for name, op, ans in fn.log[mark:]:
                if op == "recv" and ans == net.BLOCK and sock.inbox:
                    budget -= 1
            if budget <= 0:
                sock.menu = tight
            if bytes(buf) != prefix + bytes(sock.recvd):
                bad = ("rxbs", "rxbs %r after the socket returned %r" % (bytes(buf), bytes(sock.recvd)))
                break
        answers = [net.show(a) for n_, op, a in fn.log if op == "recv"]
        LAST["answers"] = answers
        if bad is None:
            if len(sock.recvd) < nbytes:
                bad = ("stuck", "only %r of %r taken from the socket in %d service calls"
                       % (bytes(sock.recvd), stream, calls))
            elif bytes(buf) != prefix + stream:
                bad = ("rxbs", "rxbs %r, arrived %r" % (bytes(buf), stream))
        if bad is None and wl is not None:
            chunks, pos = [], 0
            for n_, op, a in fn.log:
                if op == "recv" and a[0] == "n":
                    chunks.append(stream[pos:pos + a[1]])
                    pos += a[1]
            want = wire_records("RX", addr, chunks)
            if wl.getRx() != want:
                bad = ("wirelog", "rx wire log %r, chunks returned %r" % (wl.getRx(), chunks))
        part.evaluations += 1
        if ch.deviations():
            part.nontrivial("rx|%s|%d|%d|%d|%s|%s" % (kind, nbytes, bs, once, inject, ",".join(answers)))
        part.outcome("rx %d chunks, %d blocks" % (sum(1 for a in answers if a.startswith("n:")),
                                                  sum(1 for a in answers if a == "block")))
        if bad is not None:
            meth = "serviceReceiveOnce" if once else "serviceReceives"
            part.violation("%s.%s|%s" % (kind, meth, bad[0]),
                           "stream=%s bs=%d%s answers=%s" % (stream.decode(), bs,
                                                             "" if inject == "own" else " rxbs=%s" % inject, ",".join(answers)),
                           "%s receive: %s" % (kind, bad[1]),
                           dict(transport=kind, direction="rx", stream=stream.decode(), bufsize=bs, method=meth,
                                recv_answers=answers, choices=ch.choices, rxbs=bytes(t.rxbs).decode("latin-1"),
                                case=["rx", kind, nbytes, bs, once, stalls, inject], rxbs_argument=inject,
                                how="peer sends the stream; call the method repeatedly; the socket double answers "
                                    "the successive recv() calls as listed"))
        return bad

    if replay is not None:
        run(core.Chooser(replay))
        return 1
    st = core.dfs(run)
    return st["executions"]


class EndPolicy(net.ChooserPolicy):
    """Like ChooserPolicy, but an idle recv (nothing waiting) takes the errno alternative, not would-block."""

    def decide(self, sock, op, cands):
        if op == "recv" and cands[0] == net.BLOCK and len(cands) > 1:
            return 1
        return net.ChooserPolicy.decide(self, sock, op, cands)


def rxend_config(kind, nbytes, end, part, replay=None):
    """A stream whose last bytes are followed by the end of the connection: the peer closes (recv returns b'')
    or resets (ECONNRESET) - possibly within the SAME serviceReceives pass as data chunks (every cut of the
    stream is enumerated).  Oracle: every byte the socket returned is in .rxbs exactly once, in order; the rx
    wire log agrees; the transport ends up cut off."""
    import errno
    stream = ALPHABET[:nbytes]

    def run(ch):
        with core.watchdog(20):
            return run1(ch)

    def run1(ch):
        fn = net.FakeNet(policy=EndPolicy(ch))
        t, sock, wl, addr = make(kind, fn, 8096)
        sock.feed(stream)
        if end == "close":
            sock.feed_eof()
            sock.menu = net.Menu(recv_split=True)
        else:
            sock.menu = net.Menu(recv_split=True, recv_idle_errnos=(errno.ECONNRESET,))
        bad = None
        calls = 0
        while not t.cutoff and calls < nbytes + 3:
            try:
                t.serviceReceives()
            except Exception as ex:
                bad = ("raised", "%s: %s" % (type(ex).__name__, ex))
                break
            calls += 1
            if bytes(t.rxbs) != bytes(sock.recvd):
                bad = ("rxbs", "rxbs %r after the socket returned %r%s" % (bytes(t.rxbs), bytes(sock.recvd),
                                                                          " and the connection ended" if t.cutoff else ""))
                break
        answers = [net.show(a) for n_, op, a in fn.log if op == "recv"]
        LAST["answers"] = answers
        if bad is None:
            if not t.cutoff:
                bad = ("stuck", "the end of the connection was not noticed in %d service calls" % calls)
            elif bytes(t.rxbs) != stream:
                bad = ("rxbs", "rxbs %r, arrived %r" % (bytes(t.rxbs), stream))
        if bad is None and wl is not None:
            chunks, pos = [], 0
            for n_, op, a in fn.log:
                if op == "recv" and a[0] == "n":
                    chunks.append(stream[pos:pos + a[1]])
                    pos += a[1]
            if wl.getRx() != wire_records("RX", addr, chunks):
                bad = ("wirelog", "rx wire log %r, chunks returned %r" % (wl.getRx(), chunks))
        part.evaluations += 1
        part.nontrivial("rxend|%s|%d|%s|%s" % (kind, nbytes, end, ",".join(answers)))
        part.outcome("rx then %s: %d chunks" % (end, sum(1 for a in answers if a.startswith("n:"))))
        if bad is not None:
            part.violation("%s.serviceReceives|%s" % (kind, bad[0]),
                           "stream=%s then %s answers=%s" % (stream.decode(), end, ",".join(answers)),
                           "%s receive: %s" % (kind, bad[1]),
                           dict(transport=kind, direction="rx", stream=stream.decode(), then=end, method="serviceReceives",
                                recv_answers=answers, choices=ch.choices, rxbs=bytes(t.rxbs).decode("latin-1"),
                                case=["rxend", kind, nbytes, end],
                                how="peer sends the stream and then closes / resets; call serviceReceives() until cut off; "
                                    "the socket double answers the successive recv() calls as listed"))
        return bad

    if replay is not None:
        run(core.Chooser(replay))
        return 1
    return core.dfs(run)["executions"]


def pair_config(kind, lensA, lensB, scenario, stalls, part, replay=None):
    """Two server-side connections created the way Server / ServerTls creates them (serviceConnects).
    scenario "both": both live; messages are queued alternately on A and B; then every interleaving of
      A.serviceTxes() / B.serviceTxes() x every send answer (stall budget shared by both sockets).
    scenario "dead-then-new": A gets its messages queued, (optionally sends part), its peer goes away and the
      server notices the cut off with data still queued; then B connects, gets its messages and is serviced
      through Server.serviceTxesAllIx().
    Oracle per connection: bytes accepted by ITS socket are a prefix of ITS queue, equal at drain; a freshly
    accepted connection starts with an empty transmit queue."""
    S = MODS["serving"]
    a_msgs = messages(lensA)
    b_msgs = [mm.upper() for mm in messages(lensB)]
    a_total, b_total = b"".join(a_msgs), b"".join(b_msgs)
    free = net.Menu(send_partial=True, send_block=True)
    tight = net.Menu(send_partial=True, send_min=1)
    limit = 2 * (len(a_total) + len(b_total)) + stalls + 4

    def run(ch):
        with core.watchdog(20):
            return run1(ch)

    def run1(ch):
        fn = net.FakeNet(chooser=ch)
        FSM.net = fn
        ck = net.clock()
        if kind == "Incomer":
            srv = S.Server(ha=("", PORT), store=ck)
        else:
            srv = S.ServerTls(ha=("", PORT), store=ck, context=net.FakeSslContext(fn))
        srv.reopen()
        created = []
        bad = None
        order = []

        def connect(port):
            c = fn.socket()
            c.bind((net.LOOP, port))
            c.connect_ex((net.LOOP, PORT))
            srv.serviceConnects()
            ix = srv.ixes[(net.LOOP, port)]
            created.append(ix)
            raw = ix.cs.raw if hasattr(ix.cs, "raw") else ix.cs
            return c, ix, raw

        def judge(rawA, rawB):
            sa, sb = bytes(rawA.sent), bytes(rawB.sent) if rawB is not None else b""
            if sa != a_total[:len(sa)]:
                return ("cross-connection", "connection A's socket accepted %r, queued for A: %r (for B: %r)" % (sa, a_total, b_total))
            if sb != b_total[:len(sb)]:
                return ("cross-connection", "connection B's socket accepted %r, queued for B: %r (for A: %r)" % (sb, b_total, a_total))
            return None

        try:
            ca, ixA, rawA = connect(40001)
            rawB = None
            if ixA.txes:
                bad = ("fresh-queue-not-empty", "a newly accepted connection starts with %r in .txes" % (list(ixA.txes),))
                ixA.txes.clear()
            budget = [stalls]

            def service(fnc, socks):
                mark = len(fn.log)
                fnc()
                for name, op, ans in fn.log[mark:]:
                    if op == "send" and stalled(ans):
                        budget[0] -= 1
                if budget[0] <= 0:
                    for sk in socks:
                        sk.menu = tight

            if scenario == "both":
                cb, ixB, rawB = connect(40002)
                if ixB.txes and bad is None:
                    bad = ("fresh-queue-not-empty", "a newly accepted connection starts with %r in .txes" % (list(ixB.txes),))
                    ixB.txes.clear()
                rawA.menu = rawB.menu = free if stalls else tight
                for i in range(max(len(a_msgs), len(b_msgs))):       # interleaved tx()
                    if i < len(a_msgs):
                        ixA.tx(a_msgs[i])
                    if i < len(b_msgs):
                        ixB.tx(b_msgs[i])
                calls = 0
                while bad is None and (len(rawA.sent) < len(a_total) or len(rawB.sent) < len(b_total)) and calls < limit:
                    pending = [i for i, (rw, tot) in enumerate(((rawA, a_total), (rawB, b_total))) if len(rw.sent) < len(tot)]
                    who = pending[0] if len(pending) == 1 else ch.choose(2, "who", calls % 2, 0)
                    order.append("AB"[who])
                    service((ixA, ixB)[who].serviceTxes, (rawA, rawB))
                    calls += 1
                    bad = judge(rawA, rawB)
                if bad is None and (bytes(rawA.sent) != a_total or bytes(rawB.sent) != b_total or ixA.txes or ixB.txes):
                    bad = ("stuck", "after %d service calls A accepted %r of %r, B accepted %r of %r"
                           % (calls, bytes(rawA.sent), a_total, bytes(rawB.sent), b_total))
            else:
                rawA.menu = free if stalls else tight
                for mm in a_msgs:
                    ixA.tx(mm)
                if ch.choose(2, "A serviced once before it dies", 0, 0):
                    order.append("A")
                    service(ixA.serviceTxes, (rawA,))
                ca.close()                                   # the peer goes away
                srv.serviceReceivesAllIx()                   # ... and the server notices: cutoff with data queued
                order.append("A-cutoff")
                if not ixA.cutoff:
                    raise core.BrokenCheck("peer close not noticed")
                sentA = bytes(rawA.sent)
                cb, ixB, rawB = connect(40002)
                if ixB.txes and bad is None:
                    bad = ("fresh-queue-not-empty", "a connection accepted after another one died with data queued "
                                                    "starts with %r in .txes" % (list(ixB.txes),))
                    ixB.txes.clear()
                rawB.menu = free if budget[0] > 0 else tight
                for mm in b_msgs:
                    ixB.tx(mm)
                calls = 0
                while bad is None and len(rawB.sent) < len(b_total) and calls < limit:
                    order.append("all")
                    service(srv.serviceTxesAllIx, (rawB,))
                    calls += 1
                    bad = judge(rawA, rawB)
                    if bad is None and bytes(rawA.sent) != sentA:
                        bad = ("sent-after-cutoff", "the cut off connection's socket accepted more bytes: %r -> %r"
                               % (sentA, bytes(rawA.sent)))
                if bad is None and (bytes(rawB.sent) != b_total or ixB.txes):
                    bad = ("stuck", "after %d service calls B accepted %r of %r" % (calls, bytes(rawB.sent), b_total))
        except core.BrokenCheck:
            raise
        except Exception as ex:
            bad = ("raised", "%s: %s" % (type(ex).__name__, ex))
        finally:
            for ix in created:           # nothing may leak into the next execution through a shared object
                ix.txes.clear()
        answers = [net.show(a) for n_, op, a in fn.log if op == "send"]
        LAST["answers"] = answers
        part.evaluations += 1
        if ch.deviations():
            part.nontrivial("pair|%s|%s|%r|%r|%s|%s" % (kind, scenario, lensA, lensB, "".join(order), ",".join(answers)))
        part.outcome("two connections (%s): %s" % (scenario, "ok" if bad is None else bad[0]))
        if bad is not None:
            part.violation("%s.two-connections|%s" % (kind, bad[0]),
                           "%s A=%s B=%s order=%s answers=%s" % (scenario, "/".join(m.decode() for m in a_msgs),
                                                                "/".join(m.decode() for m in b_msgs),
                                                                ",".join(order) or "-", ",".join(answers) or "-"),
                           "%s, two connections accepted by %s (%s): %s" % (kind, "Server" if kind == "Incomer" else "ServerTls",
                                                                            scenario, bad[1]),
                           dict(transport=kind, scenario=scenario, queue_A=[m.decode() for m in a_msgs],
                                queue_B=[m.decode() for m in b_msgs], service_order=order, send_answers=answers,
                                choices=ch.choices, case=["pair", kind, list(lensA), list(lensB), scenario, stalls],
                                how="Server/ServerTls over doubles; two raw clients connect (serviceConnects); tx() the "
                                    "messages on the two Incomers; service as listed; the doubles answer send() as listed"))
        return bad

    if replay is not None:
        run(core.Chooser(replay))
        return 1
    try:
        st = core.dfs(run)
    except core.Nondeterminism:
        if part.violations:          # state leaking between executions is itself the violation already recorded
            return part.evaluations
        raise
    return st["executions"]


def finish_replay(pid, path, p):
    """Common tail of --replay: report whether the recorded case still violates the property."""
    if p.violations:
        for group, example, what, _ in p.violations:
            print("VIOLATION property=%s replay=%s" % (pid, path))
            print("  what: %s" % what)
            print("  key:  %s|%s" % (group, example))
        return 1
    print("%s replay: the recorded case does not violate the property on this tree" % pid)
    return 0


def configs(tier):
    b = THOROUGH if tier == "thorough" else QUICK
    out = []
    for lens in shapes(b["tx_total"]):
        for kind in TRANSPORTS:
            out.append(("tx", kind, lens, b["tx_stalls"], "bytes"))
            if sum(lens) <= b["ba_total"]:
                out.append(("tx", kind, lens, b["tx_stalls"], "bytearray"))
            if sum(lens) <= b["smallbs_total"]:       # buffer size smaller than a message / than the backlog
                out.append(("tx", kind, lens, b["tx_stalls"], "bytes", 2))
            if sum(lens) <= b["bs1_total"]:           # bufsize 1: message lengths 2 and 3 are exact multiples >= 2*bs
                out.append(("tx", kind, lens, b["tx_stalls"], "bytes", 1))
    for lens in ((1,), (2,), (3,), (2, 1), (3, 1)):       # first message queued twice as one object, then the rest
        for kind in TRANSPORTS:
            out.append(("tx", kind, lens, b["tx_stalls"], "twice"))
    for lens in empty_shapes(b["empty_total"]):          # zero-length messages at every queue position
        for kind in TRANSPORTS:
            out.append(("tx", kind, lens, b["tx_stalls"], "bytes"))
    for kind in ("Client", "ClientTls"):         # caller-supplied containers (txes= / rxbs= constructor arguments)
        for inject in ("fresh", "primed"):
            for lens in shapes(b["inject_total"]):
                out.append(("tx", kind, lens, b["tx_stalls"], "bytes", 8096, inject))
            for nbytes in range(1, b["inject_total"] + 1):
                for once in (0, 1):
                    out.append(("rx", kind, nbytes, 8096, once, b["rx_stalls"], inject))
    for kind in ("Client", "ClientTls", "Incomer", "IncomerTls"):     # data followed by close / reset, also in one pass
        for nbytes in range(1, b["rxend_total"] + 1):
            for end in ("close", "reset"):
                out.append(("rxend", kind, nbytes, end))
    for kind in ("Incomer", "IncomerTls"):       # two connections of one Server / ServerTls
        for la, lb in b["pairs"]:
            out.append(("pair", kind, la, lb, "both", b["pair_stalls"]))
            out.append(("pair", kind, la, lb, "dead-then-new", b["pair_stalls"]))
    for nbytes in range(1, b["rx_total"] + 1):
        for bs in (8096, 2):
            for once in (0, 1):
                for kind in TRANSPORTS:
                    out.append(("rx", kind, nbytes, bs, once, b["rx_stalls"]))
    return out


def work(cfg):
    init()
    p = core.Part()
    if cfg[0] == "tx":
        _, kind, lens, stalls, form = cfg[:5]
        n = tx_config(kind, lens, stalls, p, form=form, bs=(cfg[5] if len(cfg) > 5 else 8096),
                      inject=(cfg[6] if len(cfg) > 6 else "own"))
    elif cfg[0] == "rxend":
        n = rxend_config(cfg[1], cfg[2], cfg[3], p)
    elif cfg[0] == "pair":
        n = pair_config(cfg[1], cfg[2], cfg[3], cfg[4], cfg[5], p)
        if cfg[2] == (1, 2) and cfg[1] == "Incomer":
            p.sample(dict(config=cfg, executions=n, last_execution_answers=LAST.get("answers")))
    else:
        _, kind, nbytes, bs, once, stalls = cfg[:6]
        n = rx_config(kind, nbytes, bs, once, stalls, p, inject=(cfg[6] if len(cfg) > 6 else "own"))
    p.notes["%s executions" % cfg[0]] += n
    p.notes["configs"] += 1
    if n > 1 and cfg[0] not in ("pair", "rxend") and cfg[1] in ("Client", "IncomerTls") and cfg[2] in ((2, 1), 3) and (len(cfg) < 5 or (cfg[4] != "bytearray" and len(cfg) == 5)):
        p.sample(dict(config=cfg, executions=n, last_execution_answers=LAST.get("answers")))
    return p


def replay(path):
    import json
    r = json.load(open(path))["replay"]
    init()
    p = core.Part()
    c = r["case"]
    if c[0] == "rxend":
        rxend_config(c[1], c[2], c[3], p, replay=r["choices"])
    elif c[0] == "pair":
        pair_config(c[1], tuple(c[2]), tuple(c[3]), c[4], c[5], p, replay=r["choices"])
    elif c[0] == "tx":
        tx_config(c[1], tuple(c[2]), c[3], p, replay=r["choices"], form=(c[4] if len(c) > 4 else "bytes"),
                  bs=(c[5] if len(c) > 5 else 8096), inject=(c[6] if len(c) > 6 else "own"))
    else:
        rx_config(c[1], c[2], c[3], c[4], c[5], p, replay=r["choices"], inject=(c[6] if len(c) > 6 else "own"))
    return finish_replay("C24", path, p)


def run():
    import os
    if os.environ.get("VERIF_REPLAY"):
        return replay(os.environ["VERIF_REPLAY"])
    net.selftest()
    ck = core.Check("C24", META["level"], META["technique"])
    cfgs = configs(core.TIER)
    # big configurations first so the pool stays busy; merge in the simplest-first order
    order = sorted(range(len(cfgs)), key=lambda i: -(sum(cfgs[i][2]) if cfgs[i][0] == "tx" else
                                                      (20 if cfgs[i][0] == "pair" else (cfgs[i][2] if cfgs[i][0] == "rx" else 1))))
    parts = core.pmap(work, [cfgs[i] for i in order])
    byidx = dict(zip(order, parts))
    ck.merge([byidx[i] for i in range(len(cfgs))])
    b = THOROUGH if core.TIER == "thorough" else QUICK
    ck.assumptions = [
        "a non-blocking stream socket answers send(data) with a count 0..len(data) or would-block and recv(n) with a "
        "non-empty prefix of the arrived bytes or would-block; TLS sockets raise SSLWantWrite/SSLWantRead instead",
        "would-block on recv while bytes are queued in the double models bytes still in flight",
        "the serial Driver sees its device only through server.send()/receive(); DeviceNb is driven through a fake os "
        "module with .fd set by hand because DeviceNb.open() needs a tty",
        "containers handed to the Client / ClientTls constructor (txes=, rxbs=) are used as the client's queue / buffer "
        "whether or not they are empty at that moment",
        "data handed to tx() stays the caller's: a bytearray passed in is not modified by servicing, and an object queued "
        "twice counts as two messages with the content it had when queued",
        "after the stall budget is used up every further send makes progress, so a queue that is not drained within "
        "len+stalls+2 service calls is reported as stuck",
    ]
    ck.coverage_extra = dict(bounds=b, transports=list(TRANSPORTS), configurations=len(cfgs))
    return ck.finish(
        rule="per transport class: every queue of 1-3 messages of 1-3 bytes with total <= %(tx_total)d x every sequence of "
             "send answers (each count len..0, would-block, TLS want-read) with <= %(tx_stalls)d non-progress answers, "
             "messages as bytes, as bytearrays (total <= %(ba_total)d), with the first bytearray object queued twice, and as bytes "
             "with bufsize 2 (total <= %(smallbs_total)d) and bufsize 1 (total <= %(bs1_total)d); two Incomers / IncomerTls of one server, both live under every "
             "service interleaving and dead-then-new; every "
             "stream of 1..%(rx_total)d bytes x bufsize {8096,2} x {serviceReceives, serviceReceiveOnce} x every sequence "
             "of recv answers (each cut, would-block) with <= %(rx_stalls)d would-blocks; non-trivial = at least one "
             "non-default answer" % b,
        exhaustive=True)


if __name__ == "__main__":
    core.main(run)
