"""C09 Auxiliary framers live exactly as long as their main frame.
Engine A: plain-auxiliary program family x BFS over env-input histories on the real Builder/Skedder; lifetime and
bracketing monitors + full event/done-flag comparison with the reference interpreter."""
META = dict(
    engine="flo", level="model_checking",
    technique="explicit-state BFS over env-input histories of enumerated FloScript programs with plain auxiliaries on the real Builder/Skedder; aux lifetime invariants + reference interpreter conformance",
    text="Main framer f0>{f1,f2}, f3 with every assignment of plain auxiliaries {none,x,y} to its four frames (same original in siblings, in parent and "
         "child, in unrelated frames), x completing after one run / never / immediately, transitions on env bits and on `aux x is done`, "
         "`any is done`, `all in frame f0 is done`, `x is done`, plus `done x` issued by the main framer, explored through every reachable "
         "(state x env input). Monitors: aux entered at its first frame right after its main frame's enter actions, fully exited before the main "
         "frame's exit actions, never entered twice; and the complete per-tick event sequence (aux segue before main transitions, aux recur right "
         "after its main frame's recur) and every framer's done flag / active frame equal the reference interpreter's.",
    note="Reference interpreter mc/flo/ref.py (DESIGN appendix A); env bits only change at tick start.",
)
from mc import core
from mc.flo import runner


def family():
    from mc.flo import families as F
    yield from F.fam_plain_aux(quick=(core.TIER == "quick"))
    for label, prog, meta in F.fam_cond_two_plain():
        if core.TIER != "quick" or label.split("/")[1] in ("repeat1-never", "repeat1-repeat2", "now-never", "repeat2-repeat1"):
            yield label, prog, meta


def on_prog(p, idx, label, prog, meta):
    from mc.flo import monitors
    def brk(prog, rr, envf):
        return [q for q in monitors.mon_bracket(prog, rr)]
    def life(prog, rr, envf):
        return monitors.mon_aux_lifetime(prog, rr)
    runner.explore_and_check(p, idx, label, prog, mons=(brk, life), cmp=runner.cmp_full(fields=(0, 1, 3, 4, 5, 8)), depth=12,
                             outcome=lambda rr: "|".join("%s:%s:%s" % (f[0], f[3], f[4]) for f in rr.ticks[-1]["framers"]) if rr.ticks else "none")


def run():
    ck = core.Check("C09", "model_checking", META["technique"])
    runner.run_family(ck, family, on_prog)
    ck.assumptions = ["reference interpreter mc/flo/ref.py (DESIGN appendix A)", "recorders on enter/exit/recur of every frame incl. aux frames"]
    return ck.finish(rule="program = aux slot assignment x aux kind x transition variant (+ done verb variants); state = canonical snapshot "
                          "of all framers incl. auxes; transition = one tick with one of 4 env inputs (+ stop tick)", exhaustive=True)


if __name__ == "__main__":
    core.main(run)
