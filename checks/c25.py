"""C25 transport errors are classified: connection loss cuts off, would-block changes nothing, others raise.
Engine C (net doubles): complete fault grid errno.errorcode x operation x transport class."""
META = dict(
    engine="net", level="fault_enumeration",
    technique="complete enumeration of the errno table (and the TLS error kinds) x socket operation x entry point x "
              "transport class against the classification table of the statement; faults injected by socket doubles",
    text="Every errno in errno.errorcode (130 on Linux) is raised as a real OSError, and every TLS error kind (SSLWantRead, "
         "SSLWantWrite, SSLEOFError, SSLZeroReturnError, SSLSyscallError, SSLError, certificate error) as the real ssl "
         "exception, from send and recv of Client, ClientTls, Incomer and IncomerTls - called directly, through "
         "serviceTxes/serviceReceives/serviceReceiveOnce, and after one successful transfer in the same service call (Client and "
         "ClientTls also built reconnectable=True; the direct and after-transfer entries again with ioflo's console at profuse verbosity and payloads that are not UTF-8); every "
         "errno is also returned (and raised) by connect_ex for both client classes, raised by do_handshake for both TLS "
         "classes, and raised by sendto/recvfrom under a real UdpStack + SocketUdpNb, with console verbosity {0, profuse} x payload {ASCII, not "
         "valid UTF-8}, and for sendto through serviceTxPkts and serviceTxPktsOnce with queues of 2-3 packets to the same / "
         "different destinations, and for recvfrom with 2 and 3 consecutive transient errnos (all ordered pairs, 16 triples). Oracle = the statement's table: "
         "loss set (ECONNRESET, ENETRESET, ENETUNREACH, EHOSTUNREACH, ENETDOWN, EHOSTDOWN, ETIMEDOUT, ECONNREFUSED, TLS EOF) "
         "=> cutoff set, 0 / b'' returned, nothing raised; would-block => nothing raised and connection state unchanged; "
         "anything else => the same exception propagates; datagram stack: a loss-set errno on send keeps the packet for a "
         "later pass (delivered exactly once then) and on receive is swallowed without losing later datagrams.",
    note="Trusts the doubles to raise what a Linux socket raises (real OSError/ssl.SSLError subclasses with args[0]==errno). "
         "Handshake failures other than want-read/write are only required to propagate (ioflo documents 'should give up "
         "here nicely'); plain OSErrors whose number coincides with SSL_ERROR_WANT_READ/WRITE/EOF (ENOENT, ESRCH, ENOEXEC) "
         "are not judged on TLS sockets.",
)
import errno
import ssl

from mc import core, net

PORT = 7000
LOSS = frozenset(net.LOSS_ERRNOS)
BLOCKS = frozenset(net.BLOCK_ERRNOS)
SSL_COLLIDE = frozenset(int(x) for x in (ssl.SSL_ERROR_WANT_READ, ssl.SSL_ERROR_WANT_WRITE, ssl.SSL_ERROR_EOF))
SSL_KINDS = ("want_read", "want_write", "eof", "zero_return", "syscall", "error", "cert")
STREAMS = ("Client", "ClientTls", "Incomer", "IncomerTls")
CONNECT_PENDING = frozenset((errno.EINPROGRESS, errno.EALREADY, errno.EAGAIN, errno.EWOULDBLOCK, errno.EINTR))

FSM = None
M = None


def init():
    global FSM, M
    if FSM is not None:
        return
    core.use_repo()
    from ioflo.aio.tcp import clienting, serving
    from ioflo.aio.proto import stacking, packeting
    FSM = net.FakeSocketModule().install()
    M = dict(clienting=clienting, serving=serving, stacking=stacking, packeting=packeting)


class NullFile:
    """Sink for ioflo's console while it runs at profuse verbosity."""
    name = "<null>"
    closed = False

    def write(self, msg):
        return len(msg)

    def flush(self):
        pass


def set_loud(loud):
    """loud: console verbosity profuse (ioflo then formats payload dumps on every send / receive / error path),
    output discarded; else verbosity 0."""
    from ioflo.aid.consoling import getConsole
    con = getConsole()
    if not isinstance(con._file, NullFile):
        con._file = NullFile()
    con.reinit(verbosity=con.Wordage.profuse if loud else 0)


def faults(tls):
    out = [net.SSL(k) for k in SSL_KINDS] if tls else []
    out += [net.ERR(e) for e in net.ALL_ERRNOS]
    return out


def classify(fault, tls):
    """Expected class of a send/recv fault per the statement."""
    if fault[0] == "ssl":
        if fault[1] in ("want_read", "want_write"):
            return "block"
        if fault[1] == "eof":
            return "loss"
        return "other"
    e = fault[1]
    if e in LOSS:
        return "loss"
    if tls:
        if e in BLOCKS:
            return "block-or-raise"     # a non-blocking TLS socket never raises EAGAIN; either reading accepted
        if e in SSL_COLLIDE:
            return "unjudged"
        return "other"
    if e in BLOCKS:
        return "block"
    return "other"


def make_stream(kind, fn, reconnectable=False):
    ck = net.clock()
    FSM.net = fn
    if kind in ("Client", "ClientTls"):
        ls = fn.listen((net.LOOP, PORT))
        if kind == "Client":
            t = M["clienting"].Client(ha=(net.LOOP, PORT), store=ck, reconnectable=reconnectable)
        else:
            t = M["clienting"].ClientTls(ha=(net.LOOP, PORT), store=ck, context=net.FakeSslContext(fn),
                                         reconnectable=reconnectable)
        t.reopen()
        if not t.serviceConnect():
            raise core.BrokenCheck("%s did not connect over ideal doubles" % kind)
        ls.accept()
        return t, (t.cs.raw if kind == "ClientTls" else t.cs)
    a, b = fn.pair((net.LOOP, PORT), (net.LOOP, 50001))
    if kind == "Incomer":
        t = M["serving"].Incomer(ha=a.getsockname(), bs=8096, ca=a.getpeername(), cs=a, store=ck)
    else:
        t = M["serving"].IncomerTls(ha=a.getsockname(), bs=8096, ca=a.getpeername(), cs=a, store=ck,
                                    context=net.FakeSslContext(fn))
        t.serviceHandshake()
    return t, a


def snap(t, raw):
    return (t.cutoff, getattr(t, "connected", None), getattr(t, "accepted", None),
            (t.cs.raw if hasattr(t.cs, "raw") else t.cs) is raw, raw.closed, raw.shut_rd, raw.shut_wr,
            bytes(t.rxbs), tuple(bytes(x) for x in t.txes))


def same_exc(ex, fault):
    if fault[0] == "ssl":
        cls, num, _ = net.SSL_KINDS[fault[1]]
        return type(ex) is cls and ex.args[0] == int(num)
    return isinstance(ex, OSError) and not isinstance(ex, ssl.SSLError) and ex.args[0] == fault[1]


def stream_case(kind, op, entry, fault, p, loud=False, reconnectable=False):
    set_loud(loud)
    one, two = (b"\xffne", b"tw\xfe") if loud else (b"one", b"two")     # loud: payloads that are not valid UTF-8
    tls = kind.endswith("Tls")
    fn = net.FakeNet()
    t, raw = make_stream(kind, fn, reconnectable)
    want = classify(fault, tls)
    progress = b""
    if op == "send":
        if entry == "after-progress":
            t.tx(one)
            t.tx(two)
            raw.force("send", net.N(3), fault)
            progress = one
        else:
            raw.force("send", fault)
            if entry != "direct":
                t.tx(one)
    else:
        if entry == "after-progress":
            raw.feed(one + two)
            raw.force("recv", net.N(3), fault)
            progress = one
        else:
            raw.force("recv", fault)
    before = snap(t, raw)
    ret = raised = None
    try:
        if op == "send":
            ret = t.send(one) if entry == "direct" else t.serviceTxes()
        else:
            if entry == "direct":
                ret = t.receive()
            elif entry == "once":
                ret = t.serviceReceiveOnce()
            else:
                ret = t.serviceReceives()
    except Exception as ex:
        raised = ex
    after = snap(t, raw)
    if raised is not None:
        got = "raised" if same_exc(raised, fault) else "raised-other(%s)" % type(raised).__name__
    elif after[0] and not before[0]:
        got = "cutoff"
    elif (after[:7] == before[:7]):
        got = "unchanged"
    else:
        got = "changed"
    p.evaluations += 1
    p.outcome("%s %s" % (want, got))
    p.nontrivial("%s|%s|%s|%s|%d|%d" % (kind, op, entry, net.show(fault), loud, reconnectable))
    ok = True
    why = ""
    if want == "loss":
        ok = got == "cutoff"
        if ok and entry == "direct":
            ok = (ret == 0 and ret is not None) if op == "send" else (ret == b"" and ret is not None)
            why = "returned %r" % (ret,)
            if not ok:
                got += "+returned-%r" % (ret,)
    elif want == "block":
        ok = got == "unchanged"
        if ok and entry == "direct":
            ok = (ret == 0 and ret is not None and ret is not False) if op == "send" else ret is None
            why = "returned %r" % (ret,)
            if not ok:
                got += "+returned-%r" % (ret,)
        if ok and op == "send" and entry == "service":
            ok = after[8] == (one,)
            why = "queue %r" % (after[8],)
    elif want == "block-or-raise":
        ok = got in ("unchanged", "raised")
    elif want == "other":
        ok = got == "raised"
    elif want == "unjudged":
        p.notes["TLS socket, plain OSError numerically equal to an SSL_ERROR_* code: not judged"] += 1
    if ok and progress and want != "unjudged":
        # what was transferred before the fault must have been kept
        if op == "send":
            ok = bytes(raw.sent) == progress
            why = "accepted %r" % bytes(raw.sent)
        else:
            ok = bytes(t.rxbs) == progress
            why = "rxbs %r" % bytes(t.rxbs)
    if not ok:
        meth = dict(direct=dict(send="send", recv="receive")[op], service=dict(send="serviceTxes", recv="serviceReceives")[op],
                    once="serviceReceiveOnce")
        meth["after-progress"] = meth["service"]
        p.violation("%s.%s|%s->%s" % (kind, op, want, got),
                    "fault=%s entry=%s%s" % (net.show(fault), entry, (" console=profuse payload=non-utf8" if loud else "") +
                                                  (" reconnectable" if reconnectable else "")),
                    "%s: socket %s raising %s inside %s() must be handled as '%s' but was '%s' %s"
                    % (kind, op, net.show(fault), meth[entry], want, got, why),
                    dict(case=["stream", kind, op, entry, list(fault), loud, reconnectable], console_profuse=loud,
                         reconnectable=reconnectable,
                         transport=kind, socket_op=op, method=meth[entry], fault=net.show(fault), expected=want,
                         observed=got, returned=repr(ret), raised=repr(raised), before=before, after=after,
                         how="connect the transport over doubles, make the next %s() of its socket raise the fault, "
                             "call the method" % op))


def connect_case(kind, mode, e, p):
    """connect_ex returning errno e (mode 'rc') or raising OSError(e) (mode 'raise')."""
    fn = net.FakeNet()
    FSM.net = fn
    ck = net.clock()
    fn.listen((net.LOOP, PORT))
    if kind == "Client":
        t = M["clienting"].Client(ha=(net.LOOP, PORT), store=ck)
    else:
        t = M["clienting"].ClientTls(ha=(net.LOOP, PORT), store=ck, context=net.FakeSslContext(fn))
    t.reopen()
    raw = t.cs
    raw.force("connect_ex", net.RC(e) if mode == "rc" else net.ERR(e))
    nsock = len(fn.sockets)
    ret = raised = None
    try:
        ret = t.connect()
    except Exception as ex:
        raised = ex
    p.evaluations += 1
    p.nontrivial("%s|connect|%s|%d" % (kind, mode, e))
    name = errno.errorcode.get(e, str(e)) if e else "0"
    if mode == "raise":
        want = "raised"
        got = "raised" if (raised is not None and isinstance(raised, OSError) and raised.args[0] == e) else \
            ("returned %r" % (ret,) if raised is None else "raised-other(%s)" % type(raised).__name__)
        ok = got == "raised"
    elif e in (0, errno.EISCONN):
        want = "connected"
        got = "raised" if raised is not None else ("connected" if (ret and t.connected) else "not-connected")
        ok = got == "connected" and not t.cutoff and t.ca == raw.getsockname() and t.ha == raw.getpeername()
    else:
        want = "pending-unchanged" if e in CONNECT_PENDING else "not-connected"
        if raised is not None:
            got = "raised"
        elif ret or t.connected or t.accepted:
            got = "connected"
        elif e in CONNECT_PENDING and (t.cs is not raw or raw.closed or len(fn.sockets) != nsock):
            got = "socket-replaced"
        else:
            got = want
        ok = got == want
    p.outcome("connect %s %s" % (want, got))
    if not ok:
        p.violation("%s.connect_ex|%s|%s->%s" % (kind, mode, want, got), "errno=%s" % name,
                    "%s.connect(): connect_ex %s %s must give '%s' but gave '%s'"
                    % (kind, "returning" if mode == "rc" else "raising", name, want, got),
                    dict(case=["connect", kind, mode, e],
                         transport=kind, mode=mode, errno=name, expected=want, observed=got, returned=repr(ret),
                         raised=repr(raised)))


def handshake_case(kind, fault, p):
    fn = net.FakeNet()
    FSM.net = fn
    ck = net.clock()
    if kind == "ClientTls":
        fn.listen((net.LOOP, PORT))
        t = M["clienting"].ClientTls(ha=(net.LOOP, PORT), store=ck, context=net.FakeSslContext(fn))
        t.reopen()
        raw = t.cs
        raw.force("do_handshake", fault)
        call = t.serviceConnect
    else:
        raw, b = fn.pair((net.LOOP, PORT), (net.LOOP, 50001))
        t = M["serving"].IncomerTls(ha=raw.getsockname(), bs=8096, ca=raw.getpeername(), cs=raw, store=ck,
                                    context=net.FakeSslContext(fn))
        raw.force("do_handshake", fault)
        call = t.serviceHandshake
    ret = raised = None
    try:
        ret = call()
    except Exception as ex:
        raised = ex
    p.evaluations += 1
    p.nontrivial("%s|handshake|%s" % (kind, net.show(fault)))
    pending = fault[0] == "ssl" and fault[1] in ("want_read", "want_write")
    if pending:
        want = "pending-unchanged"
        if raised is not None:
            got = "raised"
        elif ret or t.connected:
            got = "connected"
        elif t.cs is None or raw.closed or t.cutoff:
            got = "closed"
        else:
            got = want
            # and a later attempt completes
            if not call() or not t.connected:
                got = "never-completes"
    else:
        want = "raised"
        got = "raised" if (raised is not None and same_exc(raised, fault)) else \
            ("swallowed" if raised is None else "raised-other(%s)" % type(raised).__name__)
        if got == "raised" and t.connected:
            got = "raised-but-connected"
    p.outcome("handshake %s %s" % (want, got))
    if got != want:
        p.violation("%s.do_handshake|%s->%s" % (kind, want, got), "fault=%s" % net.show(fault),
                    "%s: do_handshake raising %s must give '%s' but gave '%s'" % (kind, net.show(fault), want, got),
                    dict(case=["handshake", kind, list(fault)],
                         transport=kind, fault=net.show(fault), expected=want, observed=got, returned=repr(ret),
                         raised=repr(raised)))


UDP_LAYOUTS = ("AA", "AB", "AAB", "ABA")     # destinations of the queued packets, in queue order


def udp_case(op, e, p, loud=False, binary=False, entry="all", layout="AA"):
    set_loud(loud)
    p1, p2, d1, d2 = (b"\xff\xfe", b"\xfe\xff", b"\xffd", b"\xfed") if binary else (b"p1", b"p2", b"d1", b"d2")
    fn = net.FakeNet()
    FSM.net = fn
    stk = M["stacking"].UdpStack(ha=(net.LOOP, 9000), name="udp")
    ss = stk.handler.ss
    other = fn.socket(type=net._socket.SOCK_DGRAM)
    other.bind((net.LOOP, 9001))
    name = errno.errorcode[e]
    transient = e in LOSS
    p.evaluations += 1
    p.nontrivial("udp|%s|%d|%d|%d|%s|%s" % (op, e, loud, binary, entry, layout))
    raised = None
    if op == "sendto":
        # the queued packets go to destination A (9001) or B (9002) as the layout says; the first sendto faults
        other2 = fn.socket(type=net._socket.SOCK_DGRAM)
        other2.bind((net.LOOP, 9002))
        dests = dict(A=(net.LOOP, 9001), B=(net.LOOP, 9002))
        payload = [p1, p2, p1 + p2][:len(layout)]
        want = dict(A=[], B=[])
        for pay, d in zip(payload, layout):
            stk.transmit(M["packeting"].Packet(stack=stk, packed=pay), ha=dests[d])
            want[d].append(pay)
        service = stk.serviceTxPkts if entry == "all" else stk.serviceTxPktsOnce
        ss.force("sendto", net.ERR(e))
        try:
            service()
        except Exception as ex:
            raised = ex
        if raised is None:
            try:
                for _ in range(2 if entry == "all" else 2 * len(layout) + 2):
                    service()
            except Exception as ex:
                raised = ex
        got2 = dict(A=[d for d, s_ in other.dinbox], B=[d for d, s_ in other2.dinbox])
        if raised is not None:
            got = "raised" if (isinstance(raised, OSError) and raised.args[0] == e) else "raised-other(%s)" % type(raised).__name__
        elif sorted(got2["A"]) == sorted(want["A"]) and sorted(got2["B"]) == sorted(want["B"]) and len(stk.txPkts) == 0:
            got = "retried"
        else:
            got = "lost-or-repeated %r" % (got2,)
    else:
        other.sendto(d1, (net.LOOP, 9000))
        other.sendto(d2, (net.LOOP, 9000))
        ss.force("recvfrom", net.ERR(e))
        try:
            stk.serviceReceives()
            stk.serviceReceives()
        except Exception as ex:
            raised = ex
        rx = [bytes(pk.packed) for pk, ha in stk.rxPkts]
        if raised is not None:
            got = "raised" if (isinstance(raised, OSError) and raised.args[0] == e) else "raised-other(%s)" % type(raised).__name__
        elif rx == [d1, d2]:
            got = "retried"
        else:
            got = "lost-or-repeated %r" % (rx,)
    p.outcome("udp %s %s %s" % (op, "transient" if transient else "other", got.split(" ")[0]))
    if transient and got != "retried":
        p.violation("UdpStack.%s|transient->%s" % (op, got), "errno=%s%s%s%s" % (name, " console=profuse" if loud else "", " payload=non-utf8" if binary else "",
                                        "" if (entry, layout) == ("all", "AA") else " entry=%s queue=%s"
                                        % ("serviceTxPkts" if entry == "all" else "serviceTxPktsOnce", layout)),
                    "UdpStack over SocketUdpNb: %s raising %s (transient destination error) must be retryable, observed '%s'"
                    % (op, name, got),
                    dict(case=["udp", op, e, loud, binary, entry, layout], console_profuse=loud, payload_not_utf8=binary,
                         service_method="serviceTxPkts" if entry == "all" else "serviceTxPktsOnce", destinations=layout,
                         stack="UdpStack", socket_op=op, errno=name, observed=got, raised=repr(raised),
                         how="UdpStack(ha=...) over a datagram double; make the next %s() raise the errno; call "
                             "serviceTxPkts()/serviceReceives() twice" % op))


def udp_seq_case(errs, p):
    """2 or 3 consecutive recvfrom() calls fail with transient destination errnos, then the two waiting datagrams
    (or would-block) follow.  Oracle: nothing is raised, both datagrams are received, in order."""
    set_loud(False)
    fn = net.FakeNet()
    FSM.net = fn
    stk = M["stacking"].UdpStack(ha=(net.LOOP, 9000), name="udp")
    ss = stk.handler.ss
    other = fn.socket(type=net._socket.SOCK_DGRAM)
    other.bind((net.LOOP, 9001))
    other.sendto(b"d1", (net.LOOP, 9000))
    other.sendto(b"d2", (net.LOOP, 9000))
    ss.force("recvfrom", *[net.ERR(e) for e in errs])
    names = ",".join(errno.errorcode[e] for e in errs)
    p.evaluations += 1
    p.nontrivial("udpseq|%s" % names)
    raised = None
    try:
        for _ in range(len(errs) + 2):
            stk.serviceReceives()
    except Exception as ex:
        raised = ex
    rx = [bytes(pk.packed) for pk, ha in stk.rxPkts]
    if raised is not None:
        got = "raised" if isinstance(raised, OSError) else "raised-other(%s)" % type(raised).__name__
    elif rx == [b"d1", b"d2"]:
        got = "retried"
    else:
        got = "lost-or-repeated %r" % (rx,)
    p.outcome("udp recvfrom x%d transient %s" % (len(errs), got.split(" ")[0]))
    if got != "retried":
        p.violation("UdpStack.recvfrom|consecutive-transient->%s" % got, "errnos=%s" % names,
                    "UdpStack over SocketUdpNb: %d consecutive recvfrom() calls raising %s (transient destination errors) "
                    "must all be retryable, observed '%s'" % (len(errs), names, got),
                    dict(case=["udpseq", list(errs)], stack="UdpStack", socket_op="recvfrom", errnos=names, observed=got,
                         raised=repr(raised), how="make the next recvfrom() calls raise the errnos in turn while two "
                                                  "datagrams wait; call serviceReceives() repeatedly"))


def finish_replay(pid, path, p):
    """Common tail of --replay: report whether the recorded case still violates the property."""
    if p.violations:
        for group, example, what, _ in p.violations:
            print("VIOLATION property=%s replay=%s" % (pid, path))
            print("  what: %s" % what)
            print("  key:  %s|%s" % (group, example))
        return 1
    print("%s replay: the recorded case does not violate the property on this tree" % pid)
    return 0


def run_case(c, p):
    if c[0] == "stream":
        stream_case(c[1], c[2], c[3], tuple(c[4]), p, *c[5:7])
    elif c[0] == "connect":
        connect_case(c[1], c[2], c[3], p)
    elif c[0] == "handshake":
        handshake_case(c[1], tuple(c[2]), p)
    elif c[0] == "udpseq":
        udp_seq_case(tuple(c[1]), p)
    else:
        udp_case(c[1], c[2], p, *c[3:7])


def cases():
    out = []
    for kind in STREAMS:
        tls = kind.endswith("Tls")
        for op in ("send", "recv"):
            entries = ("direct", "service", "after-progress") if op == "send" else ("direct", "service", "once", "after-progress")
            for entry in entries:
                for f in faults(tls):
                    out.append(("stream", kind, op, entry, f))
    for kind in ("Client", "ClientTls"):
        for mode in ("rc", "raise"):
            for e in ((0,) if mode == "rc" else ()) + net.ALL_ERRNOS:
                out.append(("connect", kind, mode, e))
    for kind in ("ClientTls", "IncomerTls"):
        for f in faults(True):
            out.append(("handshake", kind, f))
    for op in ("sendto", "recvfrom"):
        for e in net.ALL_ERRNOS:
            out.append(("udp", op, e))
    # the same faults with ioflo's console at profuse verbosity (payload dumps are formatted on the send / receive /
    # error paths) and payloads that are not valid UTF-8
    for kind in STREAMS:
        tls = kind.endswith("Tls")
        for op in ("send", "recv"):
            for entry in (("direct", "after-progress") if op == "send" else ("direct", "after-progress")):
                for f in faults(tls):
                    out.append(("stream", kind, op, entry, f, True))
    # client classes built reconnectable=True: the classification must not depend on it
    for kind in ("Client", "ClientTls"):
        tls = kind.endswith("Tls")
        for op in ("send", "recv"):
            entries = ("direct", "service", "after-progress") if op == "send" else ("direct", "service", "once", "after-progress")
            for entry in entries:
                for f in faults(tls):
                    out.append(("stream", kind, op, entry, f, False, True))
    # datagram send: both service entry points x queues of 2-3 packets to the same / different destinations
    for entry in ("all", "once"):
        for layout in UDP_LAYOUTS:
            if (entry, layout) != ("all", "AA"):
                for e in net.ALL_ERRNOS:
                    out.append(("udp", "sendto", e, False, False, entry, layout))
    # consecutive transient errors on receive: every ordered pair, and triples (same errno / three in a row of the list)
    loss = sorted(LOSS)
    for e1 in loss:
        for e2 in loss:
            out.append(("udpseq", (e1, e2)))
    for i, e1 in enumerate(loss):
        out.append(("udpseq", (e1, e1, e1)))
        out.append(("udpseq", (e1, loss[(i + 1) % len(loss)], loss[(i + 2) % len(loss)])))
    for op in ("sendto", "recvfrom"):
        for loud, binary in ((True, False), (False, True), (True, True)):
            for e in net.ALL_ERRNOS:
                out.append(("udp", op, e, loud, binary))
    return out


def work(arg):
    shard, nshards = arg
    init()
    p = core.Part()
    all_cases = cases()
    with core.watchdog(300):
        lo = len(all_cases) * shard // nshards
        hi = len(all_cases) * (shard + 1) // nshards
        for i in range(lo, hi):     # contiguous blocks: merging in shard order keeps the earliest example per group
            c = all_cases[i]
            run_case(c, p)
            set_loud(False)
            if i % 997 == 0:
                p.sample(dict(case=[x if not isinstance(x, tuple) else net.show(x) for x in c]))
    return p


def replay(path):
    import json
    r = json.load(open(path))["replay"]
    init()
    p = core.Part()
    run_case(r["case"], p)
    return finish_replay("C25", path, p)


def run():
    import os
    if os.environ.get("VERIF_REPLAY"):
        return replay(os.environ["VERIF_REPLAY"])
    net.selftest()
    ck = core.Check("C25", META["level"], META["technique"])
    n = min(core.NPROC, 8)
    ck.merge(core.pmap(work, [(i, n) for i in range(n)]))
    ck.assumptions = [
        "errors are raised by the doubles as real OSError subclasses / ssl.SSL*Error with args[0]==errno, as CPython does",
        "TLS sockets: EAGAIN/EWOULDBLOCK as a plain OSError may be either ignored or re-raised (a non-blocking SSLSocket "
        "reports would-block as SSLWantRead/Write); plain OSErrors numerically equal to SSL_ERROR_WANT_READ/WRITE/EOF "
        "(ENOENT, ESRCH, ENOEXEC) cannot come out of socket I/O and are not judged there",
        "handshake: want-read/write must leave the connection pending and a later attempt must complete; every other "
        "failure only has to propagate (ioflo closes the socket and re-raises, documented as 'should give up here nicely')",
        "connect_ex returning an errno: never raises; 0/EISCONN connects; EINPROGRESS/EALREADY/EAGAIN/EINTR keep the same "
        "socket (no state change); any other code leaves the client unconnected (it may reopen)",
        "datagram stack: transient destination errors = the statement's loss list (ioflo additionally lists ETIME); "
        "other errnos on datagram sockets are recorded but not judged",
    ]
    ck.coverage_extra = dict(errnos=len(net.ALL_ERRNOS), ssl_kinds=list(SSL_KINDS), cases=len(cases()))
    return ck.finish(
        rule="stream: {Client, ClientTls, Incomer, IncomerTls} x {send: direct/serviceTxes/after one full send; recv: "
             "direct/serviceReceives/serviceReceiveOnce/after one chunk} x {every errno in errno.errorcode} (+ 7 ssl error "
             "kinds on TLS classes); connect_ex: {Client, ClientTls} x {returns 0 or each errno, raises each errno}; "
             "do_handshake: {ClientTls, IncomerTls} x {7 ssl kinds, each errno}; UdpStack: {sendto, recvfrom} x each errno; "
             "every case is non-trivial (a fault is injected in each)",
        exhaustive=True)


if __name__ == "__main__":
    core.main(run)
