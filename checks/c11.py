"""C11 Framer elapsed/recurred clocks drive timeout and repeat exactly.
Engine A grid: tick period x timeout x repeat count x chain shape (incl. forced re-entry and auxiliary), each
built and run on the real Builder/Skedder; clock monitor written from the statement + reference comparison."""
META = dict(
    engine="flo", level="exploration",
    technique="bounded-exhaustive configuration grid (tick x timeout x repeat x chain shape) run on the real Builder/Skedder; clock invariant at every tick, firing tick vs statement and vs reference interpreter",
    text="For every tick period in {1/16,1/8,1/4,1/2,1} and {0.1,0.05,0.2,0.3}, every T in {0, tick/2, tick, 1.5 tick, 2 tick, 3 tick, 0.3, 1.0}, "
         "every N in {0,1,2,3,5}, two chain shapes using timeout / repeat / go next if elapsed / forced re-entry `go me`, as a main framer and as an "
         "auxiliary (plus chains in which a conditional auxiliary starts and completes while a timeout is pending, and counting auxiliaries next to sibling auxiliaries of the same frame that transition every K ticks: the clocks must keep counting): at every tick the elapsed share equals the float difference (tick stamp - stamp of the last outline change) and recurred the "
         "iterations since; the first clause whose condition holds on those values fires at the first evaluation where it holds and nothing fires "
         "otherwise. On binary-exact ticks the firing index is additionally compared with the arithmetic ideal ceil(T/tick); on decimal ticks the "
         "number of configurations whose firing index differs from the decimal ideal is reported (the statement speaks of elapsed, which is the share value).",
    note="Literal oracle binds on the observed stamps; Skedder's float accumulation of decimal ticks is reported in coverage.notes, not raised. Runs are 24 ticks (quick) / 40 (thorough).",
)
import math
from fractions import Fraction
from mc import core
from mc.flo import runner


def family():
    from mc.flo import families as F
    yield from F.fam_clocks(F.DYADIC_TICKS + F.DECIMAL_TICKS)
    yield from F.fam_clocks_condaux()
    yield from F.fam_clocks_aux_interrupt()
    yield from F.fam_clocks_rebid()
    yield from F.fam_clocks_siblings()
    if core.TIER != "quick":
        yield from F.fam_clocks_deep()


def on_prog(p, idx, label, prog, meta):
    from mc.flo import monitors, conform, lang
    horizon = 24 if core.TIER == "quick" else 40
    text, br, rr = conform.run_real(prog, horizon)
    p.evaluations += 1
    p.nontrivial(label)
    if not br.ok:
        runner.violation(p, idx, "build-failed|%s" % br.kind, label, "does not build: %r" % (br.exc,), dict(text=text))
        return
    if rr.outcome != "returned":
        runner.violation(p, idx, "run-" + rr.outcome, label, "run did not return %r" % (rr.exc,), dict(text=text))
        return
    p.states += len(rr.ticks)
    mprog = lang.desugar(prog) if any(fm.get("schedule") == "moot" for fm in prog["framers"]) else prog
    probs = monitors.mon_clocks(mprog, rr, framer_names=meta["clocked"]) if meta["clocked"] else []
    if probs:
        g, d = probs[0]
        runner.violation(p, idx, g, label, d, dict(text=text, tick=meta["tick"], T=meta["T"], N=meta["N"]))
        return
    ro = conform.run_ref(prog, horizon)
    d = runner.cmp_full(fields=(0, 1, 4, 5, 6, 7))(rr, ro)
    if d:
        runner.violation(p, idx, d[0], label, d[1], dict(text=text))
        return
    # ideal firing index of the first timeout (frame a of the 'cycle' chain)
    name = meta["clocked"][0] if meta["clocked"] else "m"
    fires = [k for k, evs in enumerate(rr.events[:len(rr.ticks)]) if any(e[0] == name and e[2] == "enter" for e in evs)]
    p.transitions += len(fires)
    p.outcome("fires:%d" % min(len(fires), 12))
    if "/cycle/" in label and len(fires) >= 2:
        tick, T = Fraction(repr(meta["tick"])), Fraction(repr(meta["T"]))
        ideal = max(1, math.ceil(T / tick))
        got = fires[1] - fires[0]
        dyadic = meta["tick"] in (0.0625, 0.125, 0.25, 0.5, 1.0) and float(T) == meta["T"] and (T / tick).denominator in (1, 2)
        if got != ideal:
            if dyadic and Fraction(meta["T"]) == T:
                runner.violation(p, idx, "timeout-fires-off-ideal-on-exact-tick", label,
                                 "timeout %r at tick %r fired after %d ticks, arithmetic ideal %d" % (meta["T"], meta["tick"], got, ideal),
                                 dict(text=text))
            else:
                p.notes["decimal-tick configs firing off the decimal ideal (reported, not raised)"] += 1
        else:
            p.notes["configs firing exactly at the ideal tick index"] += 1
    if idx % 211 == 0:
        p.sample(dict(label=label, script=text, fire_ticks=fires[:6]))


def run():
    ck = core.Check("C11", "exploration", META["technique"])
    runner.run_family(ck, family, on_prog)
    ck.assumptions = ["framers run every tick (period 0)", "decimal-ideal deviations are reported under coverage.notes only"]
    return ck.finish(rule="configuration = (tick, T, N, chain shape, main|aux); each run to the horizon; distinct = configuration label", exhaustive=True)


if __name__ == "__main__":
    core.main(run)
