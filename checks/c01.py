"""C01 every ioflo module imports in a fresh interpreter, in any order.  Engine G (imp):
explicit-state BFS over interpreter import states, every state materialised by a fresh
`python -I` process that has imported nothing but what interpreter start-up loads."""
META = dict(
    engine="imp", level="model_checking",
    technique="explicit-state BFS over interpreter import states (state = set of ioflo modules in sys.modules + failed imports), "
              "each state rebuilt in a fresh isolated interpreter, every module imported from every state",
    text="The module list is read from the package directory at run time (test packages excluded). Starting from a cold `python -I` "
         "interpreter, every module is imported from every reached state up to depth 2 (3 in thorough, plus all ordered pairs "
         "explicitly); a transition must succeed and the public namespace of the imported module must equal the one it has when "
         "imported alone.",
    note="Interpreter is the single supported /venv/bin/python; states are abstracted to the set of loaded ioflo modules "
         "(cross-checked in thorough by running all ordered pairs without the abstraction); depth-bounded, the full lattice of "
         "module unions is not enumerated.",
)
import os
import re
import subprocess
import sys
from concurrent.futures import ThreadPoolExecutor

from mc import core

PY = "/venv/bin/python"

# The program run inside the isolated interpreter.  It must not import anything that is not
# already loaded by interpreter start-up (sys, os) except the C-only zlib for the digest.
DRIVER = r'''
import sys, os
import zlib
job = eval(sys.argv[1])
repo = job["repo"]
sys.path.insert(0, repo)
Mod = type(sys)
out = sys.stdout

def iomods():
    return sorted(k for k in sys.modules if k == "ioflo" or k.startswith("ioflo."))

def kind(modname, v):
    if isinstance(v, Mod):
        if v.__name__.startswith(modname + "."):
            return None      # submodule attribute bound by the import system: order dependent by nature
        return "module:" + v.__name__
    if isinstance(v, type):
        return "class:%s.%s" % (getattr(v, "__module__", "?"), getattr(v, "__qualname__", "?"))
    if callable(v) and hasattr(v, "__qualname__"):
        return "func:%s.%s" % (getattr(v, "__module__", "?"), v.__qualname__)
    if v is None or isinstance(v, (bool, int, float, str, bytes)):
        return "val:" + repr(v)
    return "obj:%s.%s" % (type(v).__module__, type(v).__name__)

def namespace(name):
    mod = sys.modules[name]
    items = []
    for k in sorted(vars(mod)):
        if k.startswith("_"):
            continue
        d = kind(name, vars(mod)[k])
        if d is not None:
            items.append(k + "=" + d)
    return items

def step(name, verbose):
    try:
        __import__(name)
        f = getattr(sys.modules[name], "__file__", None) or ""
        if not f.startswith(repo + os.sep):
            return ("fail", "WrongTree", "imported from " + f, "", None)
    except BaseException as ex:
        tb = ex.__traceback__
        where = ""
        while tb is not None:
            fn = tb.tb_frame.f_code.co_filename
            if fn.startswith(repo + os.sep):
                where = fn[len(repo) + 1:] + ":" + tb.tb_frame.f_code.co_name
            tb = tb.tb_next
        return ("fail", type(ex).__name__, str(ex), where, getattr(ex, "name", None))
    items = namespace(name)
    blob = "\n".join(items).encode("utf-8", "backslashreplace")
    dig = "%08x%08x%d" % (zlib.crc32(blob), zlib.adler32(blob), len(items))
    return ("ok", dig, items if verbose else None)

def emit(rec):
    out.write(repr(rec) + "\n")
    out.flush()

emit(("startup", sorted(sys.modules)))
pathres = []
for name in job["path"]:
    pathres.append(step(name, False)[:2])
base = iomods()
emit(("path", pathres, base))
baseset = set(base)

def cand_record(name):
    res = step(name, job["verbose"])
    now = set(iomods())
    return ("cand", name, res, sorted(now - baseset), sorted(baseset - now))

if job["mode"] == "direct":
    for name in job["cands"]:
        emit(cand_record(name))
        baseset = set(iomods())
else:
    todo = []
    for name in job["cands"]:
        if name in sys.modules:
            # already fully imported in this state: the import statement is a sys.modules lookup that
            # runs no module code and cannot change the state, so no fork is needed to protect it
            rec = cand_record(name)
            if rec[3] or rec[4]:
                rec = ("cand", name, ("fail", "StateChanged", "import of a loaded module changed sys.modules", "", None), rec[3], rec[4])
            emit(rec)
        else:
            todo.append(name)
    # every other candidate is imported in its own fork of this state; forks of one state run
    # concurrently (they cannot influence each other) and report with one atomic write each
    par = job.get("par", 8)
    while todo:
        batch, todo = todo[:par], todo[par:]
        pids = []
        for name in batch:
            out.flush()
            pid = os.fork()
            if pid == 0:
                code = 1
                try:
                    line = (repr(cand_record(name)) + "\n").encode("utf-8", "backslashreplace")
                    if len(line) > 4000:      # keep the write atomic (PIPE_BUF)
                        rec = cand_record(name)
                        line = (repr(rec[:3] + (rec[3][:20] + ["..."], rec[4][:20])) + "\n").encode("utf-8", "backslashreplace")[:4000]
                    os.write(1, line)
                    code = 0
                finally:
                    os._exit(code)
            pids.append((pid, name))
        for pid, name in pids:
            _, st = os.waitpid(pid, 0)
            if st != 0:
                emit(("cand", name, ("fail", "ChildCrash", "status %d" % st, "", None), [], []))
'''


def module_list(repo):
    """Every non-test ioflo module, from the package directory (packages first, sorted)."""
    mods = []
    top = os.path.join(repo, "ioflo")
    for root, dirs, files in os.walk(top):
        dirs.sort()
        if "__init__.py" not in files:
            dirs[:] = []
            continue
        rel = os.path.relpath(root, repo).replace(os.sep, ".")
        if "test" in rel.split("."):
            dirs[:] = []
            continue
        mods.append(rel)
        for f in sorted(files):
            if f.endswith(".py") and f != "__init__.py":
                mods.append(rel + "." + f[:-3])
    mods = [m for m in mods if "test" not in m.split(".") and not m.split(".")[-1].startswith("test_")]
    return mods


def run_job(job):
    """One isolated interpreter: replay job['path'], then import each of job['cands']."""
    arg = repr(dict(job, repo=core.REPO))
    env = {"PATH": os.environ.get("PATH", "/usr/bin:/bin"), "HOME": "/nonexistent", "LANG": "C.UTF-8"}
    try:
        flags = ["-I", "-S"] if job.get("bare") else ["-I"]
        r = subprocess.run([PY] + flags + ["-W", "ignore", "-c", DRIVER, arg], capture_output=True, text=True,
                           timeout=1500, env=env, cwd="/")
    except subprocess.TimeoutExpired:
        raise core.BrokenCheck("import driver timed out for path %r" % (job["path"],))
    recs = []
    for ln in r.stdout.splitlines():
        if ln.startswith("("):
            try:
                recs.append(eval(ln, {"__builtins__": {}}, {}))
            except Exception:
                pass     # something an imported module printed
    cands = [x for x in recs if x[0] == "cand"]
    order = {n: i for i, n in enumerate(job["cands"])}
    if (not recs or recs[0][0] != "startup" or len(recs) < 2 or recs[1][0] != "path"
            or sorted(x[1] for x in cands) != sorted(job["cands"])):
        raise core.BrokenCheck("import driver malfunction rc=%s path=%r cands=%r\nstdout=%s\nstderr=%s"
                               % (r.returncode, job["path"], job["cands"], r.stdout[-600:], r.stderr[-1200:]))
    base = set(recs[1][2])
    out = recs[:2]
    if job["mode"] == "direct":
        cur = set(base)
        for x in cands:
            cur = (cur | set(x[3])) - set(x[4])
            out.append(("cand", x[1], x[2], sorted(cur)))
    else:
        for x in sorted(cands, key=lambda x: order[x[1]]):
            if "..." in x[3]:
                raise core.BrokenCheck("fork record too long for an atomic write: %r" % (x[:2],))
            out.append(("cand", x[1], x[2], sorted((base | set(x[3])) - set(x[4]))))
    return out


def norm_msg(msg):
    msg = re.sub(r"\s*\((/[^)]*)\)", "", msg)          # absolute file names
    msg = msg.replace(core.REPO, "<repo>")
    return msg[:160]


def state_key(iomods, failed):
    return (frozenset(iomods), frozenset(failed))


def short_state(key):
    import hashlib
    h = hashlib.sha1(("\n".join(sorted(key[0])) + "|" + "\n".join(sorted(key[1]))).encode()).hexdigest()[:8]
    return "%s(%d loaded,%d failed)" % (h, len(key[0]), len(key[1]))


def chunks(seq, n):
    return [seq[i:i + n] for i in range(0, len(seq), n)]


class Explorer:
    def __init__(self, mods, part, pool):
        self.mods = mods
        self.part = part
        self.pool = pool
        self.alone = {}          # module -> digest when imported alone (depth-1 transition)
        self.startup = None
        self.processes = 0

    def transitions(self, paths_and_cands, mode, bare=False):
        """Run jobs; yields (path, cand, result, iomods_after)."""
        jobs = []
        paths_and_cands = list(paths_and_cands)
        per_state = max(1, -(-2 * core.NPROC // max(1, len(paths_and_cands))))
        for path, cands in paths_and_cands:
            size = 1 if mode == "direct" else max(1, -(-len(cands) // per_state))
            for ch in chunks(cands, size):
                jobs.append(dict(path=list(path), cands=ch, mode=mode, verbose=False, bare=bare))
        results = list(self.pool.map(run_job, jobs))
        self.processes += len(jobs)
        for job, recs in zip(jobs, results):
            st = recs[0][1]
            if bare:
                if "site" in st or "collections" in st:
                    raise core.BrokenCheck("`-S` interpreter loaded site/collections at start-up")
            elif self.startup is None:
                self.startup = st
                bad = [m for m in st if m == "collections.abc" or m == "ioflo" or m.startswith("ioflo.")]
                if bad:
                    raise core.BrokenCheck("isolated interpreter is not cold: %r preloaded" % bad)
            elif st != self.startup:
                raise core.BrokenCheck("isolated interpreter start-up state differs between processes")
            for rec in recs:
                if rec[0] == "cand":
                    yield job["path"], rec[1], rec[2], rec[3]

    def verbose_namespace(self, path, cand):
        mode = "direct" if not path else "fork"
        recs = run_job(dict(path=list(path), cands=[cand], mode=mode, verbose=True))
        for rec in recs:
            if rec[0] == "cand" and rec[2][0] == "ok":
                return rec[2][2]
        return None

    def judge(self, path, cand, res, after, failed_before):
        """Oracle for one transition.  Returns (violated, new_failed)."""
        p = self.part
        p.transitions += 1
        p.traces += 1
        p.evaluations += 1
        hist = " > ".join(list(path) + [cand])
        if res[0] == "fail":
            _, etype, msg, where, missing = res
            p.outcome("import fails: %s in %s" % (etype, where or "?"))
            p.violation("import-fails|%s|%s|%s" % (etype, where, norm_msg(msg)), hist,
                        "`import %s`%s raises %s: %s (innermost ioflo frame %s)"
                        % (cand, " after importing " + ", ".join(path) if path else " in a fresh interpreter",
                           etype, norm_msg(msg), where or "?"),
                        dict(interpreter=PY + " -I -W ignore", imports_in_order=list(path) + [cand],
                             exception=etype, message=msg, where=where,
                             reproduce="%s -I -c \"import sys; sys.path.insert(0, '<repo>'); %s\""
                                       % (PY, "; ".join("import " + m for m in list(path) + [cand]))))
            return True, failed_before | {cand}
        dig = res[1]
        if not path:
            self.alone[cand] = dig
            p.outcome("ok alone")
            return False, failed_before
        ref = self.alone.get(cand)
        if ref is None:
            p.outcome("ok (no alone reference: alone import failed)")
            return False, failed_before
        if dig != ref:
            a = self.verbose_namespace((), cand) or []
            b = self.verbose_namespace(path, cand) or []
            sa, sb = set(a), set(b)
            diff = sorted(sa ^ sb)[:12]
            p.outcome("namespace differs")
            p.violation("namespace-differs|%s" % cand, hist,
                        "public namespace of %s after importing %s differs from the one it has when imported alone: %s"
                        % (cand, ", ".join(path), "; ".join(diff)),
                        dict(imports_in_order=list(path) + [cand], only_alone=sorted(sa - sb)[:40],
                             only_after=sorted(sb - sa)[:40]))
            return True, failed_before
        p.outcome("ok, namespace equal to alone import" if cand not in self._loaded_before else
                  "ok, already loaded, namespace equal to alone import")
        return False, failed_before

    def bfs(self, max_depth):
        p = self.part
        init = state_key((), ())
        seen = {init: ()}
        frontier = [((), init)]
        depth = 0
        layers = []
        while frontier and depth < max_depth:
            mode = "direct" if depth == 0 else "fork"
            work = [(path, self.mods) for path, _ in frontier]
            keyof = {tuple(path): key for path, key in frontier}
            nxt = []
            for path, cand, res, after in self.transitions(work, mode):
                src = keyof[tuple(path)]
                self._loaded_before = src[0]
                bad, failed = self.judge(path, cand, res, after, src[1])
                key = state_key(after, failed)
                if key[0] != src[0] or key[1] != src[1]:
                    p.nontrivial("edge %s -> %s" % (short_state(src), short_state(key)))
                if bad:
                    continue                      # do not expand beyond a violation
                if key not in seen:
                    seen[key] = tuple(path) + (cand,)
                    nxt.append((tuple(path) + (cand,), key))
            depth += 1
            layers.append(len(nxt))
            frontier = nxt
        p.states = len(seen)
        return dict(depth=depth, layers=layers, fixpoint=not frontier, frontier_left=len(frontier))

    def bare_sweep(self):
        """Every module alone in a `python -I -S` interpreter (no site, so not even `collections`
        is loaded): second, colder initial state.  Judged like a transition after the empty path,
        digest compared with the `-I` alone digest."""
        n = 0
        alone = dict(self.alone)
        for path, cand, res, after in self.transitions([((), self.mods)], "direct", bare=True):
            self._loaded_before = frozenset()
            if res[0] == "ok" and alone.get(cand) is not None:
                # judge as a non-empty path so that the digest is compared, labelled as the bare start
                self.judge(("<python -I -S>",), cand, res, after, frozenset())
            else:
                self.judge((), cand, res, after, frozenset())
            n += 1
        self.alone = alone
        return n

    def pairs(self):
        """All ordered pairs (a, b), a != b, without the state abstraction: a fresh interpreter
        imports a, then (forked) each b."""
        ok_first = [m for m in self.mods if m in self.alone]
        work = [((a,), [b for b in self.mods if b != a]) for a in ok_first]
        n = 0
        for path, cand, res, after in self.transitions(work, "fork"):
            self._loaded_before = frozenset()
            self.judge(path, cand, res, after, frozenset())
            n += 1
        return n


def run():
    mods = module_list(core.REPO)
    if len(mods) < 20 or "ioflo" not in mods or "ioflo.aid.osetting" not in mods:
        raise core.BrokenCheck("module enumeration found only %d modules under %s" % (len(mods), core.REPO))
    ck = core.Check("C01", "model_checking", META["technique"])
    p = ck.part
    depth = 3 if core.TIER == "thorough" else 2
    with ThreadPoolExecutor(max_workers=core.NPROC) as pool:
        ex = Explorer(mods, p, pool)
        info = ex.bfs(depth)
        npairs = 0
        nbare = ex.bare_sweep()
        if core.TIER == "thorough" and not p.violations:
            npairs = ex.pairs()
    p.sample(dict(modules=len(mods), first=mods[:4], last=mods[-3:]))
    p.sample(dict(startup_modules_of_isolated_interpreter=len(ex.startup or []),
                  has_collections_abc="collections.abc" in (ex.startup or [])))
    p.sample(dict(bfs=info))
    ck.coverage_extra = dict(modules=len(mods), module_list=mods, bfs_depth=info["depth"], new_states_per_layer=info["layers"],
                             fixpoint=info["fixpoint"], unexpanded_frontier=info["frontier_left"],
                             interpreter_processes=ex.processes, ordered_pairs_without_abstraction=npairs, alone_imports_without_site=nbare,
                             interpreter="%s -I -W ignore" % PY)
    ck.assumptions = [
        "supported interpreter = /venv/bin/python (3.12); `-I` isolates from environment, user site and cwd; the driver imports only sys, os, zlib",
        "state abstraction: two paths are the same state when the same ioflo modules are in sys.modules and the same imports failed",
        "states at depth >= 1 are materialised in a fresh interpreter; their outgoing transitions run in forks of that interpreter "
        "(depth-0 transitions, i.e. every module alone, each run in their own fresh interpreter)",
        "namespace = public (no leading underscore) module attributes described by kind and defining module, excluding a package's own "
        "submodule attributes, which Python binds as a side effect of importing the submodule",
        "test packages (ioflo.**.test) are not library API and are excluded",
        "strict reading: any exception from an import statement is a violation; ioflo declares no required third-party package "
        "(install_requires=[]) and guards or defers every optional one (simplejson, win32file, netifaces, pyserial), so no allowance is needed",
    ]
    return ck.finish(
        rule="all %d non-test modules imported from every import state reachable in < %d imports; non-trivial = transition that "
             "changes the set of loaded ioflo modules" % (len(mods), depth),
        exhaustive=info["fixpoint"],
        explanation="depth-bounded BFS; the lattice of unions of module closures is not exhausted (unexpanded frontier reported)")


if __name__ == "__main__":
    core.main(run)
