"""C01 every ioflo module imports in a fresh interpreter, in any order.  Engine G (imp):
explicit-state BFS over interpreter import states, every state materialised by a fresh
`python -I` process that has imported nothing but what interpreter start-up loads."""
META = dict(
    engine="imp", level="model_checking",
    technique="explicit-state BFS over interpreter import states (state = ioflo modules in sys.modules with their namespace "
              "fingerprint + failed imports), each state rebuilt in a fresh isolated interpreter, every module imported from every state",
    text="The module list is read from the package directory at run time (test packages excluded). Starting from a cold `python -I` "
         "interpreter (and a `python -I -S` one), every module is imported from every reached state up to depth 2 (3 in thorough, "
         "plus all ordered pairs explicitly); a transition must succeed and afterwards the public namespace of every loaded ioflo "
         "module must equal the one it has when imported alone.",
    note="Interpreter is the single supported /venv/bin/python; depth-bounded: the full lattice of unions of module closures is "
         "not enumerated (frontier size reported); namespaces are compared by name, kind and defining module, not by value identity.",
)
import os
import re
import subprocess
from concurrent.futures import ThreadPoolExecutor

from mc import core

PY = "/venv/bin/python"

# How a transition `import m` out of a state is executed when m is not loaded yet in that state:
#   default       a fresh interpreter replays the state's path and then imports m
#   VERIF_C01_FORK=1  the state's interpreter (built once) forks once per candidate
# Both were measured on this VM (16 vCPUs): 685 fresh interpreters take 27-28 s, the same 685
# transitions as forks of 24 state processes 34-37 s (fork + copy-on-write of a process that has
# ioflo loaded does not scale across cores here), so fresh is the default.  Candidates already
# loaded in the state are imported in place in one process per state in both modes.
USE_FORK = os.environ.get("VERIF_C01_FORK", "") == "1"

# The program run inside the isolated interpreter.  It must not import anything that is not
# already loaded by interpreter start-up (sys, os) except the C-only zlib for the digests.
DRIVER = r"""
import sys, os
import zlib
job = eval(sys.argv[1])
repo = job["repo"]
alone = job.get("alone")
sys.path.insert(0, repo)
Mod = type(sys)
out = sys.stdout

def iomods():
    return sorted(k for k in sys.modules if k == "ioflo" or k.startswith("ioflo."))

def kind(modname, v):
    if isinstance(v, Mod):
        if v.__name__.startswith(modname + "."):
            return None      # submodule attribute bound by the import system: order dependent by nature
        return "module:" + v.__name__
    if isinstance(v, type):
        return "class:%s.%s" % (getattr(v, "__module__", "?"), getattr(v, "__qualname__", "?"))
    if callable(v) and hasattr(v, "__qualname__"):
        return "func:%s.%s" % (getattr(v, "__module__", "?"), v.__qualname__)
    if v is None or isinstance(v, (bool, int, float, str, bytes)):
        return "val:" + repr(v)
    return "obj:%s.%s" % (type(v).__module__, type(v).__name__)

def namespace(name):
    mod = sys.modules[name]
    items = []
    d = vars(mod)
    for k in sorted(d):
        if k.startswith("_"):
            continue
        x = kind(name, d[k])
        if x is not None:
            items.append(k + "=" + x)
    return items

def digest(name):
    items = namespace(name)
    blob = "\n".join(items).encode("utf-8", "backslashreplace")
    return "%08x%08x.%d" % (zlib.crc32(blob), zlib.adler32(blob), len(items))

def statemap():
    return dict((m, digest(m)) for m in iomods())

def fingerprint(m):
    blob = "\n".join("%s=%s" % kv for kv in sorted(m.items())).encode("utf-8")
    return "%08x%08x" % (zlib.crc32(blob), zlib.adler32(blob))

def step(name):
    try:
        __import__(name)
        f = getattr(sys.modules[name], "__file__", None) or ""
        if not f.startswith(repo + os.sep):
            return ("fail", "WrongTree", "imported from " + f, "")
    except BaseException as ex:
        tb = ex.__traceback__
        where = ""
        while tb is not None:
            fn = tb.tb_frame.f_code.co_filename
            if fn.startswith(repo + os.sep):
                where = fn[len(repo) + 1:] + ":" + tb.tb_frame.f_code.co_name
            tb = tb.tb_next
        return ("fail", type(ex).__name__, str(ex)[:300], where)
    return ("ok",)

def emit(rec):
    out.write(repr(rec) + "\n")
    out.flush()

emit(("startup", sorted(sys.modules)))
pathres = [step(name) for name in job["path"]]
base = iomods()
baseset = set(base)
basemap = statemap()
emit(("path", pathres, base, fingerprint(basemap)))

def cand_record(name):
    res = step(name)
    now = iomods()
    m = statemap()
    if alone is None:
        info = m
    else:
        info = sorted(k for k in m if k in alone and alone[k] != m[k])[:12]
    nowset = set(now)
    return ("cand", name, res, sorted(nowset - baseset), sorted(baseset - nowset), fingerprint(m), info)

if job["mode"] == "dump":
    for name in job["cands"]:
        step(name)
    for name in job["dump"]:
        emit(("dump", name, namespace(name) if name in sys.modules else None))
elif job["mode"] == "direct":
    for name in job["cands"]:
        emit(cand_record(name))
else:
    todo = []
    for name in job["cands"]:
        if name in sys.modules:
            # already fully imported in this state: the import statement is a sys.modules lookup that
            # runs no module code and cannot change the state, so no fork is needed to protect it
            rec = cand_record(name)
            if rec[3] or rec[4] or rec[5] != fingerprint(basemap):
                rec = ("cand", name, ("fail", "StateChanged", "import of a loaded module changed the interpreter state", ""),
                       rec[3], rec[4], rec[5], rec[6])
            emit(rec)
        else:
            todo.append(name)
    # every other candidate is imported in its own fork of this state (the state itself was built
    # once, in this fresh interpreter); `par` forks run concurrently (they cannot influence each
    # other), each reports through its own pipe and exits without running any clean-up
    par = job.get("par", 1)
    while todo:
        batch, todo = todo[:par], todo[par:]
        kids = []
        for name in batch:
            out.flush()
            r, w = os.pipe()
            pid = os.fork()
            if pid == 0:
                code = 1
                try:
                    os.close(r)
                    data = (repr(cand_record(name)) + "\n").encode("utf-8", "backslashreplace")
                    while data:
                        n = os.write(w, data)
                        data = data[n:]
                    code = 0
                finally:
                    os._exit(code)
            os.close(w)
            kids.append((pid, name, r))
        for pid, name, r in kids:
            buf = []
            while True:
                chunk = os.read(r, 65536)
                if not chunk:
                    break
                buf.append(chunk)
            os.close(r)
            _, st = os.waitpid(pid, 0)
            line = b"".join(buf).decode("utf-8", "backslashreplace")
            if st != 0 or not line.endswith("\n"):
                emit(("cand", name, ("fail", "ChildCrash", "wait status %d" % st, ""), [], [], "", [] if alone is not None else {}))
            else:
                out.write(line)
                out.flush()
"""


def module_list(repo):
    """Every non-test ioflo module, from the package directory (packages first, sorted)."""
    mods = []
    top = os.path.join(repo, "ioflo")
    for root, dirs, files in os.walk(top):
        dirs.sort()
        if "__init__.py" not in files:
            dirs[:] = []
            continue
        rel = os.path.relpath(root, repo).replace(os.sep, ".")
        if "test" in rel.split("."):
            dirs[:] = []
            continue
        mods.append(rel)
        for f in sorted(files):
            if f.endswith(".py") and f != "__init__.py":
                mods.append(rel + "." + f[:-3])
    mods = [m for m in mods if "test" not in m.split(".") and not m.split(".")[-1].startswith("test_")]
    return mods


def run_job(job):
    """One isolated interpreter: replay job['path'], then import each of job['cands'].
    Returns (startup modules, path record, list of cand dicts in job order, dumps)."""
    arg = repr(dict(job, repo=core.REPO))
    env = {"PATH": os.environ.get("PATH", "/usr/bin:/bin"), "HOME": "/nonexistent", "LANG": "C.UTF-8"}
    flags = ["-I", "-S"] if job.get("bare") else ["-I"]
    try:
        r = subprocess.run([PY] + flags + ["-W", "ignore", "-c", DRIVER, arg], capture_output=True, text=True,
                           timeout=1500, env=env, cwd="/")
    except subprocess.TimeoutExpired:
        raise core.BrokenCheck("import driver timed out for path %r" % (job["path"],))
    recs = []
    for ln in r.stdout.splitlines():
        if ln.startswith("("):
            try:
                recs.append(eval(ln, {"__builtins__": {}}, {}))
            except Exception:
                pass     # something an imported module printed
    cands = [x for x in recs if x[0] == "cand"]
    dumps = dict((x[1], x[2]) for x in recs if x[0] == "dump")
    ok = recs and recs[0][0] == "startup" and len(recs) >= 2 and recs[1][0] == "path"
    if ok and job["mode"] != "dump":
        ok = sorted(x[1] for x in cands) == sorted(job["cands"])
    if not ok:
        raise core.BrokenCheck("import driver malfunction rc=%s path=%r cands=%r\nstdout=%s\nstderr=%s"
                               % (r.returncode, job["path"], job["cands"], r.stdout[-600:], r.stderr[-1200:]))
    base = set(recs[1][2])
    order = {n: i for i, n in enumerate(job["cands"])}
    out = []
    cur = set(base)
    seq = cands if job["mode"] == "direct" else sorted(cands, key=lambda x: order[x[1]])
    for x in seq:
        if job["mode"] == "direct":
            after = cur = (cur | set(x[3])) - set(x[4])    # direct candidates accumulate (one per job in practice)
        else:
            after = (base | set(x[3])) - set(x[4])
        out.append(dict(path=tuple(job["path"]), cand=x[1], res=x[2], after=frozenset(after), fp=x[5], info=x[6]))
    return recs[0][1], recs[1], out, dumps


def norm_msg(msg):
    msg = re.sub(r"\s*\((/[^)]*)\)", "", msg)          # absolute file names
    msg = msg.replace(core.REPO, "<repo>")
    return msg[:160]


def short_state(key):
    import hashlib
    h = hashlib.sha1(("\n".join(sorted(key[0])) + "|" + "\n".join(sorted(key[1])) + "|" + key[2]).encode()).hexdigest()[:8]
    return "%s(%d loaded,%d failed)" % (h, len(key[0]), len(key[1]))


def chunks(seq, n):
    return [seq[i:i + n] for i in range(0, len(seq), n)]


class Explorer:
    def __init__(self, mods, part, pool):
        self.mods = mods
        self.part = part
        self.pool = pool
        self.alone = {}          # module -> namespace digest when imported alone
        self.startup = None
        self.processes = 0
        self.phases = []

    def transitions(self, paths_and_cands, mode, bare=False, alone=None):
        """One fresh interpreter per state (several when there are fewer states than workers: the
        candidates are then split), forks inside it for the transitions.  mode 'direct': one fresh
        interpreter per candidate (used for the `-I -S` pass only)."""
        jobs = []
        paths_and_cands = list(paths_and_cands)
        nstates = max(1, len(paths_and_cands))
        per_state = max(1, -(-core.NPROC // nstates))
        running = min(core.NPROC, nstates * per_state)
        par = max(1, min(4, -(-core.NPROC // running)))
        for path, cands in paths_and_cands:
            size = 1 if mode == "direct" else max(1, -(-len(cands) // per_state))
            for ch in chunks(cands, size):
                jobs.append(dict(path=list(path), cands=ch, mode=mode, bare=bare, alone=alone, par=par))
        import time
        t0 = time.time()
        results = list(self.pool.map(run_job, jobs))
        self.processes += len(jobs)
        self.phases.append(dict(mode=mode, bare=bare, states=len(paths_and_cands), processes=len(jobs), par=par,
                                transitions=sum(len(j["cands"]) for j in jobs), seconds=round(time.time() - t0, 1)))
        out = []
        for job, (st, pathrec, recs, _) in zip(jobs, results):
            if bare:
                if "site" in st or "collections" in st:
                    raise core.BrokenCheck("`-S` interpreter loaded site/collections at start-up")
            elif self.startup is None:
                self.startup = st
                bad = [m for m in st if m == "collections.abc" or m == "ioflo" or m.startswith("ioflo.")]
                if bad:
                    raise core.BrokenCheck("isolated interpreter is not cold: %r preloaded" % bad)
            elif st != self.startup:
                raise core.BrokenCheck("isolated interpreter start-up state differs between processes")
            if any(r[0] != "ok" for r in pathrec[1]):
                raise core.BrokenCheck("replaying the path %r of an expanded state failed: %r" % (job["path"], pathrec[1]))
            out.extend(recs)
        return out

    def namespace_diff(self, path, cand, module):
        """Full namespaces of `module` alone and after path + cand, for the violation report."""
        _, _, _, a = run_job(dict(path=[], cands=[module], mode="dump", dump=[module], alone=None))
        _, _, _, b = run_job(dict(path=list(path), cands=[cand], mode="dump", dump=[module], alone=None))
        return set(a.get(module) or ()), set(b.get(module) or ())

    def judge(self, tr, label=None):
        """Oracle for one transition.  Returns True when it violates the property."""
        p = self.part
        p.transitions += 1
        p.traces += 1
        p.evaluations += 1
        path, cand, res = tr["path"], tr["cand"], tr["res"]
        shown = ([label] if label else []) + list(path) + [cand]
        hist = " > ".join(shown)
        if res[0] == "fail":
            _, etype, msg, where = res
            p.outcome("import fails: %s in %s" % (etype, where or "?"))
            p.violation("import-fails|%s|%s|%s" % (etype, where, norm_msg(msg)), hist,
                        "`import %s`%s raises %s: %s (innermost ioflo frame %s)"
                        % (cand, " after importing " + ", ".join(shown[:-1]) if shown[:-1] else " in a fresh interpreter",
                           etype, norm_msg(msg), where or "?"),
                        dict(interpreter=PY + (" -I -S" if label else " -I") + " -W ignore", imports_in_order=list(path) + [cand],
                             exception=etype, message=msg, where=where,
                             reproduce="%s -I -c \"import sys; sys.path.insert(0, '<repo>'); %s\""
                                       % (PY, "; ".join("import " + m for m in list(path) + [cand]))))
            return True
        info = tr["info"]
        if isinstance(info, dict):
            mism = sorted(k for k in info if k in self.alone and self.alone[k] != info[k])
        else:
            mism = list(info)
        if mism:
            module = cand if cand in mism else mism[0]
            sa, sb = self.namespace_diff(path, cand, module)
            diff = sorted(sa ^ sb)[:12]
            p.outcome("namespace differs")
            p.violation("namespace-differs|%s" % module, hist,
                        "after %s the public namespace of %s differs from the one it has when imported alone: %s"
                        % (", ".join("import " + m for m in shown), module, "; ".join(diff)),
                        dict(imports_in_order=list(path) + [cand], module=module, only_alone=sorted(sa - sb)[:40],
                             only_after=sorted(sb - sa)[:40], all_differing_modules=mism))
            return True
        if not path and not label:
            p.outcome("ok alone")
        else:
            p.outcome("ok, every loaded module's namespace equals its alone import")
        return False

    def bfs(self, max_depth):
        p = self.part
        init = (frozenset(), frozenset(), "")
        seen = {init: ()}
        frontier = [((), init)]
        depth = 0
        layers = []
        while frontier and depth < max_depth:
            work = [(path, self.mods) for path, _ in frontier]
            keyof = {tuple(path): key for path, key in frontier}
            if depth == 0:
                trs = self.transitions(work, "fork" if USE_FORK else "direct", alone=None)
                for tr in trs:               # the alone digests are the reference for everything else
                    if tr["res"][0] == "ok":
                        self.alone[tr["cand"]] = tr["info"][tr["cand"]]
            elif not USE_FORK:
                # one in-place job per state for the already loaded candidates, one fresh interpreter
                # (path replayed) for each candidate that is not loaded yet
                w_in, w_out = [], []
                for path, key in frontier:
                    w_in.append((path, [m for m in self.mods if m in key[0]]))
                    w_out.extend((path, [m]) for m in self.mods if m not in key[0])
                trs = self.transitions(w_in, "fork", alone=self.alone) + self.transitions(w_out, "direct", alone=self.alone)
                pos = {m: i for i, m in enumerate(self.mods)}
                porder = {tuple(pth): i for i, (pth, _) in enumerate(frontier)}
                trs.sort(key=lambda tr: (porder[tuple(tr["path"])], pos[tr["cand"]]))
            else:
                trs = self.transitions(work, "fork", alone=self.alone)
            nxt = []
            for tr in trs:
                src = keyof[tuple(tr["path"])]
                bad = self.judge(tr)
                failed = src[1] | ({tr["cand"]} if tr["res"][0] == "fail" else frozenset())
                key = (tr["after"], frozenset(failed), tr["fp"])
                if key != src and depth > 0 or (depth == 0):
                    p.nontrivial("edge %s -> %s" % (short_state(src), short_state(key)))
                if bad:
                    continue                      # do not expand beyond a violation
                if key not in seen:
                    seen[key] = tuple(tr["path"]) + (tr["cand"],)
                    nxt.append((tuple(tr["path"]) + (tr["cand"],), key))
            depth += 1
            layers.append(len(nxt))
            frontier = nxt
        p.states = len(seen)
        return dict(depth=depth, layers=layers, fixpoint=not frontier, frontier_left=len(frontier))

    def bare_sweep(self):
        """Every module alone in a `python -I -S` interpreter (no site, so not even `collections` is
        loaded): a second, colder initial state, judged like any transition."""
        trs = self.transitions([((), self.mods)], "direct", bare=True, alone=self.alone)
        for tr in trs:
            self.judge(tr, label="<python -I -S>")
        return len(trs)

    def pairs(self):
        """All ordered pairs (a, b), a != b, without the state abstraction: a fresh interpreter
        imports a, then (forked) each b."""
        ok_first = [m for m in self.mods if m in self.alone]
        work = [((a,), [b for b in self.mods if b != a]) for a in ok_first]
        trs = self.transitions(work, "fork", alone=self.alone)
        for tr in trs:
            self.judge(tr)
        return len(trs)


def run():
    mods = module_list(core.REPO)
    if len(mods) < 20 or "ioflo" not in mods or "ioflo.aid.osetting" not in mods:
        raise core.BrokenCheck("module enumeration found only %d modules under %s" % (len(mods), core.REPO))
    ck = core.Check("C01", "model_checking", META["technique"])
    p = ck.part
    depth = 3 if core.TIER == "thorough" else 2
    with ThreadPoolExecutor(max_workers=core.NPROC) as pool:
        ex = Explorer(mods, p, pool)
        info = ex.bfs(depth)
        npairs = 0
        nbare = ex.bare_sweep()
        if core.TIER == "thorough" and not p.violations:
            npairs = ex.pairs()
    p.sample(dict(modules=len(mods), first=mods[:4], last=mods[-3:]))
    p.sample(dict(startup_modules_of_isolated_interpreter=len(ex.startup or []),
                  has_collections_abc="collections.abc" in (ex.startup or [])))
    p.sample(dict(bfs=info))
    ck.coverage_extra = dict(modules=len(mods), module_list=mods, bfs_depth=info["depth"], new_states_per_layer=info["layers"],
                             fixpoint=info["fixpoint"], unexpanded_frontier=info["frontier_left"],
                             interpreter_processes=ex.processes, ordered_pairs_without_abstraction=npairs,
                             alone_imports_without_site=nbare, phases=ex.phases, interpreter="%s -I -W ignore" % PY)
    ck.assumptions = [
        "supported interpreter = /venv/bin/python (3.12); `-I` isolates from environment, user site and cwd; the driver imports only sys, os, zlib",
        "state abstraction: two paths are the same state when the same ioflo modules are in sys.modules with the same public "
        "namespaces (fingerprint over every loaded ioflo module) and the same imports failed",
        "every state is materialised in a fresh `python -I` interpreter that replays the path; a transition to a module that is "
        "not loaded yet runs in its own fresh interpreter (path replayed, then the import) -- or, with VERIF_C01_FORK=1, in an "
        "os.fork() of the state's interpreter; imports of already loaded modules run in place (a sys.modules lookup that runs no "
        "module code); additionally every module is imported alone in its own fresh `python -I -S` interpreter (no site: not "
        "even `collections` preloaded)",
        "`the result does not depend on what was imported before`: after every transition the namespace of every loaded ioflo "
        "module (what a following `import x` returns) must equal the namespace x has when imported alone",
        "namespace = public (no leading underscore) module attributes described by kind and defining module, excluding a package's own "
        "submodule attributes, which Python binds as a side effect of importing the submodule",
        "test packages (ioflo.**.test) are not library API and are excluded",
        "strict reading: any exception from an import statement is a violation; ioflo declares no required third-party package "
        "(install_requires=[]) and guards or defers every optional one (simplejson, win32file, netifaces, pyserial), so no allowance is needed",
    ]
    return ck.finish(
        rule="all %d non-test modules imported from every import state reachable in < %d imports; non-trivial = distinct "
             "state-to-state edge" % (len(mods), depth),
        exhaustive=info["fixpoint"],
        explanation="depth-bounded BFS; the lattice of unions of module closures is not exhausted (unexpanded frontier reported)")


if __name__ == "__main__":
    core.main(run)
