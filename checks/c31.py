"""C31 keep-alive connections carry N requests to N ordered, framed responses.  Engine C (net doubles):
a real Patron and a real Valet (WSGI) joined by socket doubles; stateless deviation-bounded DFS over the
schedule (which side is serviced next, how many bytes each recv returns) for every sequence of N <= 3
response kinds; oracle on the client's response queue and on the bytes on the wire."""
META = dict(
    engine="net", level="model_checking",
    technique="stateless deviation-bounded DFS (core.dfs) over environment schedules - which side (Patron / Valet) is serviced "
              "next and how many bytes each recv returns - of a real Patron and a real Valet over socket doubles, for every "
              "sequence of N <= 3 WSGI response kinds x request method; reference oracle on the client's response queue and a "
              "strict framing parse of the bytes on the wire",
    text="One keep-alive connection between a real ioflo Patron and a real ioflo Valet serving a WSGI app. The client queues N "
         "requests (N = 1, 2, 3; all GET or all POST with a body); request i asks for response kind k_i in {fixed: Content-Length "
         "and one body piece, stream: a generator without a length yielding three pieces with an empty piece before the first, between and after the "
         "last (fixed responses at odd positions also yield an empty piece first), empty: no length "
         "and an empty iterable}; all 3 + 9 + 27 kind sequences, plus 18 sequences with the "
         "body-less statuses 204 / 304 answered without Content-Length (alone and every pair with any kind, GET; thorough also "
         "with POST and (k, 204|304, k) triples), plus keep-alive sequences that switch between HEAD and GET / POST (HEAD; "
         "HEAD,HEAD; HEAD,GET; GET,HEAD; HEAD,POST; POST,HEAD with every kind for the non-HEAD request; thorough also "
         "HEAD,GET,HEAD and GET,HEAD,GET) - the app answers HEAD with the headers of the fixed response and no body. Schedule: the driver alternates Patron.serviceAll / "
         "Valet.serviceAll; servicing the same side again costs one deviation; a recv on either side may return 1 byte of "
         "what is waiting instead of everything (one deviation; the rest is read in the same pass, so this only varies the "
         "read pattern); every chunk of a chunked response may reach the client in two pieces with a client pass in between - "
         "the server socket accepts it only up to a cut right after the size line or in the middle of the data (one deviation "
         "per fragmented chunk); every request may reach the server "
         "in two pieces with a server pass in between - the client socket accepts it only up to a cut inside the request line, "
         "after the request line, after the first header, before the blank line, between head and body or inside the body (one "
         "deviation per fragmented request); all schedules with <= 2 deviations "
         "(quick; POST with N = 3 is left to the thorough tier) / <= 4 for N = 1 and the burst mode, <= 3 for N = 2 and "
         "N = 3 (thorough). A two-client mode connects two raw clients to one Valet: A "
         "sends GET for (stream, fixed), (fixed, stream) or (fixed, fixed), B sends HEAD then GET (control: GET, GET) for fixed "
         "responses; B's first request arrives before any one of the first 10 server passes of A's exchange (all 10 positions), "
         "then both send their second request; each connection is judged by the same wire oracle. A burst mode sends the N requests in one burst from a raw client socket (requests "
         "pipelined on the wire) and enumerates the server-side short reads and every two-piece split of the burst at the same cut positions of each request. Required: nothing raises; the client gets exactly N "
         "responses, in request order, each carrying the request that caused it (rid, path) and exactly the body the app produced "
         "for that request, both when delivered and at the end of the run; the app is called once per request in order; the bytes "
         "the server sent parse as exactly N self-delimiting responses (Content-Length or chunked) with the right bodies; the "
         "connection is still open on both sides and no second socket was opened; under fair alternation the exchange completes "
         "within a fixed number of service calls (a client waiting for a close to finish a response is a violation).",
    note="Socket doubles replace loopback sockets so that the harness owns the schedule. Short reads are limited to one cut "
         "point per recv (they are re-assembled within the pass; every cut point of a message is C29's subject). Server-side partial sends, connection loss and timeouts are "
         "not explored here (C24-C28); the only partial sends are the client's two-piece requests. N <= 3, deviation bound as stated; the liveness window is 18 service calls per request.",
)
from mc import core, net, httpharness as hh

PORT = 8080
KINDS = ("fixed", "stream", "empty")
BODILESS = {"204": "204 No Content", "304": "304 Not Modified"}      # answered without Content-Length, no body
DATE = "Thu, 01 Jan 2026 00:00:00 GMT"


def methods_of(method, n):
    """'GET' / 'POST' = every request; 'HEAD+GET' = one method per request."""
    ms = method.split("+")
    return ms if len(ms) == n and ("+" in method or n == 1) else [method] * n


def bound_for(mode, method, n):
    """Deviation bound per configuration (measured so that quick stays ~20 s and thorough ~12 min on 16 cores)."""
    if core.TIER != "thorough":
        if mode == "patron" and method == "POST" and n == 3:
            return None                 # not run in the quick tier
        return 2
    if mode == "burst":
        return 4
    if n == 1:
        return 4
    return 3
STEPS_PER_REQ = 18
TAIL = 4


def expected_body(kind, method, tag, reqbody):
    if kind == "fixed":
        return b"F:" + tag + b":" + method + b":" + reqbody
    if kind == "stream":
        return b"S:" + tag + b":" + method + b":" + reqbody
    return b""


def make_app(calls):
    def app(environ, start):
        path = environ["PATH_INFO"]
        kind, tag = path.strip("/").split("/")
        method = environ["REQUEST_METHOD"].encode()
        reqbody = environ["wsgi.input"].read()
        calls.append((environ["REQUEST_METHOD"], path, bytes(reqbody)))
        tag = tag.encode()
        if method == b"HEAD":         # the headers a GET would get, no body
            body = expected_body("fixed", b"GET", tag, reqbody)
            start("200 OK", [("Content-Type", "text/plain"), ("Date", DATE), ("Content-Length", str(len(body)))])
            return []
        if kind == "fixed":
            body = expected_body(kind, method, tag, reqbody)
            start("200 OK", [("Content-Type", "text/plain"), ("Date", DATE), ("Content-Length", str(len(body)))])
            if int(tag[1:]) % 2:          # control: a fixed-length response whose iterator is not ready at first
                return iter([b"", body])
            return [body]
        if kind == "stream":
            start("200 OK", [("Content-Type", "text/plain"), ("Date", DATE)])

            def gen():
                yield b""           # "not ready yet" before the first piece: allowed, writes nothing
                yield b"S:"
                yield b""           # ... between pieces
                yield tag
                yield b":" + method + b":" + reqbody
                yield b""           # ... and after the last piece
            return gen()
        if kind in BODILESS:
            start(BODILESS[kind], [("Date", DATE)])
            return []
        start("200 OK", [("Content-Type", "text/plain"), ("Date", DATE)])
        return []
    return app


def plan(kinds, method):
    out = []
    ms = methods_of(method, len(kinds))
    for i, k in enumerate(kinds):
        path = "/%s/t%d" % (k, i)
        body = (b"b%d" % i) if ms[i] == "POST" else b""
        out.append(dict(i=i, kind=k, path=path, body=body, method=ms[i], status=int(k) if k in BODILESS else 200,
                        expect=b"" if ms[i] == "HEAD" else expected_body(k, ms[i].encode(), b"t%d" % i, body)))
    return out


def head_only(reqs):
    return [rq["i"] for rq in reqs if rq["method"] == "HEAD"]


def wire_verdict(sent, reqs):
    """Judge the server->client byte stream. -> list of (kind, what)."""
    rsps, left, problem = hh.parse_responses(sent, head_only(reqs))
    out = []
    if problem == "undelimited":
        out.append(("undelimited-response",
                    "response %d on the wire has neither Content-Length nor chunked transfer coding and the connection stays "
                    "open: %r" % (len(rsps) + 1, left[:160])))
    elif problem is not None:
        out.append(("wire-%s" % problem, "bytes on the wire after %d complete responses do not parse (%s): %r"
                    % (len(rsps), problem, left[:160])))
    if problem is None and len(rsps) != len(reqs):
        out.append(("wire-count", "%d requests but %d responses on the wire" % (len(reqs), len(rsps))))
    for rq, rs in zip(reqs, rsps):
        if rs["status"] != rq["status"] or rs["body"] != rq["expect"]:
            out.append(("wire-wrong-response", "response %d on the wire: status %d body %r, expected %d %r"
                        % (rq["i"] + 1, rs["status"], rs["body"], rq["status"], rq["expect"])))
            break
    return out


def request_cuts(msg):
    """Interesting places to cut a request into two pieces: inside the request line, after the request line,
    after the first header line, before the blank line, between head and body, inside the body."""
    msg = bytes(msg)
    n = len(msg)
    l1 = msg.find(b"\r\n") + 2
    l2 = msg.find(b"\r\n", l1) + 2
    he = msg.find(b"\r\n\r\n") + 4
    out = []
    for k in (5, l1, l2, he - 2, he, he + 1):
        if 0 < k < n and k not in out:
            out.append(k)
    return out


def chunk_cuts(n):
    """A send of n bytes that is one packed chunk '<hex size>\\r\\n<data>\\r\\n' (data < 256 bytes): cut right after the
    size line and in the middle of the data (the terminating '0\\r\\n\\r\\n': after the size line)."""
    d = n - 5 if n - 5 < 16 else n - 6
    sl = n - d - 2
    return [sl] + ([sl + max(1, d // 2)] if d >= 2 else [])


class SchedPolicy(hh.CutPolicy):
    """CutPolicy (one short-read length per recv) plus two kinds of fragmentation across service passes (one
    deviation each): a send of the client that carries a whole request may be accepted only up to one of
    `request_cuts`, so the request reaches the server in two pieces with a server pass in between; a send of the
    server that carries one chunk of a chunked response may be accepted only up to one of `chunk_cuts`, so the
    chunk reaches the client in two pieces with a client pass in between."""

    def __init__(self, chooser):
        hh.CutPolicy.__init__(self, chooser, cuts=("one",))
        self.current_request = lambda: b""
        self.chunk_lengths = set()

    def decide(self, sock, op, cands):
        if op == "send" and len(cands) > 1 and cands[0][0] == "n":
            n = cands[0][1]
            msg = self.current_request()
            keep = [0]
            if "<" in sock.name:
                if n in self.chunk_lengths:
                    keep += [cands.index(("n", k)) for k in chunk_cuts(n) if ("n", k) in cands]
            elif len(msg) == n:
                keep += [cands.index(("n", k)) for k in request_cuts(msg) if ("n", k) in cands]
            if len(keep) == 1:
                return 0
            return keep[self.ch.choose(len(keep), "%s.send" % sock.name, 0, self.cost)]
        return hh.CutPolicy.decide(self, sock, op, cands)


def execute(ch, mode, kinds, method, part, states):
    """One execution. -> (list of (kind, what), schedule tokens, fn, extra)"""
    from ioflo.aio.http import serving, clienting
    FSM = hh.setup()
    policy = SchedPolicy(ch)
    fn = net.FakeNet(policy=policy, menu=net.Menu(recv_split=True, send_partial=True))
    FSM.net = fn
    ck = net.clock()
    calls = []
    reqs = plan(kinds, method)
    N = len(reqs)
    policy.chunk_lengths = {5}          # terminating chunk of every response without Content-Length
    for rq in reqs:
        if rq["kind"] == "stream" and rq["method"] != "HEAD":
            m = rq["method"].encode()
            for piece in (b"S:", b"t%d" % rq["i"], b":" + m + b":" + rq["body"]):
                policy.chunk_lengths.add(len(piece) + 5 + (1 if len(piece) >= 16 else 0))
    sched = []
    valet = serving.Valet(app=make_app(calls), ha=("", PORT), store=ck)
    if not valet.open():
        raise core.BrokenCheck("Valet.open failed on the fake net")

    def server_sock():
        return [s for s in fn.sockets if "<" in s.name]

    def snap(who):
        rq = list(valet.reqs.values())
        rp = list(valet.reps.values())
        ix = list(valet.servant.ixes.values())
        st = (mode, who, len(calls),
              tuple((bool(r.parser), bool(r.headed), bool(r.ended), len(r.msg)) for r in rq),
              tuple((bool(r.started), bool(r.headed), bool(r.chunked), bool(r.ended), bool(r.chunkable)) for r in rp),
              tuple((len(x.txes), len(x.rxbs)) for x in ix))
        return st

    viol = []
    if mode == "two":
        # two raw clients on one Valet: A asks for `kinds` (GET), B sends `method` requests for fixed responses; B's first
        # request arrives before the P-th server pass of A's first exchange (choice), then both send their second request
        policy.chunk_lengths = set()
        reqs_a, reqs_b = plan(kinds, "GET"), plan(("fixed", "fixed"), method)
        socks = {}
        for name in ("A", "B"):
            c = fn.socket(name=name)
            c.menu = net.Menu()
            if c.connect_ex(("127.0.0.1", PORT)) != 0:
                raise core.BrokenCheck("fake connect failed")
            socks[name] = c

        def raw(rq):
            head = "%s %s HTTP/1.1\r\nHost: 127.0.0.1:%d\r\n" % (rq["method"], rq["path"], PORT)
            return head.encode() + b"\r\n"

        def passes(n, at=None):
            for step in range(n):
                if step == at:
                    socks["B"].send(raw(reqs_b[0]))
                    sched.append("B")
                try:
                    valet.serviceAll()
                except Exception as ex:
                    viol.append(("raised|%s" % hh.exc_sig(ex), "Valet.serviceAll raised %r" % (ex,)))
                    return False
                ck.advance(0.01)
                part.transitions += 1
                states.add(hash(snap("S")))
                sched.append("S")
            return True

        first = 10
        socks["A"].send(raw(reqs_a[0]))
        j = ch.choose(first, "B-sends-before-pass", 0, 1)
        if passes(first, j):
            socks["A"].send(raw(reqs_a[1]))
            socks["B"].send(raw(reqs_b[1]))
            sched.append("AB")
            passes(8)
        if not viol:
            for name, rqs in (("A", reqs_a), ("B", reqs_b)):
                peer = socks[name].peer
                for kind, what in wire_verdict(bytes(peer.sent), rqs):
                    viol.append(("%s|%s" % (name, kind), "connection %s (%s): %s"
                                 % (name, ",".join("%s %s" % (r["method"], r["path"]) for r in rqs), what)))
                if socks[name].peer_closed:
                    viol.append(("%s|connection-closed" % name, "the server closed keep-alive connection %s" % name))
        return viol, sched, fn
    if mode == "burst":
        cli = fn.socket(name="raw")
        cli.menu = net.Menu()
        if cli.connect_ex(("127.0.0.1", PORT)) != 0:
            raise core.BrokenCheck("fake connect failed")
        burst = b""
        points = []
        for rq in reqs:
            head = "%s %s HTTP/1.1\r\nHost: 127.0.0.1:%d\r\n" % (rq["method"], rq["path"], PORT)
            if rq["body"]:
                head += "Content-Length: %d\r\n" % len(rq["body"])
            one = head.encode() + b"\r\n" + rq["body"]
            points += [len(burst) + k for k in request_cuts(one)]
            burst += one
        # the burst arrives whole (default) or in two pieces, cut inside / between the requests, with one
        # server pass in between
        c = ch.choose(len(points) + 1, "burst-split", 0, 1)
        if c == 0:
            cli.send(burst)
        else:
            cli.send(burst[:points[c - 1]])
            try:
                valet.serviceAll()
            except Exception as ex:
                return [("raised|%s" % hh.exc_sig(ex), "Valet.serviceAll raised %r after the first piece" % (ex,))], ["S!"], fn
            part.transitions += 1
            sched.append("S")
            cli.send(burst[points[c - 1]:])
        done_at = None
        for step in range(STEPS_PER_REQ * N + TAIL):
            try:
                valet.serviceAll()
            except Exception as ex:
                sched.append("S!")
                return [("raised|%s" % hh.exc_sig(ex), "Valet.serviceAll raised %r at service call %d" % (ex, step + 1))], sched, fn
            ck.advance(0.01)
            part.transitions += 1
            states.add(hash(snap("S")))
            sched.append("S")
            ss = server_sock()
            if done_at is None and ss and len(hh.parse_responses(ss[0].sent, head_only(reqs))[0]) >= N:
                done_at = step
            if done_at is not None and step >= done_at + 2:
                break
        ss = server_sock()
        sent = bytes(ss[0].sent) if ss else b""
        viol += wire_verdict(sent, reqs)
        if not viol and done_at is None:
            viol.append(("stalled", "%d service calls and the %d pipelined requests are not all answered" % (step + 1, N)))
        if bytes(cli.inbox) != sent:
            raise core.BrokenCheck("double lost bytes")
        if cli.peer_closed or len(valet.servant.ixes) != 1:
            viol.append(("connection-closed", "the server closed the keep-alive connection"))
    else:
        patron = clienting.Patron(hostname="127.0.0.1", port=PORT, store=ck)
        patron.open()
        patron.connector.cs.menu = net.Menu(recv_split=True, send_partial=True)
        policy.current_request = lambda: bytes(patron.requester.msg)
        for rq in reqs:
            patron.request(method=rq["method"], path=rq["path"], body=rq["body"], rid=rq["i"])
        delivered = []          # body bytes of response i at the moment it was first seen in .responses
        expected_side = "C"
        done_at = None
        cap = STEPS_PER_REQ * N + TAIL
        for step in range(cap):
            if done_at is None:
                c = ch.choose(2, "side", 0, 1)
                who = expected_side if c == 0 else ("S" if expected_side == "C" else "C")
            else:
                who = expected_side
            expected_side = "S" if who == "C" else "C"
            try:
                (patron if who == "C" else valet).serviceAll()
            except Exception as ex:
                sched.append(who + "!")
                return [("raised|%s" % hh.exc_sig(ex), "%s.serviceAll raised %r at service call %d"
                         % ("Patron" if who == "C" else "Valet", ex, step + 1))], sched, fn
            ck.advance(0.01)
            part.transitions += 1
            states.add(hash(snap(who) + (len(patron.responses), bool(patron.waited), len(patron.requests),
                                         len(patron.connector.rxbs), len(patron.connector.txes))))
            sched.append(who)
            rs = list(patron.responses)
            while len(delivered) < len(rs):
                delivered.append(bytes(rs[len(delivered)]["body"]))
            if len(rs) > N:
                viol.append(("extra-response", "%d responses for %d requests" % (len(rs), N)))
                break
            if done_at is None and len(rs) >= N and not patron.requests and not patron.waited:
                done_at = step
            if done_at is not None and step >= done_at + TAIL:
                break
        rs = list(patron.responses)
        ss = server_sock()
        sent = bytes(ss[0].sent) if ss else b""
        wv = wire_verdict(sent, reqs)
        if not viol and len(rs) < N:
            und = [w for w in wv if w[0] == "undelimited-response"]
            if und:
                viol.append(("stalled|undelimited-response",
                             "after %d fairly alternated service calls the client has %d of %d responses and waits for a "
                             "close that never comes: %s" % (len(sched), len(rs), N, und[0][1])))
                wv = [w for w in wv if w[0] != "undelimited-response"]
            else:
                viol.append(("stalled", "after %d service calls the client has %d of %d responses (waited=%s, queued=%d)"
                             % (len(sched), len(rs), N, patron.waited, len(patron.requests))))
        for i, (rq, r) in enumerate(zip(reqs, rs)):
            rqd = r.get("request") or {}
            if r.get("errored"):
                viol.append(("errored-response", "response %d is marked errored: %s" % (i + 1, r.get("error"))))
                break
            if rqd.get("rid") != rq["i"] or rqd.get("path") != rq["path"]:
                viol.append(("mismatched-request", "response %d carries request rid=%r path=%r, expected rid=%d path=%r"
                             % (i + 1, rqd.get("rid"), rqd.get("path"), rq["i"], rq["path"])))
                break
            if r.get("status") != rq["status"] or delivered[i] != rq["expect"]:
                viol.append(("wrong-body", "response %d delivered with status %r body %r, the app produced %d %r for that request"
                             % (i + 1, r.get("status"), delivered[i], rq["status"], rq["expect"])))
                break
            if bytes(r["body"]) != delivered[i]:
                viol.append(("body-changed-after-delivery",
                             "response %d was delivered with body %r; after later responses were parsed the same queued "
                             "response reads %r" % (i + 1, delivered[i], bytes(r["body"]))))
                break
        viol += wv
        if not viol:
            conn = patron.connector
            if conn.cutoff or not conn.connected or conn.cs is None or len(valet.servant.ixes) != 1 \
                    or len([s for s in fn.sockets if "<" not in s.name]) != 2:
                viol.append(("connection-closed", "the keep-alive connection did not survive: cutoff=%s connected=%s ixes=%d "
                             "sockets=%d" % (conn.cutoff, conn.connected, len(valet.servant.ixes), len(fn.sockets))))
    want = [(rq["method"], rq["path"], rq["body"]) for rq in reqs]
    if not viol and calls != want:
        viol.append(("app-calls", "the WSGI app was called with %r, expected %r" % (calls, want)))
    return viol, sched, fn


def sched_str(ch, sched):
    if ch.deviations() == 0:
        return "default"
    devs = []
    for i, (n, label, default, cost, c) in enumerate(ch.points):
        if c != default:
            devs.append("%d:%s=%d" % (i, label, c))
    return "%s devs[%s]" % ("".join(s[0] for s in sched), ",".join(devs))


def work(cfg):
    idx, mode, method, kinds, bound = cfg
    hh.setup()
    p = core.Part()
    states = set()
    best = {}

    def run(ch):
        with core.watchdog(30):
            viol, sched, fn = execute(ch, mode, kinds, method, p, states)
        p.traces += 1
        p.evaluations += 1
        if not viol and mode == "two":
            p.outcome("two clients ok")
        elif not viol:
            ss = [s for s in fn.sockets if "<" in s.name]
            fr = [r["framing"] for r in hh.parse_responses(ss[0].sent, head_only(plan(kinds, method)))[0]] if ss else []
            p.outcome("%s ok, framing on the wire: %s" % (mode, ",".join(fr)))
        for kind, what in viol:
            group = "%s|%s" % (mode, kind)
            p.outcome("violation %s" % group)
            rank = (ch.deviations(), len(kinds), idx, len(ch.choices), tuple(ch.choices))
            if group not in best or rank < best[group][0]:
                ss = [s for s in fn.sockets if "<" in s.name]
                best[group] = (rank, (
                    group,
                    "%s %s schedule=%s" % (method, ",".join(kinds), sched_str(ch, sched)),
                    "%s, %s requests for response kinds %s, schedule %s: %s"
                    % ("Patron+Valet" if mode == "patron" else "two raw clients A (GET) and B on one Valet; B's requests" if mode == "two"
                       else "raw pipelined client+Valet", method, ",".join(kinds),
                       sched_str(ch, sched), what),
                    dict(mode=mode, method=method, kinds=list(kinds), choices=ch.choices,
                         service_order="".join(s[0] for s in sched),
                         choice_points=[(lab, c) for (n, lab, d, cost, c) in ch.points if c != d],
                         server_sent=bytes(ss[0].sent) if ss else b"", what=what,
                         how="Valet(app, ha=('',8080)) and Patron(hostname='127.0.0.1', port=8080) over mc.net doubles; queue "
                             "the requests with patron.request(method, path='/<kind>/t<i>', body, rid=i); call "
                             "patron.serviceAll() / valet.serviceAll() in service_order (C = client, S = server); "
                             "choice_points list the non-default answers (side: same side again; <socket>.recv: index into "
                             "[all, 1 byte, half, all but one]; <socket>.send: the client socket accepted the request only up to the "
                             "index-th of [whole, 5, after request line, after first header, before blank line, head end, "
                             "head end + 1] and sent the rest in its next service call; burst-split: the raw burst was "
                             "written up to that cut, one valet.serviceAll(), then the rest)")))
        return None

    st = core.dfs(run, bound=bound)
    for h in states:
        p.keys.add(h.to_bytes(8, "little", signed=True))
    p.notes["dfs executions"] += st["executions"]
    if idx == 0:
        p.sample(dict(mode=mode, method=method, kinds=list(kinds), executions=st["executions"],
                      max_choice_points=st["max_points"]), limit=1)
    return p, {g: v for g, v in best.items()}


def configs():
    import itertools
    seqs = []
    for n in (1, 2, 3):
        seqs += list(itertools.product(KINDS, repeat=n))
    # body-less statuses without Content-Length (the Responder frames them as an empty chunked body): alone, every
    # pair with any kind, and in the middle of a triple
    more = KINDS + tuple(BODILESS)
    seqs += [(b,) for b in BODILESS]
    seqs += [p for p in itertools.product(more, repeat=2) if set(p) & set(BODILESS)]
    if core.TIER == "thorough":
        seqs += [(k, b, k) for b in BODILESS for k in KINDS]
    seqs.sort(key=len)
    # HEAD mixed with GET / POST on the keep-alive connection: the method changes to and from HEAD
    heads = [("HEAD", ("fixed",)), ("HEAD+HEAD", ("fixed", "fixed"))]
    for k in KINDS:
        heads += [("HEAD+GET", ("fixed", k)), ("GET+HEAD", (k, "fixed")), ("HEAD+POST", ("fixed", k)), ("POST+HEAD", (k, "fixed"))]
    if core.TIER == "thorough":
        for k in KINDS:
            heads.append(("HEAD+GET+HEAD", ("fixed", k, "fixed")))
            for k2 in KINDS:
                heads.append(("GET+HEAD+GET", (k, "fixed", k2)))
    cfgs = []
    for mode in ("patron", "burst"):
        for method in ("GET", "POST"):
            for kinds in seqs:
                b = bound_for(mode, method, len(kinds))
                if core.TIER != "thorough" and method == "POST" and set(kinds) & set(BODILESS):
                    b = None            # body-less statuses with POST: thorough only
                if b is not None:
                    cfgs.append((len(cfgs), mode, method, kinds, b))
        for method, kinds in heads:
            cfgs.append((len(cfgs), mode, method, kinds, bound_for(mode, "GET", len(kinds))))
    # two connections on one Valet: B's HEAD (control: GET) is parsed while A's response is in progress
    for method in ("HEAD+GET", "GET"):
        for kinds in (("stream", "fixed"), ("fixed", "stream"), ("fixed", "fixed")):
            cfgs.append((len(cfgs), "two", method, kinds, 1))
    return cfgs


def run():
    ck = core.Check("C31", META["level"], META["technique"])
    cfgs = configs()
    order = sorted(range(len(cfgs)), key=lambda i: (cfgs[i][1] != "patron", -cfgs[i][4] * len(cfgs[i][3]), i))   # long jobs first
    hh.merge_best(ck, core.pmap(work, [cfgs[i] for i in order]))
    ck.part.states = len(ck.part.keys)
    bounds = {}
    for c in cfgs:
        bounds["%s %s N=%d" % (c[1], c[2], len(c[3]))] = c[4]
    ck.coverage_extra = dict(deviation_bound=bounds, kind_sequences=len(set(c[3] for c in cfgs)), modes=["patron", "burst", "two"],
                             methods=["GET", "POST", "HEAD mixed with GET / POST"], configurations=len(cfgs), liveness_window_calls_per_request=STEPS_PER_REQ)
    ck.assumptions = [
        "socket doubles (mc/net.py) instead of loopback sockets; a recv returns everything waiting or 1 byte; sends are accepted "
        "whole except the scheduled two-piece requests (client) and two-piece chunks (server)",
        "'empty' is a 200 response whose WSGI iterable is empty and which declares no length; 'stream' is a generator without a "
        "length that also yields empty pieces - first, in the middle and last (allowed by the Responder: empty pieces are not "
        "written); a fixed response at an odd position yields an empty piece before its body",
        "'matched to the request that caused it' is read as: the queued response's request entry carries the rid / path of the "
        "i-th request and its body is what the app produced for that request, when delivered and still at the end of the run "
        "(responses are read from Patron.responses after all N arrived, as Patron.respond() users may do)",
        "'delimited so that the connection remains usable' is judged on the bytes the server sent: every response has "
        "Content-Length or chunked coding, and the connection is open on both sides afterwards",
        "liveness: with the deviation budget spent the driver alternates fairly; %d service calls per request are allowed"
        % STEPS_PER_REQ,
        "states = distinct snapshots (parser / responder flags, buffer lengths, queue lengths) seen after a service call; "
        "transitions = service calls; traces = executions compared with the oracle",
        "the store clock advances 0.01 s per service call so the idle timer (C28) never interferes",
    ]
    return ck.finish(
        rule="{Patron client, raw pipelined burst} x {GET, POST with body} x every sequence of 1..3 kinds from {fixed, stream, "
             "empty}: every schedule with <= b deviations among {service the same side again, recv returns 1 byte / half / all "
             "but one}; b per configuration: %s" % ", ".join("%s: %d" % kv for kv in sorted(bounds.items())),
        exhaustive=False,
        explanation="exhaustive within the deviation bound, N <= 3 and the three cut points per recv")


if __name__ == "__main__":
    core.main(run)
