"""C37 a RemoteStack's uid / name / address indexes stay mutually consistent.  Engine B: BFS over
add / move / rename / re-address / remove histories on a fresh real RemoteStack vs a plain reference model."""
META = dict(
    engine="seq", level="model_checking",
    technique="explicit-state BFS over remote add/move/rename/reha/remove/remove-all histories on a real RemoteStack, compared with a reference of one ordered member list after every step",
    text="A pool of remote device objects over uids {1,2,0,local 3}, names {a,b,'',local}, addresses {h1,h2,'',local} (falsy but legal keys included; a second "
         "configuration gives the local device the falsy keys 0/''/''): every history of "
         "'create object with chosen or automatic uid/name and add it', add again, moveRemote, renameRemote, rehaRemote, removeRemote (on members and "
         "on look-alike objects that are not in the stack) and removeAllRemotes is explored breadth first with canonical-state dedupe up to the depth bound; "
         "after every operation the three indexes, every object's uid/name/ha and the accept/reject result are compared with a reference model "
         "(one ordered member list, three key maps derived from it).  A second family starts from four members and explores remove / re-add / re-key "
         "histories, so that iteration order after removals in the middle is judged with three and four remotes.",
    note="Only RemoteStack itself (KeepStack adds files; Udp/Tcp stacks inherit these methods unchanged). Rejection means ValueError, the exception every documented rejecting path raises; "
         "a no-op move/rename/reha to the current value is accepted either way. Depth bounded, not a fixpoint.",
)
from mc import core

QUICK = core.TIER != "thorough"
MAX_DEPTH = 3 if QUICK else 4          # operations after the first creation
NOBJ = 4                               # object pool; the general family creates at most 3 of them
GEN_OBJ = 3
PRELOAD = [("new", 0, 1, "a", "h1"), ("new", 1, 2, "b", "h2"), ("new", 2, 4, "c", "h3"), ("new", 3, 5, "d", "h4")]
FOCUS_DEPTH = 3 if QUICK else 4        # operations after the four-member preload
LOCALS = dict(plain=dict(uid=3, name="local", ha="hl"),
              falsy=dict(uid=0, name="", ha=""),      # legal keys that are false in a boolean test
              ip=dict(uid=3, name="local", ha=("127.0.0.1", 9000)))   # UdpStack + IpLocalDevice / IpRemoteDevice, (host, port) addresses
IP_PRELOAD_HAS = [("10.0.0.1", 7000), ("127.0.0.1", 7000), ("10.0.0.3", 7000), ("10.0.0.4", 7000)]
IP_TARGETS = [("0.0.0.0", 7000), ("", 7000), ("localhost", 7000), ("0.0.0.0", 7001), ("0.0.0.0", 9000), ("10.0.0.1", 7000)]
LOOPBACK_SPELLINGS = ("0.0.0.0", "", "localhost")


def norm(ha):
    """The dotted form IpDevice's constructor gives an address (any-interface / empty / localhost -> loopback)."""
    if isinstance(ha, tuple) and ha and ha[0] in LOOPBACK_SPELLINGS:
        return ("127.0.0.1",) + tuple(ha[1:])
    return ha

LOCAL = dict(LOCALS["plain"], cfg="plain")
UIDS = [1, 2, 3, 0]
NAMES = ["a", "b", "", "local"]
HAS = ["h1", "h2", "", "hl"]


def set_local(cfg):
    """Select the local device's keys for this shard.  With the plain local device the remotes' universes contain the
    falsy keys (uid 0, name '', ha ''); with the falsy local device those are the local keys and 4 / c / h3 take their place."""
    LOCAL.clear()
    LOCAL.update(LOCALS[cfg], cfg=cfg)
    plain = cfg != "falsy"
    UIDS[:] = [1, 2, LOCAL["uid"], 0 if plain else 4]
    NAMES[:] = ["a", "b", "" if plain else "c", LOCAL["name"]]
    HAS[:] = ["h1", "h2", "" if plain else "h3", LOCAL["ha"]]
    if cfg == "ip":
        HAS[:] = [("127.0.0.1", 7000), ("0.0.0.0", 7000), ("10.0.0.2", 7000), LOCAL["ha"]]


def creations():
    out = []
    for u in (1, 2, None):
        for n in ("a", "b"):
            for h in (HAS[0], HAS[1]):
                out.append((u, n, h))
    out += [(LOCAL["uid"], "a", HAS[0]), (1, LOCAL["name"], HAS[0]), (1, "a", LOCAL["ha"]),
            (None, None, HAS[2] if LOCAL["cfg"] == "ip" else "h3")]
    return out


class Ref:
    """Reference: ordered list of member objects; every object's current (uid, name, ha)."""

    def __init__(self):
        self.order = []            # object indexes in insertion order
        self.attrs = {}            # obj -> [uid, name, ha]
        self.adopt = None

    def taken(self, field, value, skip=None):
        if value == (LOCAL["uid"], LOCAL["name"], LOCAL["ha"])[field]:
            return True
        return any(self.attrs[o][field] == value for o in self.order if o != skip)

    def add(self, o):
        if o in self.order or any(self.taken(f, self.attrs[o][f]) for f in range(3)):
            return "reject"
        self.order.append(o)
        return "ok"

    def change(self, o, field, new):
        self.adopt = None
        if field == 2 and LOCAL["cfg"] == "ip":
            # An Ip device may or may not rewrite the spelling of its address.  Required either way: a raw collision is
            # rejected, an accepted change leaves the remote at `new` or its dotted form, and (checked by the caller on the
            # indexes) the ha index holds every member under the address it currently reports.
            old = self.attrs[o][2]
            if o not in self.order:
                return None if norm(new) == old or new == old else "reject"
            if new == old:
                return None
            if self.taken(2, new):
                return "reject"
            self.adopt = (o, (new, norm(new)))
            if norm(new) != new and (norm(new) == old or self.taken(2, norm(new), skip=o)):
                return None        # taken only after normalisation: either answer
            return "ok"
        if self.attrs[o][field] == new:
            return None            # no-op: either answer accepted, nothing changes
        if o not in self.order or self.taken(field, new):
            return "reject"
        self.attrs[o][field] = new
        return "ok"

    def remove(self, o):
        if o not in self.order:
            return "reject"
        self.order.remove(o)
        return "ok"

    def clear(self):
        self.order = []
        return "ok"

    def dump(self):
        return dict(uid=[(self.attrs[o][0], o) for o in self.order],
                    name=[(self.attrs[o][1], o) for o in self.order],
                    ha=[(self.attrs[o][2], o) for o in self.order],
                    objs=[tuple(self.attrs[o]) if o in self.attrs else None for o in range(NOBJ)])


class Run:
    def __init__(self, history):
        from ioflo.aio.proto import stacking
        if LOCAL["cfg"] == "ip":
            class NoSocket(object):
                """handler double: UdpStack only needs it to open"""
                ha = LOCAL["ha"]
                opened = False
                def reopen(self):
                    self.opened = True
                    return True
                def close(self):
                    self.opened = False
            self.stack = stacking.UdpStack(handler=NoSocket(), puid=2, uid=LOCAL["uid"], name=LOCAL["name"], ha=LOCAL["ha"])
        else:
            self.stack = stacking.RemoteStack(puid=2, uid=LOCAL["uid"], name=LOCAL["name"], ha=LOCAL["ha"])
        self.objs = [None] * NOBJ
        self.ref = Ref()
        self.diverged = None
        self.last = None
        for op in history:
            if self.diverged:
                break
            self.step(op)

    def idx(self, obj):
        for i, o in enumerate(self.objs):
            if o is obj:
                return i
        return "?%r" % (obj,)

    def dump(self):
        s = self.stack
        return dict(uid=[(k, self.idx(v)) for k, v in s.uidRemotes.items()],
                    name=[(k, self.idx(v)) for k, v in s.nameRemotes.items()],
                    ha=[(k, self.idx(v)) for k, v in s.haRemotes.items()],
                    objs=[(o.uid, o.name, o.ha) if o is not None else None for o in self.objs])

    def canon(self):
        d = self.dump()
        return (tuple(d["uid"]), tuple(d["name"]), tuple(d["ha"]), tuple(d["objs"]), self.stack.puid,
                (self.stack.local.uid, self.stack.local.name, self.stack.local.ha),
                tuple(o is not None and o.stack is self.stack for o in self.objs))

    def step(self, op):
        from ioflo.aio.proto import devicing
        kind = op[0]
        s, ref = self.stack, self.ref
        before = self.dump()
        note = None
        try:
            if kind == "new":
                _, i, u, n, h = op
                klass = devicing.IpRemoteDevice if LOCAL["cfg"] == "ip" else devicing.RemoteDevice
                obj = klass(stack=s, uid=u, name=n, ha=h)
                self.objs[i] = obj
                ref.attrs[i] = [obj.uid, obj.name, obj.ha]
                if u is None and (ref.taken(0, obj.uid)):
                    note = ("new|auto-uid-collides", "automatic uid %r collides with an existing remote or the local device" % (obj.uid,))
                if u is not None and ((obj.uid, obj.name) != (u, n) or obj.ha not in (h, norm(h))):
                    note = ("new|attributes", "RemoteDevice(uid=%r,name=%r,ha=%r) has %r" % (u, n, h, (obj.uid, obj.name, obj.ha)))
                exp = ref.add(i)
                s.addRemote(obj)
            elif kind == "add":
                exp = ref.add(op[1])
                s.addRemote(self.objs[op[1]])
            elif kind == "move":
                exp = ref.change(op[1], 0, op[2])
                s.moveRemote(self.objs[op[1]], op[2])
            elif kind == "rename":
                exp = ref.change(op[1], 1, op[2])
                s.renameRemote(self.objs[op[1]], op[2])
            elif kind == "reha":
                exp = ref.change(op[1], 2, op[2])
                try:
                    s.rehaRemote(self.objs[op[1]], op[2])
                finally:
                    pass
                if ref.adopt:          # Ip configuration, accepted: take the address the device now reports
                    o, allowed = ref.adopt
                    now = self.objs[o].ha
                    if now not in allowed:
                        note = ("reha|address-not-set", "after %s the remote reports ha %r" % (op_str(op), now))
                    ref.attrs[o][2] = now
                    if ref.taken(2, now, skip=o):
                        note = ("reha|members-share-current-address", "after %s the remote reports ha %r, which the local device or another member also reports"
                                % (op_str(op), now))
            elif kind == "remove":
                exp = ref.remove(op[1])
                s.removeRemote(self.objs[op[1]])
            elif kind == "clear":
                exp = ref.clear()
                s.removeAllRemotes()
            else:
                raise core.BrokenCheck("unknown op %r" % (op,))
            got = "ok"
        except ValueError:
            got = "reject"
        except core.BrokenCheck:
            raise
        except Exception as ex:
            got = "raises %s: %s" % (type(ex).__name__, ex)
        self.last = (got, exp)
        after = self.dump()
        want = ref.dump()
        if note:
            self.diverged = note
        elif got.startswith("raises"):
            self.diverged = ("%s|%s (reference: %s)" % (kind, got, exp), "%s %s; the reference %ss this operation" % (op_str(op), got, exp))
        elif exp is not None and got != exp:
            self.diverged = ("%s|%s-but-reference-%s" % (kind, got, exp),
                             "%s was %s, reference says %s (indexes before: %r)" % (op_str(op), got, exp, before))
        elif after != want:
            if got == "reject":
                k = "rejected-but-changed"
            else:
                bad = [f for f in ("uid", "name", "ha", "objs") if after[f] != want[f]]
                same_sets = all(sorted(map(repr, after[f])) == sorted(map(repr, want[f])) for f in ("uid", "name", "ha"))
                k = ("order-" if same_sets and bad != ["objs"] else "content-") + "+".join(bad)
            self.diverged = ("%s|%s" % (kind, k), "after %s (%s): indexes %r, reference %r" % (op_str(op), got, after, want))
        else:
            # invariants stated directly (independent of the reference bookkeeping)
            for f, loc in (("uid", LOCAL["uid"]), ("name", LOCAL["name"]), ("ha", LOCAL["ha"])):
                if any(k == loc for k, _ in after[f]):
                    self.diverged = ("%s|local-key-in-%s-index" % (kind, f), "after %s the %s index holds the local device's key" % (op_str(op), f))
            if not ([o for _, o in after["uid"]] == [o for _, o in after["name"]] == [o for _, o in after["ha"]]):
                self.diverged = ("%s|indexes-disagree" % kind, "after %s: %r" % (op_str(op), after))


def op_str(op):
    k = op[0]
    if k == "new":
        return "new%d(uid=%r,name=%r,ha=%r)" % op[1:]
    if k in ("add", "remove"):
        return "%s%d" % (k, op[1])
    if k == "clear":
        return "removeAll"
    return "%s%d->%r" % (k, op[1], op[2])


def hist_str(h):
    pre = dict(plain="", falsy="[local uid=0 name='' ha=''] ", ip="[UdpStack, IpRemoteDevice, local ha=('127.0.0.1', 9000)] ")[LOCAL["cfg"]]
    return pre + " ".join(op_str(o) for o in h)


def focused_ops(run):
    """Second family: four members are already in the stack; remove / re-add / re-key (to the local key, a free key,
    an occupied key) each of them, so that removals in the middle followed by moves/renames/rehas are reached."""
    ops = []
    for i in range(NOBJ):
        ip = LOCAL["cfg"] == "ip"       # Ip configuration: the address alphabet is the point, one free uid / name suffices
        for u in ((6,) if ip else (LOCAL["uid"], 6, 1)):
            ops.append(("move", i, u))
        for n in (("e",) if ip else (LOCAL["name"], "e", "a")):
            ops.append(("rename", i, n))
        for h in ([LOCAL["ha"]] + IP_TARGETS if LOCAL["cfg"] == "ip" else (LOCAL["ha"], "h5", "h1")):
            ops.append(("reha", i, h))
        ops.append(("remove", i))
        ops.append(("add", i))
    ops.append(("clear",))
    return ops


def enabled_ops(run):
    ops = []
    created = [i for i, o in enumerate(run.objs) if o is not None]
    for i in created:
        for u in UIDS:
            ops.append(("move", i, u))
        for n in NAMES:
            ops.append(("rename", i, n))
        for h in HAS:
            ops.append(("reha", i, h))
        ops.append(("remove", i))
        ops.append(("add", i))
    nxt = len(created)
    if nxt < GEN_OBJ:
        for (u, n, h) in creations():
            ops.append(("new", nxt, u, n, h))
    ops.append(("clear",))
    return ops


def work(arg):
    family, first, lcfg = arg
    set_local(lcfg)
    core.use_repo()
    p = core.Part()
    if family == "gen":
        h0 = [("new", 0) + tuple(first)]
        depth, opsfn = MAX_DEPTH, enabled_ops
    else:
        pre = PRELOAD if lcfg != "ip" else [op[:4] + (IP_PRELOAD_HAS[op[1]],) for op in PRELOAD]
        h0 = pre + [first]
        depth, opsfn = FOCUS_DEPTH - 1, focused_ops

    def build(history):
        p.evaluations += 1
        return Run(history)

    def enabled(run, history):
        return [] if run.diverged else opsfn(run)

    def check(run, history):
        p.traces += 1
        if run.diverged:
            group, what = run.diverged
            p.outcome("diverged:" + group)
            p.violation(group, hist_str(history), what,
                        dict(local=dict(LOCAL), ops=[list(o) for o in history], nops=len(history),
                             how="stack = RemoteStack(puid=2, uid/name/ha = the 'local' entry of this file) (Ip configuration: UdpStack(handler=double, ...) and IpRemoteDevice); newK(u,n,h) = obj K = RemoteDevice(stack, uid=u, name=n, ha=h); "
                                 "stack.addRemote(obj K); addK/removeK = stack.addRemote/removeRemote(obj K); moveK->x / renameK->x / rehaK->x = "
                                 "stack.moveRemote/renameRemote/rehaRemote(obj K, x); removeAll = stack.removeAllRemotes()",
                             divergence=what))
            return True
        got, exp = run.last
        p.outcome("%s:%s" % (history[-1][0], got if exp is not None else "noop-" + got))
        return False

    with core.watchdog(3000):
        res = core.bfs(h0, enabled, build, lambda r: r.canon(), check=check, max_depth=depth)
    p.states = res["states"]
    p.transitions = res["transitions"]
    p.notes["depth_reached=%d" % res["max_depth"]] += 1
    p.extra["fixpoint"] = False
    p.sample(dict(first=hist_str(h0), states=res["states"], transitions=res["transitions"], depth=res["max_depth"]))
    return p


def run():
    import gc
    gc.collect()
    gc.freeze()          # forked workers then do not copy the parent heap page by page
    ck = core.Check("C37", "model_checking", META["technique"])
    gen_cfgs = ["plain"] if QUICK else ["plain", "falsy"]
    foc_cfgs = ["falsy", "ip"] if QUICK else ["falsy", "plain", "ip"]
    if not QUICK:
        gen_cfgs.append("ip")
    items = []
    for lc in gen_cfgs:
        set_local(lc)
        items += [("gen", c, lc) for c in creations()]
    for lc in foc_cfgs:
        set_local(lc)
        items += [("focus", op, lc) for op in focused_ops(None)]
    set_local("plain")
    parts = core.pmap(work, items)
    # keep, per violation group, the shortest history (ties: first shard) so the key is the minimal one
    best = {}
    for si, p in enumerate(parts):
        for v in p.violations:
            n = (v[3] or {}).get("nops", 99) if isinstance(v[3], dict) else 99
            if v[0] not in best or (n, si) < best[v[0]][0]:
                best[v[0]] = ((n, si), v)
        p.violations = []
    ck.merge(parts)
    ck.part.violations = [best[g][1] for g in sorted(best, key=lambda g: (best[g][0], g))]
    ck.coverage_extra = dict(first_operations=len(creations()), max_depth_after_first=MAX_DEPTH, objects=GEN_OBJ,
                             focused_family=dict(preload=[op_str(o) for o in PRELOAD], operations_after_preload=FOCUS_DEPTH, shards=len(focused_ops(None))),
                             universe=dict(uids=list(UIDS), names=list(NAMES), has=list(HAS), local=dict(LOCAL)),
                             local_device_configs=dict(general_family=gen_cfgs, focused_family=foc_cfgs, falsy=LOCALS["falsy"]))
    ck.assumptions = [
        "Ip configuration (UdpStack on a handler double, IpLocalDevice, IpRemoteDevice, (host, port) addresses incl. spellings the constructor rewrites: "
        "'0.0.0.0', '', 'localhost'): a device may report an address in the given or in the dotted form; required is that the ha index holds every member under the "
        "address it currently reports, members' current addresses are distinct and differ from the local one, a raw collision is rejected, and a collision that only "
        "exists after normalisation may be accepted or rejected",
        "uid 0, name '' and ha '' are legal keys like any other (ha '' is the default address of a device); they occur as remote keys when the local device has "
        "plain keys and as the local device's keys in the other configuration",
        "a rejected operation is one that raises ValueError (what every documented rejecting path of RemoteStack raises); any other exception is reported",
        "moving/renaming/re-addressing a remote to the value it already has is a no-op that may be accepted or rejected; nothing may change",
        "automatic uids: only uniqueness against current members and the local device is required, the assigned value is taken from the implementation",
        "states deduplicated globally on (three ordered indexes, every object's uid/name/ha/stack link, stack.puid); states counted per first-operation shard (shards may overlap)",
    ]
    return ck.finish(
        rule="BFS from each of %d first creations; operations: create next object (16 uid/name/ha choices incl. automatic uid/name and local-colliding keys) and add it, "
             "re-add, move to each uid, rename to each name, reha to each address, remove (each existing object, member or not), removeAllRemotes; "
             "%d operations after the first; second family: from a stack preloaded with four members, every history of %d operations over "
             "{move/rename/reha each member to the local, a free and an occupied key, remove, re-add, removeAll}; reference (one member order shared by "
             "the three indexes, re-keyed remotes keep their position) compared after every operation" % (len(creations()), MAX_DEPTH, FOCUS_DEPTH),
        exhaustive=False,
        explanation="complete for all histories of at most %d operations over the stated universe and of %d operations after the four-member preload; not a fixpoint" % (MAX_DEPTH + 1, FOCUS_DEPTH))


if __name__ == "__main__":
    core.main(run)
