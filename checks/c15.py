"""C15 optional clauses of a command may appear in any order.  Engine A (real Builder, build only)."""
META = dict(
    engine="flo", level="exploration",
    technique="bounded-exhaustive enumeration of clause subsets x permutations through the real FloScript Builder; "
              "structural dump equality against the documented clause order (no sampling)",
    text="For framer, frame, do, logger, log, server, aux (with and without its trailing condition), rear, raze and the "
         "need clauses 'in frame'/'by' (in go and let), every subset of the optional clauses (up to 4 clauses per command in quick, "
         "6 in thorough; all subsets for verbs with at most 5 clauses) is written in every order, built with the real Builder "
         "from an in-memory file, and the structural dump of the resulting house (framers, frames, links, every act with actor "
         "class/name/inits/ioinits/parms/inode/context, loggers, logs, servers, initial shares) is compared with the dump for "
         "the documented order; if the documented order fails, every order must fail with the same error. framer, logger and "
         "server are additionally enumerated for every schedule (`be` active/inactive/aux/slave/moot resp. active/inactive/"
         "slave) x every order (`in` front/mid/back), so the house list a tasker lands in (fronts/mids/backs/taskables/"
         "slaves/auxes/moots, all in the dump) cannot depend on clause order. Each verb has two "
         "clause-text variants (multi-word names, field lists present/absent, relation clauses with optional names).",
    note="Each clause sets a distinct key, so order-dependent overriding is excluded by construction; the act's 'human' string "
         "(the command text itself) is excluded from the comparison. Clause texts are fixed per variant, not enumerated.",
)
import hashlib
import itertools
from mc import core


def _load():
    core.use_repo()
    from mc.flo import scripts
    return scripts


def maxk():
    return 6 if core.TIER == "thorough" else 4


def items():
    """(family index, subset) work items, smallest subsets first."""
    scripts = _load()
    out = []
    for fi, fam in enumerate(scripts.CLAUSE_FAMILIES):
        n = len(fam["clauses"])
        k = n if n <= 5 else maxk()
        for sub in scripts.family_subsets(fam, k):
            out.append((len(sub), fi, sub))
    out.sort(key=lambda t: (t[0], t[1]))   # stable: subsets stay in combination order
    return [(fi, sub) for _, fi, sub in out]


def observe(scripts, fam, order, cache):
    key = (fam["name"], tuple(order))
    if key not in cache:
        text, cmd = scripts.family_script(fam, order)
        b = scripts.build(text, limit=5.0)
        if b.kind == "Watchdog":          # loaded machine? a real hang is C14's business, here it is just an outcome
            b = scripts.build(text, limit=30.0)
        if b.ok:
            obs = ("ok", hashlib.blake2b(scripts.dumps(b, drop_human=True).encode(), digest_size=12).hexdigest())
        elif b.kind == "Watchdog":
            obs = ("fail", "Watchdog: build does not terminate")
        else:
            obs = ("fail", scripts.failure_sig(b))
        cache[key] = (obs, cmd, text)
    return cache[key]


def divergence(ref, got):
    if ref[0] == "ok" and got[0] == "ok":
        return "built house differs"
    if ref[0] == "ok":
        return "documented order builds, this order fails"
    if got[0] == "ok":
        return "documented order fails, this order builds"
    return "different error"


def work(batch):
    scripts = _load()
    p = core.Part()
    cache = {}
    for fi, sub in batch:
        fam = scripts.CLAUSE_FAMILIES[fi]
        if len(cache) > 20000:
            cache.clear()
        ref, refcmd, _ = observe(scripts, fam, sub, cache)
        p.outcome("%s canonical %s" % (fam["verb"], ref[0] if ref[0] == "ok" else ref[1].split(":")[0]))
        for perm in itertools.permutations(sub):
            got, cmd, text = observe(scripts, fam, perm, cache)
            p.evaluations += 1
            if len(sub) >= 2:
                p.nontrivial(fam["name"] + "|" + cmd)
            if p.evaluations % 997 == 1:
                p.sample(dict(family=fam["name"], command=cmd, outcome=got[0]))
            if got == ref:
                continue
            # culprit: the smallest pair of clauses of this subset whose two orders already disagree
            culprit = None
            for a, b in itertools.combinations(sub, 2):
                o1, c1, _ = observe(scripts, fam, (a, b), cache)
                o2, c2, _ = observe(scripts, fam, (b, a), cache)
                if o1 != o2:
                    culprit = (a, b, o1, o2, c1, c2)
                    break
            if culprit:
                a, b, o1, o2, c1, c2 = culprit
                group = "%s|%s+%s|%s" % (fam["name"], a, b, divergence(o1, o2))
                example = "%s <> %s" % (c1, c2)
                what = "%s: '%s' and '%s' build differently (%s / %s)" % (
                    fam["verb"], c1, c2, _short(o1), _short(o2))
                t1, _ = scripts.family_script(fam, (a, b))
                t2, _ = scripts.family_script(fam, (b, a))
                replay = dict(script_a=t1, script_b=t2, outcome_a=_short(o1, 400), outcome_b=_short(o2, 400),
                              how="build each script with ioflo.base.building.Builder and compare the houses")
            else:
                group = "%s|%s|%s" % (fam["name"], "+".join(sub), divergence(ref, got))
                example = "%s <> %s" % (refcmd, cmd)
                what = "%s: '%s' and '%s' build differently (%s / %s)" % (
                    fam["verb"], refcmd, cmd, _short(ref), _short(got))
                t1, _ = scripts.family_script(fam, sub)
                replay = dict(script_a=t1, script_b=text, outcome_a=_short(ref, 400), outcome_b=_short(got, 400),
                              how="build each script with ioflo.base.building.Builder and compare the houses")
            p.violation(group, example, what, replay)
    return p


def _short(obs, n=90):
    if obs[0] == "ok":
        return "builds"
    return obs[1][:n]


def run():
    ck = core.Check("C15", META["level"], META["technique"])
    its = items()
    n = max(1, core.NPROC * 4)
    # contiguous-by-stride batches keep "smallest first" inside every batch; merge order is batch order
    batches = [its[i::n] for i in range(n)]
    batches = [b for b in batches if b]
    parts = _load().pmap(work, batches)
    ck.merge(parts)
    # violations: keep deterministic smallest-first order across batches
    ck.part.violations.sort(key=lambda v: (len(v[1]), v[0], v[1]))
    scripts = _load()
    ck.coverage_extra = dict(
        families=[f["name"] for f in scripts.CLAUSE_FAMILIES],
        clauses_per_family={f["name"]: len(f["clauses"]) for f in scripts.CLAUSE_FAMILIES},
        subsets=len(its), max_clauses_per_command=maxk())
    ck.assumptions = [
        "documented clause order (the build* docstrings) is the reference; equality is on the structural dump of the built house "
        "minus the 'human' command string, or on (error class, message) when the build fails",
        "each optional clause sets a key no other clause sets, so 'later clause overrides earlier' semantics cannot differ by order",
        "clause argument texts are two fixed variants per verb; subsets limited to %d clauses for verbs with more than 5" % maxk(),
    ]
    return ck.finish(
        rule="every subset (size <= %d, all sizes for verbs with <= 5 clauses) of the optional clauses of each of %d command "
             "scaffolds x every permutation; non-trivial = permutation of a subset with >= 2 clauses (distinct command line)"
             % (maxk(), len(scripts.CLAUSE_FAMILIES)),
        exhaustive=True)


if __name__ == "__main__":
    core.main(run)
