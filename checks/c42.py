"""C42 timers report elapsed, remaining and expiry consistently with their clock.  Engine B (seq): explicit-state
BFS over interleaved clock moves and timer operations on fresh real timers under a fake clock, against a reference model."""
META = dict(
    engine="seq", level="model_checking",
    technique="explicit-state BFS over histories of clock moves (forward, retrograde) and timer operations, replay-from-history on fresh real "
              "timers under a substituted clock, canonical-state dedupe (time-translation invariant), reference model compared after every step",
    text="Timer, MonoTimer (with and without retrograde compensation) and StoreTimer (on a Stamper and on a real Store), each with initial duration 0 "
         "and 1 and created at clock 1000.0, at clock 0.0 and (StoreTimer) on a not yet stamped store, are driven by a fake clock "
         "(ioflo.aid.timing.time replaced by an object whose time() returns a harness variable; StoreTimer reads store.stamp): every history up to "
         "depth 5 (quick) / 8 (thorough; MonoTimer one less) of clock +0.25, +1, -0.5, restart(), restart(start= relative and absolute 0.0 / 0.5), restart(duration), repeat(), extend(), extend(+x), "
         "extend(-x) and, for MonoTimer where reading has a side effect, reads of elapsed / remaining / expired.  After every step start, stop, duration "
         "(and latest) of the real timer must equal the model, elapsed == max(0, clock - start), remaining == max(0, stop - clock), expired == "
         "(clock >= stop); the MonoTimer model first shifts start and stop by a backward jump since the last look (or raises TimerRetroError) and then "
         "applies the operation.  Four more configurations keep two MonoTimers alive on the same clock (retro True/False x True/False, the second "
         "constructed at any point) and judge each against its own independent reference.  All times are dyadic, so float arithmetic is exact.",
    note="The real clock is never read.  An uncompensated MonoTimer that raised is required to be unchanged (it keeps raising until the clock catches up); return values "
         "of restart/repeat/extend are not compared; extend(-x) is only applied while it keeps the duration non-negative.",
)
import collections

from mc import core


class FakeTimeModule:
    """stands in for the `time` module inside ioflo.aid.timing"""

    def __init__(self):
        self.now = 1000.0

    def time(self):
        return self.now


KINDS = [("Timer", "Timer(duration=%r)", False), ("MonoTimer", "MonoTimer(duration=%r, retro=False)", True),
         ("MonoTimer(retro)", "MonoTimer(duration=%r, retro=True)", True), ("StoreTimer", "StoreTimer(st, duration=%r)", False),
         ("StoreTimer(Store)", "StoreTimer(st, duration=%r)", False)]
# (kind, clock reading at creation, initial duration).  Base 0.0 = the very beginning of a run (start/stop can be exactly 0.0);
# base None = a store that has not been stamped yet (StoreTimer then starts at 0.0).
CONFIGS = ([(k, b, d) for k in range(4) for b in (1000.0, 0.0) for d in (1.0, 0.0)]
           + [(3, None, d) for d in (1.0, 0.0)]
           + [(4, b, d) for b in (0.0, None) for d in (1.0, 0.0)])


def is_store(kind):
    return KINDS[kind][0].startswith("StoreTimer")


def init_text(kind, base, dur):
    name, ctor, _ = KINDS[kind]
    if name == "StoreTimer":
        if base is None:
            return "st = Stamper(); st.stamp = None; t = " + ctor % dur
        return "st = Stamper(%r); t = " % base + ctor % dur
    if name == "StoreTimer(Store)":
        return "Store.Clear(); st = Store(stamp=%r); t = " % base + ctor % dur
    return "clk.now = %r; t = " % base + ctor % dur


def clock_text(kind, delta):
    if is_store(kind):
        return "st.changeStamp((st.stamp or 0.0) + %r)" % delta
    return "clk.now += %r" % delta


# ------------------------------------------------------------------ model
# state = (start, stop, duration, latest, clock); latest is None for Timer / StoreTimer

def look(kind, st):
    """MonoTimer.update semantics per the statement: -> list of (state, raised?) alternatives"""
    start, stop, dur, latest, clock = st
    if latest is None:
        return [(st, False)]
    d = clock - latest
    if d < 0:
        if KINDS[kind][0] == "MonoTimer(retro)":
            return [((start + d, stop + d, dur, clock, clock), False)]
        return [(st, True)]      # raises and the failed look leaves the timer alone: it keeps raising until the clock has caught up
    return [((start, stop, dur, clock, clock), False)]


def apply_model(kind, st, op):
    """-> list of alternatives (state, outcome) ; outcome = 'ok' | 'TimerRetroError' | ('value', v)"""
    name = op[0]
    if name == "clock":
        return [(st[:4] + ((st[4] or 0.0) + op[1],), "ok")]
    out = []
    for s, raised in look(kind, st):
        if raised:
            out.append((s, "TimerRetroError"))
            continue
        start, stop, dur, latest, clock = s
        if name == "elapsed":
            out.append((s, ("value", max(0.0, clock - start))))
        elif name == "remaining":
            out.append((s, ("value", max(0.0, stop - clock))))
        elif name == "expired":
            out.append((s, ("value", clock >= stop)))
        elif name == "restart":
            out.append(((clock, clock + dur, dur, latest, clock), "ok"))
        elif name == "restart_start":
            b = abs(clock + op[1])
            out.append(((b, b + dur, dur, latest, clock), "ok"))
        elif name == "restart_abs":
            out.append(((abs(op[1]), abs(op[1]) + dur, dur, latest, clock), "ok"))
        elif name == "restart_duration":
            out.append(((clock, clock + op[1], op[1], latest, clock), "ok"))
        elif name == "repeat":
            out.append(((stop, stop + dur, dur, latest, clock), "ok"))
        elif name == "extend":
            ext = dur if op[1] is None else op[1]
            out.append(((start, start + dur + ext, dur + ext, latest, clock), "ok"))
        else:
            raise core.BrokenCheck("op %r" % (op,))
    return out


def op_text(kind, op):
    name = op[0]
    if name == "clock":
        return clock_text(kind, op[1])
    if name in ("elapsed", "remaining", "expired"):
        return "t." + name
    if name == "restart":
        return "t.restart()"
    if name == "restart_start":
        return "t.restart(start=%s %s %r)" % ("st.stamp" if is_store(kind) else "clk.now",
                                               "-" if op[1] < 0 else "+", abs(op[1]))
    if name == "restart_abs":
        return "t.restart(start=%r)" % op[1]
    if name == "restart_duration":
        return "t.restart(duration=%r)" % op[1]
    if name == "repeat":
        return "t.repeat()"
    if name == "extend":
        return "t.extend()" if op[1] is None else "t.extend(%r)" % op[1]


def ops_for(kind):
    ops = [("clock", 0.25), ("clock", 1.0), ("clock", -0.5)]
    if is_store(kind):
        ops.append(("clock", 0.0))          # first stamping of an unstamped store at 0.0
    if KINDS[kind][2]:
        ops += [("elapsed",), ("remaining",), ("expired",)]
    ops += [("restart",), ("restart_start", -0.5), ("restart_start", 0.25), ("restart_abs", 0.0), ("restart_abs", 0.5),
            ("restart_duration", 0.5), ("repeat",), ("extend", None), ("extend", 0.5), ("extend", -0.25)]
    return ops


def enabled(st, op):
    clock = st[4]
    if op[0] == "extend" and op[1] is not None and op[1] < 0:
        return st[2] + op[1] >= 0           # a shrink below zero has no stated meaning
    if op[0] == "clock":
        if op[1] == 0.0:
            return clock is None            # only as the first stamp
        if op[1] < 0:
            if clock is None or clock + op[1] < 0:
                return False                # clock readings stay non-negative
            if st[3] is not None and clock + op[1] < st[3] and st[0] + (clock + op[1] - st[3]) < 0:
                return False                # would shift a compensated start below zero: times are non-negative in ioflo
    if clock is None and op[0] in ("restart", "restart_start", "restart_duration"):
        return False                        # 'restart at the current time' has no meaning before the store is stamped
    return True


# ------------------------------------------------------------------ real side

class Real:
    def __init__(self, timing, storing, kind, base, dur):
        self.kind = kind
        self.clk = timing.time               # the installed FakeTimeModule
        self.ns = dict(clk=self.clk, Timer=timing.Timer, MonoTimer=timing.MonoTimer, StoreTimer=timing.StoreTimer,
                       Stamper=timing.Stamper, Store=storing.Store)
        exec(init_text(kind, base, dur), self.ns)
        self.t = self.ns["t"]

    def clock(self):
        return self.ns["st"].stamp if "st" in self.ns else self.clk.now

    def state(self):
        t = self.t
        return (t.start, t.stop, t.duration, getattr(t, "latest", None), self.clock())

    def run(self, text):
        try:
            return ("value", eval(text, self.ns)) if text.startswith("t.") and "(" not in text else ("ok", exec(text, self.ns))
        except Exception as ex:
            return ("exc", type(ex).__name__)


def canon(st):
    """relative to the clock (the timer code is translation invariant) plus the facts that are not: a start or stop of
    exactly 0.0 and an unstamped clock"""
    start, stop, dur, latest, clock = st
    if clock is None:
        return ("unstamped", start, stop, dur)
    return (start - clock, stop - clock, dur, None if latest is None else latest - clock, start == 0.0, stop == 0.0, clock == 0.0)


def explore(arg):
    cfg, depth = arg
    kind, base, dur = CONFIGS[cfg]
    core.use_repo()
    from ioflo.aid import timing
    from ioflo.base import storing
    if not isinstance(timing.time, FakeTimeModule):
        timing.time = FakeTimeModule()        # the clock seam: module attribute `time` of ioflo.aid.timing
        storing.time = timing.time            # a real Store reads time.time() for its .realtime share: same fake
    name = KINDS[kind][0]
    part = core.Part()
    ops = ops_for(kind)
    init = init_text(kind, base, dur)

    def texts(hist):
        return [op_text(kind, o) for o in hist]

    def replay(hist):
        r = Real(timing, storing, kind, base, dur)
        for o in hist:
            r.run(op_text(kind, o))
        return r

    def complain(group, hist, what, extra):
        part.violation("%s.%s" % (name, group), "%s; %s" % (init, "; ".join(texts(hist))),
                       "%s after [%s; %s]: %s" % (name, init, "; ".join(texts(hist)), what),
                       dict(init="import ioflo.aid.timing as timing; clk = FakeTimeModule(); timing.time = clk   # clk.time() returns clk.now\n" + init,
                            history=texts(hist), **extra))

    def pure_reads(r, st, hist):
        """Timer / StoreTimer: the three properties are pure functions of the state"""
        start, stop, d, latest, clock = st
        if clock is None:      # unstamped store: no clock to be elapsed against; only 'not expired' is defined
            props = (("expired", False),)
        else:
            props = (("elapsed", max(0.0, clock - start)), ("remaining", max(0.0, stop - clock)), ("expired", clock >= stop))
        for prop, exp in props:
            got = r.run("t." + prop)
            part.evaluations += 1
            if got != ("value", exp) or type(got[1]) is not type(exp):
                complain("%s|wrong value" % prop, hist, "t.%s is %r, model: %r (start %r stop %r clock %r)" % (prop, got[1], exp, start, stop, clock),
                         dict(read=prop, got=got[1], expected=exp))
        if r.state() != st:
            complain("read|changed the timer", hist, "reading the properties changed the timer to %r" % (r.state(),), {})

    r0 = replay(())
    st0 = r0.state()
    exp0 = (base or 0.0, (base or 0.0) + dur, dur, base if KINDS[kind][2] else None, base)
    part.traces += 1
    if st0 != exp0:
        complain("constructor|wrong initial state", (), "fresh timer is %r, model: %r" % (st0, exp0), dict(got=st0, expected=exp0))
        return part
    if not KINDS[kind][2]:
        pure_reads(r0, st0, ())
    seen = {canon(st0)}
    frontier = collections.deque([((), st0)])
    reached = 0
    while frontier:
        hist, st = frontier.popleft()
        if len(hist) >= depth:
            continue
        for op in ops:
            if not enabled(st, op):
                continue
            r = replay(hist)
            text = op_text(kind, op)
            got = r.run(text)
            h2 = hist + (op,)
            part.transitions += 1
            part.traces += 1
            part.evaluations += 1
            rs = r.state()
            part.outcome("%s.%s:%s" % (name, op[0], got[1] if got[0] == "exc" else "ok"))
            chosen = None
            alts = apply_model(kind, st, op)
            for s2, outcome in alts:
                if outcome == "TimerRetroError":
                    okres = got == ("exc", "TimerRetroError")
                elif outcome == "ok":
                    okres = got[0] == "ok"
                else:
                    okres = got == outcome and type(got[1]) is type(outcome[1])
                if okres and rs == s2:
                    chosen = s2
                    break
            if chosen is None:
                s2, outcome = alts[0]
                if outcome == "TimerRetroError" and got[0] != "exc":
                    grp, what = "%s|no TimerRetroError" % op[0], "%s did not raise on a backward clock jump (got %r)" % (text, got[1])
                elif got[0] == "exc" and outcome != "TimerRetroError":
                    grp, what = "%s|raises %s" % (op[0], got[1]), "%s raises %s, model: %r" % (text, got[1], outcome)
                elif isinstance(outcome, tuple) and got != outcome:
                    grp, what = "%s|wrong value" % op[0], "%s is %r, model: %r" % (text, got[1], outcome[1])
                else:
                    facet = [n for n, a, b in zip(("start", "stop", "duration", "latest", "clock"), rs, s2) if a != b]
                    grp = "%s|%s differ" % (op[0], "+".join(facet))
                    if outcome == "TimerRetroError":      # one group whatever the operation: it raised as it should but did not leave the timer alone
                        grp = "TimerRetroError|the failed operation changed the timer (%s)" % "+".join(facet)
                    what = "after %s the timer is (start, stop, duration, latest, clock) = %r, model: %r" % (text, rs, s2)
                complain(grp, h2, what, dict(op=text, got=got, got_state=rs, expected_state=s2, expected=outcome))
                continue
            reached = max(reached, len(h2))
            k = canon(chosen)
            if k not in seen:
                seen.add(k)
                frontier.append((h2, chosen))
                part.nontrivial(repr((cfg, k)))
                if not KINDS[kind][2]:
                    pure_reads(r, chosen, h2)
                if len(seen) % 499 == 7:
                    part.sample(dict(timer=init, history=texts(h2), state=chosen))
    part.states = len(seen)
    part.extra["%s created at %r duration %r" % (name, base, dur)] = dict(states=len(seen), depth_bound=depth, depth_reached=reached, operations=len(ops))
    return part


# ------------------------------------------------------------------ two MonoTimers on one clock

PAIRS = [(ra, rb) for ra in (True, False) for rb in (True, False)]
PAIR_OPS = ([("clock", 0.25), ("clock", 1.0), ("clock", -0.5), ("make_b",)]
            + [(x, o) for x in ("a", "b") for o in ("elapsed", "remaining", "expired", "restart", "repeat", "extend")])


def pair_text(op, rb):
    if op[0] == "clock":
        return "clk.now += %r" % op[1]
    if op[0] == "make_b":
        return "b = MonoTimer(duration=1.0, retro=%r)" % rb
    x, o = op
    return "%s.%s" % (x, o) + ("" if o in ("elapsed", "remaining", "expired") else "()")


def explore_pair(arg):
    """Two live MonoTimers read the same clock; the second may be constructed at any point.  Each is judged against
    its own independent reference (the single-timer model above): what one timer sees or does must not affect the other."""
    cfg, depth = arg
    ra, rb = PAIRS[cfg]
    core.use_repo()
    from ioflo.aid import timing
    from ioflo.base import storing
    if not isinstance(timing.time, FakeTimeModule):
        timing.time = FakeTimeModule()
        storing.time = timing.time
    clk = timing.time
    name = "two MonoTimers"          # the retro combination is in the example (init line), not in the group
    init = "clk.now = 1000.0; a = MonoTimer(duration=1.0, retro=%r)" % ra
    kinds = dict(a=2 if ra else 1, b=2 if rb else 1)         # index into KINDS for the single-timer model
    part = core.Part()

    def texts(hist):
        return [pair_text(o, rb) for o in hist]

    def run(ns, text):
        try:
            if "(" not in text and " " not in text:
                return ("value", eval(text, ns))
            exec(text, ns)
            return ("ok", None)
        except Exception as ex:
            return ("exc", type(ex).__name__)

    def replay(hist):
        ns = dict(clk=clk, MonoTimer=timing.MonoTimer)
        exec(init, ns)
        for o in hist:
            run(ns, pair_text(o, rb))
        return ns

    def rstate(ns):
        def one(t):
            return None if t is None else (t.start, t.stop, t.duration, t.latest)
        return (one(ns["a"]), one(ns.get("b")), clk.now)

    def model(st, op):
        """-> list of (state, outcome)"""
        A, B, clock = st
        if op[0] == "clock":
            return [((A, B, clock + op[1]), "ok")]
        if op[0] == "make_b":
            return [((A, (clock, clock + 1.0, 1.0, clock), clock), "ok")]
        x, o = op
        cur = A if x == "a" else B
        sop = (o, None) if o == "extend" else (o,)
        out = []
        for s2, outcome in apply_model(kinds[x], cur + (clock,), sop):
            t2 = s2[:4]
            out.append((((t2, B, clock) if x == "a" else (A, t2, clock)), outcome))
        return out

    def pcanon(st):
        A, B, clock = st
        rel = lambda t: None if t is None else (t[0] - clock, t[1] - clock, t[2], t[3] - clock)
        return (rel(A), rel(B))

    def complain(group, hist, what, extra):
        part.violation("%s.%s" % (name, group), "%s; %s" % (init, "; ".join(texts(hist))),
                       "%s after [%s; %s]: %s" % (name, init, "; ".join(texts(hist)), what),
                       dict(init="import ioflo.aid.timing as timing; clk = FakeTimeModule(); timing.time = clk   # clk.time() returns clk.now\n" + init,
                            history=texts(hist), **extra))

    st0 = ((1000.0, 1001.0, 1.0, 1000.0), None, 1000.0)
    ns = replay(())
    part.traces += 1
    if rstate(ns) != st0:
        complain("constructor|wrong initial state", (), "fresh timer is %r" % (rstate(ns),), {})
        return part
    seen = {pcanon(st0)}
    frontier = collections.deque([((), st0)])
    while frontier:
        hist, st = frontier.popleft()
        if len(hist) >= depth:
            continue
        for op in PAIR_OPS:
            if op[0] == "make_b" and st[1] is not None:
                continue
            if op[0] == "b" and st[1] is None:
                continue
            ns = replay(hist)
            text = pair_text(op, rb)
            got = run(ns, text)
            h2 = hist + (op,)
            part.transitions += 1
            part.traces += 1
            part.evaluations += 1
            rs = rstate(ns)
            part.outcome("pair.%s:%s" % (op[1] if op[0] in ("a", "b") else op[0], got[1] if got[0] == "exc" else "ok"))
            chosen = None
            alts = model(st, op)
            for s2, outcome in alts:
                if outcome == "TimerRetroError":
                    okres = got == ("exc", "TimerRetroError")
                elif outcome == "ok":
                    okres = got[0] == "ok"
                else:
                    okres = got == outcome and type(got[1]) is type(outcome[1])
                if okres and rs == s2:
                    chosen = s2
                    break
            if chosen is None:
                s2, outcome = alts[0]
                opn = ".".join(str(x) for x in op if x is not None) if op[0] in ("a", "b") else op[0]
                if outcome == "TimerRetroError" and got[0] != "exc":
                    grp, what = "%s|no TimerRetroError" % opn, "%s did not raise on a backward clock jump (got %r)" % (text, got[1])
                elif got[0] == "exc" and outcome != "TimerRetroError":
                    grp, what = "%s|raises %s" % (opn, got[1]), "%s raises %s, model: %r" % (text, got[1], outcome)
                elif isinstance(outcome, tuple) and got != outcome:
                    grp, what = "%s|wrong value" % opn, "%s is %r, its own reference: %r" % (text, got[1], outcome[1])
                else:
                    which = [n for n, x, y in zip(("timer a", "timer b", "clock"), rs, s2) if x != y]
                    acted = {"a": "timer a", "b": "timer b", "make_b": "timer b"}.get(op[0])
                    others = [w for w in which if w not in (acted, "clock")]
                    if others:       # one coarse group: whatever the operation, it reached into the other timer
                        grp = "cross-talk|%s changed by %s" % (others[0], "constructing timer b" if op[0] == "make_b"
                                                                 else "an operation on %s" % acted)
                    elif outcome == "TimerRetroError":
                        grp = "TimerRetroError|the failed operation changed the timer"
                    else:
                        grp = "%s|%s differ" % (opn, "+".join(which))
                    what = "after %s the timers are (a, b, clock) with each (start, stop, duration, latest) = %r, independent references: %r" % (text, rs, s2)
                complain(grp, h2, what, dict(op=text, got=got, got_state=rs, expected_state=s2, expected=outcome))
                continue
            k = pcanon(chosen)
            if k not in seen:
                seen.add(k)
                frontier.append((h2, chosen))
                part.nontrivial(repr(("pair", cfg, k)))
                if len(seen) % 499 == 11:
                    part.sample(dict(timers=init, history=texts(h2), state=chosen))
    part.states = len(seen)
    part.extra["two MonoTimers(a retro=%r, b retro=%r)" % (ra, rb)] = dict(states=len(seen), depth_bound=depth, operations=len(PAIR_OPS))
    return part


def work(arg):
    return explore_pair(arg[1:]) if arg[0] == "pair" else explore(arg[1:])


def run():
    ck = core.Check("C42", "model_checking", META["technique"])
    depth = 5 if core.TIER == "quick" else 8
    # MonoTimer has 3 more operations (its reads); one level less keeps its shards the size of the others
    items = [("single", i, depth - 1 if KINDS[c[0]][2] else depth) for i, c in enumerate(CONFIGS)]
    items += [("pair", j, depth - 1) for j in range(len(PAIRS))]
    ck.merge(core.pmap(work, items, procs=min(core.NPROC, 8)))
    ck.assumptions = [
        "clock seam: ioflo.aid.timing.time (module attribute) replaced by an object with time(); StoreTimer reads a timing.Stamper or a real Store "
        "(whose own time.time() use is redirected to the same fake); the real clock is never used",
        "timers are created at clock 1000.0, at clock 0.0 (start/stop can be exactly 0.0) and, for StoreTimer, on an unstamped store (stamp None: the "
        "timer starts at 0.0, only 'not expired' and the stamp-independent operations extend / repeat / restart(start=x) are defined until the first stamp)",
        "times stay non-negative (restart documents 'must be non negative' and takes abs): a backward move that would shift a MonoTimer's start below 0 is not explored",
        "all clock values, starts and durations are multiples of 0.25 and clock readings stay >= 0, so every float operation is exact and == is the right comparison",
        "MonoTimer: a backward jump is one relative to the last time the timer looked at the clock (that is all it can detect); the model looks first, "
        "then applies the operation to the shifted start/stop",
        "two MonoTimers alive on one clock (all four retro combinations, the second constructed at any point of the history) are each held to their own "
        "single-timer reference: a timer's reads, restarts or construction must not change what another timer sees of a backward jump",
        "an uncompensated MonoTimer that raised TimerRetroError is unchanged by the failed operation (its 'latest' mark stays at the pre-jump reading), so "
        "every further operation keeps raising while the clock is behind that reading and works again once it has caught up; a timer that raised once and then "
        "carried on silently with a smaller elapsed would not be monotonic.  The BFS continues through such raises (they are ordinary transitions)",
        "extend(-x) only while duration stays >= 0; return values not compared",
        "dedupe is on values relative to the clock (timer code is translation invariant) plus the flags start == 0.0, stop == 0.0, clock == 0.0 / None",
    ]
    return ck.finish(
        rule="BFS over all histories of length <= %d (MonoTimer: one less) of 3-4 clock moves and 10 timer operations (restart(), restart(start=clock-0.5 / clock+0.25 / 0.0 / 0.5), "
             "restart(duration), repeat(), extend(), extend(0.5), extend(-0.25); +3 reads for MonoTimer) for %d configurations (Timer, MonoTimer x2, "
             "StoreTimer on Stamper and on a real Store; created at clock 1000.0 / 0.0 / unstamped; initial duration 1 / 0), deduped on "
             "(start-clock, stop-clock, duration, latest-clock, zero flags); plus 4 two-MonoTimer configurations (3 clock moves, construct b, "
             "elapsed/remaining/expired/restart/repeat/extend on a and on b) to depth %d; non-trivial = distinct reachable state" % (depth, len(CONFIGS), depth - 1),
        exhaustive=True)


if __name__ == "__main__":
    core.main(run)
