"""C42 timers report elapsed, remaining and expiry consistently with their clock.  Engine B (seq): explicit-state
BFS over interleaved clock moves and timer operations on fresh real timers under a fake clock, against a reference model."""
META = dict(
    engine="seq", level="model_checking",
    technique="explicit-state BFS over histories of clock moves (forward, retrograde) and timer operations, replay-from-history on fresh real "
              "timers under a substituted clock, canonical-state dedupe (time-translation invariant), reference model compared after every step",
    text="Timer, MonoTimer (with and without retrograde compensation) and StoreTimer, each with initial duration 0 and 1, are driven by a fake clock "
         "(ioflo.aid.timing.time replaced by an object whose time() returns a harness variable; StoreTimer reads a Stamper): every history up to "
         "depth 5 (quick) / 9 (thorough) of clock +0.25, +1, -0.5, restart(), restart(start), restart(duration), repeat(), extend(), extend(+x), "
         "extend(-x) and, for MonoTimer where reading has a side effect, reads of elapsed / remaining / expired.  After every step start, stop, duration "
         "(and latest) of the real timer must equal the model, elapsed == max(0, clock - start), remaining == max(0, stop - clock), expired == "
         "(clock >= stop); the MonoTimer model first shifts start and stop by a backward jump since the last look (or raises TimerRetroError) and then "
         "applies the operation.  All times are dyadic, so float arithmetic is exact.",
    note="The real clock is never read.  After an uncompensated MonoTimer raised, either keeping or advancing its 'latest' mark is accepted; return values "
         "of restart/repeat/extend are not compared; extend(-x) is only applied while it keeps the duration non-negative.",
)
import collections

from mc import core


class FakeTimeModule:
    """stands in for the `time` module inside ioflo.aid.timing"""

    def __init__(self):
        self.now = 1000.0

    def time(self):
        return self.now


KINDS = [("Timer", "Timer(duration=%r)", False), ("MonoTimer", "MonoTimer(duration=%r, retro=False)", True),
         ("MonoTimer(retro)", "MonoTimer(duration=%r, retro=True)", True), ("StoreTimer", "StoreTimer(st, duration=%r)", False)]
CONFIGS = [(k, d) for k in range(len(KINDS)) for d in (1.0, 0.0)]


def init_text(kind, dur):
    name, ctor, _ = KINDS[kind]
    if name == "StoreTimer":
        return "st = Stamper(1000.0); t = " + ctor % dur
    return "clk.now = 1000.0; t = " + ctor % dur


def clock_text(kind, delta):
    if KINDS[kind][0] == "StoreTimer":
        return "st.advance(%r)" % delta
    return "clk.now += %r" % delta


# ------------------------------------------------------------------ model
# state = (start, stop, duration, latest, clock); latest is None for Timer / StoreTimer

def look(kind, st):
    """MonoTimer.update semantics per the statement: -> list of (state, raised?) alternatives"""
    start, stop, dur, latest, clock = st
    if latest is None:
        return [(st, False)]
    d = clock - latest
    if d < 0:
        if KINDS[kind][0] == "MonoTimer(retro)":
            return [((start + d, stop + d, dur, clock, clock), False)]
        return [(st, True), ((start, stop, dur, clock, clock), True)]      # raises; 'latest' kept or advanced: unspecified
    return [((start, stop, dur, clock, clock), False)]


def apply_model(kind, st, op):
    """-> list of alternatives (state, outcome) ; outcome = 'ok' | 'TimerRetroError' | ('value', v)"""
    name = op[0]
    if name == "clock":
        return [(st[:4] + (st[4] + op[1],), "ok")]
    out = []
    for s, raised in look(kind, st):
        if raised:
            out.append((s, "TimerRetroError"))
            continue
        start, stop, dur, latest, clock = s
        if name == "elapsed":
            out.append((s, ("value", max(0.0, clock - start))))
        elif name == "remaining":
            out.append((s, ("value", max(0.0, stop - clock))))
        elif name == "expired":
            out.append((s, ("value", clock >= stop)))
        elif name == "restart":
            out.append(((clock, clock + dur, dur, latest, clock), "ok"))
        elif name == "restart_start":
            b = abs(clock + op[1])
            out.append(((b, b + dur, dur, latest, clock), "ok"))
        elif name == "restart_duration":
            out.append(((clock, clock + op[1], op[1], latest, clock), "ok"))
        elif name == "repeat":
            out.append(((stop, stop + dur, dur, latest, clock), "ok"))
        elif name == "extend":
            ext = dur if op[1] is None else op[1]
            out.append(((start, start + dur + ext, dur + ext, latest, clock), "ok"))
        else:
            raise core.BrokenCheck("op %r" % (op,))
    return out


def op_text(kind, op):
    name = op[0]
    if name == "clock":
        return clock_text(kind, op[1])
    if name in ("elapsed", "remaining", "expired"):
        return "t." + name
    if name == "restart":
        return "t.restart()"
    if name == "restart_start":
        return "t.restart(start=%s %s %r)" % ("st.stamp" if KINDS[kind][0] == "StoreTimer" else "clk.now",
                                               "-" if op[1] < 0 else "+", abs(op[1]))
    if name == "restart_duration":
        return "t.restart(duration=%r)" % op[1]
    if name == "repeat":
        return "t.repeat()"
    if name == "extend":
        return "t.extend()" if op[1] is None else "t.extend(%r)" % op[1]


def ops_for(kind):
    ops = [("clock", 0.25), ("clock", 1.0), ("clock", -0.5)]
    if KINDS[kind][2]:
        ops += [("elapsed",), ("remaining",), ("expired",)]
    ops += [("restart",), ("restart_start", -0.5), ("restart_start", 0.25), ("restart_duration", 0.5), ("repeat",),
            ("extend", None), ("extend", 0.5), ("extend", -0.25)]
    return ops


def enabled(st, op):
    if op[0] == "extend" and op[1] is not None and op[1] < 0:
        return st[2] + op[1] >= 0           # a shrink below zero has no stated meaning
    return True


# ------------------------------------------------------------------ real side

class Real:
    def __init__(self, timing, kind, dur):
        self.kind = kind
        self.clk = timing.time               # the installed FakeTimeModule
        self.ns = dict(clk=self.clk, Timer=timing.Timer, MonoTimer=timing.MonoTimer, StoreTimer=timing.StoreTimer,
                       Stamper=timing.Stamper)
        exec(init_text(kind, dur), self.ns)
        self.t = self.ns["t"]

    def clock(self):
        return self.ns["st"].stamp if "st" in self.ns else self.clk.now

    def state(self):
        t = self.t
        return (t.start, t.stop, t.duration, getattr(t, "latest", None), self.clock())

    def run(self, text):
        try:
            return ("value", eval(text, self.ns)) if text.startswith("t.") and "(" not in text else ("ok", exec(text, self.ns))
        except Exception as ex:
            return ("exc", type(ex).__name__)


def canon(st):
    start, stop, dur, latest, clock = st
    return (start - clock, stop - clock, dur, None if latest is None else latest - clock)


def explore(arg):
    cfg, depth = arg
    kind, dur = CONFIGS[cfg]
    core.use_repo()
    from ioflo.aid import timing
    if not isinstance(timing.time, FakeTimeModule):
        timing.time = FakeTimeModule()        # the clock seam: module attribute `time` of ioflo.aid.timing
    name = KINDS[kind][0]
    part = core.Part()
    ops = ops_for(kind)
    init = init_text(kind, dur)

    def texts(hist):
        return [op_text(kind, o) for o in hist]

    def replay(hist):
        r = Real(timing, kind, dur)
        for o in hist:
            r.run(op_text(kind, o))
        return r

    def complain(group, hist, what, extra):
        part.violation("%s.%s" % (name, group), "%s; %s" % (init, "; ".join(texts(hist))),
                       "%s after [%s; %s]: %s" % (name, init, "; ".join(texts(hist)), what),
                       dict(init="import ioflo.aid.timing as timing; clk = FakeTimeModule(); timing.time = clk   # clk.time() returns clk.now\n" + init,
                            history=texts(hist), **extra))

    def pure_reads(r, st, hist):
        """Timer / StoreTimer: the three properties are pure functions of the state"""
        start, stop, d, latest, clock = st
        for prop, exp in (("elapsed", max(0.0, clock - start)), ("remaining", max(0.0, stop - clock)), ("expired", clock >= stop)):
            got = r.run("t." + prop)
            part.evaluations += 1
            if got != ("value", exp) or type(got[1]) is not type(exp):
                complain("%s|wrong value" % prop, hist, "t.%s is %r, model: %r (start %r stop %r clock %r)" % (prop, got[1], exp, start, stop, clock),
                         dict(read=prop, got=got[1], expected=exp))
        if r.state() != st:
            complain("read|changed the timer", hist, "reading the properties changed the timer to %r" % (r.state(),), {})

    r0 = replay(())
    st0 = r0.state()
    exp0 = (1000.0, 1000.0 + dur, dur, 1000.0 if KINDS[kind][2] else None, 1000.0)
    part.traces += 1
    if st0 != exp0:
        complain("constructor|wrong initial state", (), "fresh timer is %r, model: %r" % (st0, exp0), dict(got=st0, expected=exp0))
        return part
    if not KINDS[kind][2]:
        pure_reads(r0, st0, ())
    seen = {canon(st0)}
    frontier = collections.deque([((), st0)])
    reached = 0
    while frontier:
        hist, st = frontier.popleft()
        if len(hist) >= depth:
            continue
        for op in ops:
            if not enabled(st, op):
                continue
            r = replay(hist)
            text = op_text(kind, op)
            got = r.run(text)
            h2 = hist + (op,)
            part.transitions += 1
            part.traces += 1
            part.evaluations += 1
            rs = r.state()
            part.outcome("%s.%s:%s" % (name, op[0], got[1] if got[0] == "exc" else "ok"))
            chosen = None
            alts = apply_model(kind, st, op)
            for s2, outcome in alts:
                if outcome == "TimerRetroError":
                    okres = got == ("exc", "TimerRetroError")
                elif outcome == "ok":
                    okres = got[0] == "ok"
                else:
                    okres = got == outcome and type(got[1]) is type(outcome[1])
                if okres and rs == s2:
                    chosen = s2
                    break
            if chosen is None:
                s2, outcome = alts[0]
                if outcome == "TimerRetroError" and got[0] != "exc":
                    grp, what = "%s|no TimerRetroError" % op[0], "%s did not raise on a backward clock jump (got %r)" % (text, got[1])
                elif got[0] == "exc" and outcome != "TimerRetroError":
                    grp, what = "%s|raises %s" % (op[0], got[1]), "%s raises %s, model: %r" % (text, got[1], outcome)
                elif isinstance(outcome, tuple) and got != outcome:
                    grp, what = "%s|wrong value" % op[0], "%s is %r, model: %r" % (text, got[1], outcome[1])
                else:
                    facet = [n for n, a, b in zip(("start", "stop", "duration", "latest", "clock"), rs, s2) if a != b]
                    grp = "%s|%s differ" % (op[0], "+".join(facet))
                    what = "after %s the timer is (start, stop, duration, latest, clock) = %r, model: %r" % (text, rs, s2)
                complain(grp, h2, what, dict(op=text, got=got, got_state=rs, expected_state=s2, expected=outcome))
                continue
            reached = max(reached, len(h2))
            k = canon(chosen)
            if k not in seen:
                seen.add(k)
                frontier.append((h2, chosen))
                part.nontrivial(repr((cfg, k)))
                if not KINDS[kind][2]:
                    pure_reads(r, chosen, h2)
                if len(seen) % 499 == 7:
                    part.sample(dict(timer=init, history=texts(h2), state=chosen))
    part.states = len(seen)
    part.extra["%s duration %r" % (name, dur)] = dict(states=len(seen), depth_bound=depth, depth_reached=reached, operations=len(ops))
    return part


def run():
    ck = core.Check("C42", "model_checking", META["technique"])
    depth = 5 if core.TIER == "quick" else 9
    ck.merge(core.pmap(explore, [(i, depth) for i in range(len(CONFIGS))]))
    ck.assumptions = [
        "clock seam: ioflo.aid.timing.time (module attribute) replaced by an object with time(); StoreTimer reads a timing.Stamper; the real clock is never used",
        "all clock values, starts and durations are multiples of 0.25 near 1000, so every float operation is exact and == is the right comparison",
        "MonoTimer: a backward jump is one relative to the last time the timer looked at the clock (that is all it can detect); the model looks first, "
        "then applies the operation to the shifted start/stop",
        "after TimerRetroError the timer may keep or advance its 'latest' mark; extend(-x) only while duration stays >= 0; return values not compared",
        "dedupe is on values relative to the clock: timer code is translation invariant (restart(start=) is given relative to the clock)",
    ]
    return ck.finish(
        rule="BFS over all histories of length <= %d of 3 clock moves and 8 timer operations (+3 reads for MonoTimer) for 4 timer kinds x 2 initial "
             "durations, deduped on (start-clock, stop-clock, duration, latest-clock); non-trivial = distinct reachable relative state" % depth,
        exhaustive=True)


if __name__ == "__main__":
    core.main(run)
