"""C21 comparison conditions evaluate exactly the written comparison.  Engine A (flo), exhaustive grid.

Every case is decided twice against the real code: by calling needing.Need.Check directly on the
python values, and by writing the condition into a FloScript transition, building it with the real
Builder and running it with the real Skedder (does the framer leave frame `a` for frame `b`, and at
which tick).  The oracle is the comparison as the property statement defines it.
"""
META = dict(
    engine="flo", level="exploration",
    technique="bounded-exhaustive grid of comparison conditions, each evaluated by Need.Check directly and through a built "
              "FloScript transition run under the real Skedder, against the written comparison (no sampling)",
    text="Grid: 6 operators x optional `not` x state values {0, 1, -1, 1.5, true, false, 'a', 'b'} x goal values (same pool) x "
         "tolerance {absent, 0, 0.5, -0.5} x goal written directly or read from another share (ordering operators only on "
         "like-typed operands); goal-field defaulting (explicit field, `value`, field taken from the state); bare `if [not] state` "
         "truthiness over 13 values; framer clocks elapsed/recurred (bare, `re`, `re me`, `re <framer>` forms, direct, `goal` and "
         "indirect goals) observed over 4 ticks with the clock read from an idle twin framer; all conjunctions of 1, 2 and 3 clauses "
         "(ordered, 12+144+1728) from a 12-clause pool mixing true/false, negated, tolerant, boolean and clock clauses.  Each case: "
         "Need.Check on the values, and a program built by the real Builder whose transition tick is observed with real.run().",
    note="Booleans count as numbers (python int) for the tolerance band; unlike-typed ordering comparisons are not exercised; "
         "clock values themselves are C11's subject and are read from a twin framer that never transitions.",
)
import itertools

from mc import core

TICK = 0.125
OPS = ["==", "!=", "<", "<=", ">=", ">"]


def values(tier):
    v = [0, 1, -1, 1.5, True, False, "a", "b"]
    if tier == "thorough":
        v += [0.5, 2, -1.5, 100, "", "A", "ab"]
    return v


def tolerances(tier):
    t = [None, 0, 0.5, -0.5]
    if tier == "thorough":
        t += [1, -1, 0.25, 2.5]
    return t


def lit(v):
    if v is None:
        return "none"
    if isinstance(v, bool):
        return "true" if v else "false"
    if isinstance(v, str):
        return '"%s"' % v
    return repr(v)


def tclass(v):
    if isinstance(v, bool):
        return "bool"
    if isinstance(v, (int, float)):
        return "num"
    if isinstance(v, str):
        return "str"
    return type(v).__name__


def isnum(v):
    return isinstance(v, (int, float))       # bool is a python int: counted as a number (see assumptions)


def ordered_ok(a, b):
    """ordering is only exercised on like-typed comparable operands"""
    return tclass(a) == tclass(b)


def oracle(state, op, goal, tol):
    """the written comparison, as the property statement defines it"""
    t = abs(tol) if tol is not None else 0
    if op in ("==", "!="):
        if isnum(state) and isnum(goal):
            r = (goal - t) <= state <= (goal + t)
        else:
            r = (state == goal)
        return r if op == "==" else (not r)
    if op == "<":
        return state < goal
    if op == "<=":
        return state <= goal
    if op == ">=":
        return state >= goal
    if op == ">":
        return state > goal
    raise core.BrokenCheck("bad op " + op)


# ----------------------------------------------------------------------------- case generation
#
# A case is a dict: family, text (the condition as written), inits (house-level lines), pre (lines in frame a before
# the go), horizon, expect: function(clock rows) -> expected transition tick or None, direct: (state, op, goal, tol, neg) | None


def cmp_cases(tier):
    out = []
    V, T = values(tier), tolerances(tier)
    for mode in ("direct", "indirect"):
        for neg in (False, True):
            for tol in T:
                for op in OPS:
                    for goal in V:
                        for state in V:
                            if op not in ("==", "!=") and not ordered_ok(state, goal):
                                continue
                            cond = ".s %s %s" % (op, lit(goal) if mode == "direct" else ".g")
                            if tol is not None:
                                cond += " +- %s" % lit(tol)
                            if neg:
                                cond = "not " + cond
                            inits = ["init .s with value %s" % lit(state)]
                            if mode == "indirect":
                                inits.append("init .g with value %s" % lit(goal))
                            out.append(dict(family="cmp-" + mode, cond=cond, inits=inits, pre=[], horizon=2,
                                            clauses=[("cmp", state, op, goal, tol, neg)],
                                            group="%s|%s|%s-%s" % (mode, op, tclass(state), tclass(goal))))
    return out


def field_cases(tier):
    """goal field defaulting for indirect goals"""
    out = []
    for op in OPS:
        for (sv, gv) in [(1, 1), (1, 2), (2, 1)]:
            forms = [
                ("explicit-both", "x in .m %s x in .n" % op, ["init .m with x %d y 7" % sv, "init .n with x %d y 8" % gv]),
                ("goal-value-default", "x in .m %s .n" % op, ["init .m with x %d y 7" % sv, "init .n with value %d" % gv]),
                ("goal-field-from-state", "x in .m %s .n" % op, ["init .m with x %d y 7" % sv, "init .n with x %d y 8" % gv]),
                ("state-value-default", ".m %s y in .n" % op, ["init .m with value %d" % sv, "init .n with x 9 y %d" % gv]),
            ]
            for name, cond, inits in forms:
                out.append(dict(family="field-" + name, cond=cond, inits=inits, pre=[], horizon=2,
                                clauses=[("cmp", sv, op, gv, None, False)], group="field|%s" % name))
    return out


def bool_cases(tier):
    out = []
    vals = [0, 1, -1, 1.5, 0.0, True, False, "a", "", None, 2, -0.0, "false"]
    for neg in (False, True):
        for form in ("plain", "field"):
            for v in vals:
                if form == "plain":
                    cond, inits = ".s", ["init .s with value %s" % lit(v)]
                else:
                    cond, inits = "x in .s", ["init .s with x %s y 1" % lit(v)]
                if neg:
                    cond = "not " + cond
                out.append(dict(family="bool-" + form, cond=cond, inits=inits, pre=[], horizon=2,
                                clauses=[("bool", v, neg)], group="bool|%s|%s" % (form, tclass(v))))
    return out


def clock_cases(tier):
    out = []
    for clock in ("elapsed", "recurred"):
        goals = [0.25, 0.125, 0.0, 0.375, 0.1875] if clock == "elapsed" else [2, 1, 0, 3, 1.5]
        tols = [None, 0.125, -0.125, 0.0625] if clock == "elapsed" else [None, 1, -1, 0.5]
        # full grid on the bare form with a direct goal
        for neg in (False, True):
            for tol in tols:
                for op in OPS:
                    for goal in goals:
                        cond = "%s %s %s" % (clock, op, lit(goal))
                        if tol is not None:
                            cond += " +- %s" % lit(tol)
                        if neg:
                            cond = "not " + cond
                        out.append(dict(family="clock-" + clock, cond=cond, inits=[], pre=[], horizon=4,
                                        clauses=[("clock", clock, op, goal, tol, neg)], group="clock|%s|bare|%s" % (clock, op)))
        # other written forms, operator x goal
        forms = [("re", "%s re" % clock), ("re-me", "%s re me" % clock), ("re-name", "%s re f" % clock)]
        for fname, head in forms:
            for op in OPS:
                for goal in goals[:3]:
                    out.append(dict(family="clock-" + clock, cond="%s %s %s" % (head, op, lit(goal)), inits=[], pre=[], horizon=4,
                                    clauses=[("clock", clock, op, goal, None, False)], group="clock|%s|%s|%s" % (clock, fname, op)))
        # goal keyword and indirect goal
        for op in OPS:
            for goal in goals[:3]:
                for tol in tols[:2]:
                    tail = "" if tol is None else " +- %s" % lit(tol)
                    out.append(dict(family="clock-" + clock, cond="%s %s goal%s" % (clock, op, tail), inits=[],
                                    pre=["set %s with %s" % (clock, lit(goal))], horizon=4,
                                    clauses=[("clock", clock, op, goal, tol, False)], group="clock|%s|goal-keyword|%s" % (clock, op)))
                    out.append(dict(family="clock-" + clock, cond="%s %s .g%s" % (clock, op, tail),
                                    inits=["init .g with value %s" % lit(goal)], pre=[], horizon=4,
                                    clauses=[("clock", clock, op, goal, tol, False)], group="clock|%s|indirect|%s" % (clock, op)))
    return out


POOL_INITS = ["init .p with value 1", "init .pp with value 1.5", "init .q with value \"a\"", "init .r with value true",
              "init .z with value 0"]
POOL = [
    (".p == 1", ("cmp", 1, "==", 1, None, False)),
    (".p != 1", ("cmp", 1, "!=", 1, None, False)),
    ("not .p > 1", ("cmp", 1, ">", 1, None, True)),
    (".p < 1 +- 0.5", ("cmp", 1, "<", 1, 0.5, False)),
    (".q == \"a\"", ("cmp", "a", "==", "a", None, False)),
    ("not .q == \"a\"", ("cmp", "a", "==", "a", None, True)),
    (".r", ("bool", True, False)),
    ("not .z", ("bool", 0, True)),
    (".p == .pp +- 0.5", ("cmp", 1, "==", 1.5, 0.5, False)),
    (".p == .pp +- 0.25", ("cmp", 1, "==", 1.5, 0.25, False)),
    ("elapsed >= 0.25", ("clock", "elapsed", ">=", 0.25, None, False)),
    ("recurred < 3", ("clock", "recurred", "<", 3, None, False)),
]


def conj_cases(tier):
    out = []
    for n in (1, 2, 3):
        for combo in itertools.product(range(len(POOL)), repeat=n):
            cond = " and ".join(POOL[i][0] for i in combo)
            out.append(dict(family="conj-%d" % n, cond=cond, inits=list(POOL_INITS), pre=[], horizon=4,
                            clauses=[POOL[i][1] for i in combo], group="conj|%d" % n))
    return out



# ----------------------------------------------------------------------------- goal written around the evaluation
#
# An indirect goal is read at the moment the need is evaluated.  Here the goal share is rewritten inside the ticks in which
# the need is evaluated: before the evaluation (a framer / harness action scheduled earlier) AND after it (scheduled
# later), with stamping writes (Share.update, `put`) and non-stamping writes (share[field] = v, Share.change), and the
# condition is compared again on the later ticks.

G0 = 5.0          # initial goal (init: never stamped)
SVAL = 1.0        # the state


def goals_at_eval(writes, horizon):
    """writes[k] = (front value or None, back value or None); -> goal value seen by the evaluation of tick k"""
    g, out = G0, []
    for k in range(horizon):
        f, b = writes[k] if k < len(writes) else (None, None)
        if f is not None:
            g = f
        out.append(g)
        if b is not None:
            g = b
    return out


def seq_conditions(tier):
    out = [("==", 0.25, False), ("!=", 0.25, False)]
    if tier == "thorough":
        out += [("==", None, False), ("!=", None, False), ("==", 0.25, True), ("<=", None, False), (">", 0.25, False)]
    return out


def cond_text(op, tol, neg):
    c = ".s %s .g" % op
    if tol is not None:
        c += " +- %s" % lit(tol)
    return ("not " + c) if neg else c


def env_cases(tier):
    """harness actions at the start (before every framer) and end (after every framer) of ticks 1 and 2 write .g"""
    out = []
    kinds = ["upd", "raw"] + (["chg"] if tier == "thorough" else [])
    ops = [None] + [(kd, v) for kd in kinds for v in (1.0, 2.0)]
    horizon = 4
    for op, tol, neg in seq_conditions(tier):
        for f1 in ops:
            for b1 in ops:
                for f2 in ops:
                    for b2 in ops:
                        env = [(None, None), (f1, b1), (f2, b2), (None, None)]
                        writes = [tuple(None if o is None else o[1] for o in pair) for pair in env]
                        cond = cond_text(op, tol, neg)
                        label = "%s | tick1 %s / %s, tick2 %s / %s" % (cond, show_op(f1), show_op(b1), show_op(f2), show_op(b2))
                        out.append(dict(family="seq-env", cond=cond, label=label,
                                        inits=["init .s with value %s" % lit(SVAL), "init .g with value %s" % lit(G0)], pre=[],
                                        horizon=horizon, env=env,
                                        clauses=[("seq", SVAL, op, goals_at_eval(writes, horizon), tol, neg)],
                                        group="seq-env|%s|%s" % (op, "+".join(sorted(set(o[0] for o in (f1, b1, f2, b2) if o))) or "none")))
    return out


def show_op(o):
    if o is None:
        return "-"
    return {"upd": "update", "raw": "share[field]=", "chg": "change"}[o[0]] + " %s" % o[1]


def chain(name, writes):
    """framer that enters frame <name>k at tick k (k >= 1) and puts writes[k] into .g on entering it"""
    last = max([k for k, v in writes.items() if v is not None] + [0])
    src = ["framer %s be active first %s0" % (name, name), "frame %s0" % name]
    for k in range(1, last + 1):
        src += ["  go next", "frame %s%d" % (name, k)]
        if writes.get(k) is not None:
            src.append("  put %s into .g" % lit(writes[k]))
    return src


def script_cases(tier):
    """the same with FloScript only: framer `pre` (declared before f) and framer `post` (declared after f) put into .g"""
    out = []
    vals = [None, 1.0, 2.0]
    horizon = 4
    for op, tol, neg in seq_conditions(tier):
        for f1 in vals:
            for b1 in vals:
                for f2 in vals:
                    for b2 in vals:
                        writes = [(None, None), (f1, b1), (f2, b2), (None, None)]
                        cond = cond_text(op, tol, neg)
                        label = "%s | pre puts %s,%s post puts %s,%s at ticks 1,2" % (cond, f1, f2, b1, b2)
                        out.append(dict(family="seq-script", cond=cond, label=label,
                                        inits=["init .s with value %s" % lit(SVAL), "init .g with value %s" % lit(G0)], pre=[],
                                        before=chain("pre", {1: f1, 2: f2}), after=chain("post", {1: b1, 2: b2}),
                                        horizon=horizon,
                                        clauses=[("seq", SVAL, op, goals_at_eval(writes, horizon), tol, neg)],
                                        group="seq-script|%s" % op))
    return out


# ----------------------------------------------------------------------------- conditions inside cloned framers, `let`
#
# The same written condition must evaluate the same way in a plain framer, in a named clone (`aux mo as cl`) and in an
# insular clone (`aux mo as mine`) of a moot framer, as the guard of a transition (`go b if ..`) and as an entry
# condition of the target frame (`let me if ..`, every `and` clause is its own act).

LET_POOL = [(".s == 1", True), ("not .s == 1", False), (".s != 1", False), ("not .s != 1", True), ("not .s > 1", True),
            ("not .s <= 1", False)]


def clone_cases(tier):
    out = []
    conds = []
    for neg in (False, True):
        for op in OPS:
            for goal in (1, 0, 2):
                c = ".s %s %s" % (op, lit(goal))
                conds.append((("not " + c) if neg else c, [("cmp", 1, op, goal, None, neg)]))
    for neg in (False, True):
        c = ".s == .g +- 0.5"
        conds.append((("not " + c) if neg else c, [("cmp", 1, "==", 1.5, 0.5, neg)]))
        conds.append((("not " if neg else "") + ".r", [("bool", True, neg)]))
    for (c1, t1) in LET_POOL:
        for (c2, t2) in LET_POOL:
            conds.append((c1 + " and " + c2, [("const", t1), ("const", t2)]))
    inits = ["init .s with value 1", "init .g with value 1.5", "init .r with value true"]
    for place in ("plain", "named-clone", "insular-clone"):
        for form in ("go", "let"):
            for cond, clauses in conds:
                body = ["frame a", "  go b if " + cond, "frame b"] if form == "go" else ["frame a", "  go b", "frame b", "  let me if " + cond]
                if place == "plain":
                    src = ["house h"] + inits + ["framer f be active first a"] + body
                    watch = "f"
                else:
                    how = "aux mo as cl" if place == "named-clone" else "aux mo as mine"
                    src = ["house h"] + inits + ["framer f be active first m", "frame m", "  " + how, "framer mo be moot first a"] + body
                    watch = "f_cl" if place == "named-clone" else "f_mo1"
                src += ["framer twin be active first x", "frame x", ""]
                out.append(dict(family="clone-%s-%s" % (form, place), cond=cond, label="%s if %s in %s" % (form, cond, place),
                                inits=inits, pre=[], horizon=3, text="\n".join(src), watch=watch, clauses=clauses,
                                group="clone|%s|%s|%s" % (form, place, "not" if "not " in cond else "plain")))
    return out


# ----------------------------------------------------------------------------- conjunctions re-evaluated over several ticks
#
# `go b if A and B [and C]` / `aux ax if A and B [and C]` stay in one frame for several ticks while the shares the clauses
# read change every tick (harness Share.update at the start of the tick, before every framer).  Every schedule of a small
# value alphabet per share is enumerated; the transition / activation must happen at the first evaluation at which EVERY
# written clause holds, whatever held or failed at earlier evaluations.

CLAUSE_KINDS = {
    "D": (".%s == 1",        lambda v: v == 1),
    "I": (".%s == .one",     lambda v: v == 1),
    "N": ("not .%s == 0",    lambda v: not (v == 0)),
    "G": ("not .%s < .one",  lambda v: not (v < 1)),
}
CONJ_SHARES = ("p", "q", "r")


def conjseq_cases(tier):
    import itertools
    out = []
    alpha2 = (0, 1, 2) if tier == "thorough" else (0, 1)
    plans = []       # (form, clause kinds, alphabet)
    for form in ("go", "aux"):
        for kinds in ("DD", "DI", "IN", "ND", "GI"):
            plans.append((form, kinds, alpha2))
    plans.append(("go", "DIN", (0, 1)))
    if tier == "thorough":
        plans += [("aux", "DIN", (0, 1)), ("go", "NDI", (0, 1)), ("aux", "GNI", (0, 1))]
    horizon = 4
    for form, kinds, alpha in plans:
        n = len(kinds)
        shares = CONJ_SHARES[:n]
        cond = " and ".join(CLAUSE_KINDS[kd][0] % sh for kd, sh in zip(kinds, shares))
        per_tick = list(itertools.product(alpha, repeat=n))
        for sched in itertools.product(per_tick, repeat=horizon - 1):      # values at ticks 1..3
            truth = []
            for i, kd in enumerate(kinds):
                truth.append(("ticks", [False] + [CLAUSE_KINDS[kd][1](vals[i]) for vals in sched]))
            env = [(None, None)] + [(dict(zip(shares, vals)), None) for vals in sched]
            inits = ["init .%s with value 0" % sh for sh in shares] + ["init .one with value 1"]
            if form == "go":
                src = ["house h"] + inits + ["framer f be active first a", "frame a", "  go b if " + cond, "frame b"]
                watch, start, target = "f", "a", "b"
            else:
                src = ["house h"] + inits + ["framer f be active first a", "frame a", "  aux ax if " + cond,
                                             "framer ax be aux first xa", "frame xa"]
                watch, start, target = "ax", None, "xa"
            src += ["framer twin be active first x", "frame x", ""]
            label = "%s if %s | %s at ticks 1..3 = %s" % (form, cond, ",".join(shares), " ".join("".join(map(str, v)) for v in sched))
            out.append(dict(family="conjseq-%s-%d" % (form, n), cond=cond, label=label, inits=inits, pre=[], horizon=horizon,
                            text="\n".join(src), watch=watch, start=start, target=target, envshares=env, clauses=truth,
                            group="conjseq|%s|%s" % (form, kinds)))
    return out


# ----------------------------------------------------------------------------- framer clocks inside clones
#
# `elapsed` / `recurred` are the clocks of the framer the condition is written in.  Inside a clone of a moot framer they
# are the CLONE's own clocks (the moot original never runs: its clocks stay 0).

def cloneclock_cases(tier):
    out = []
    horizon = 5
    for place in ("plain", "named-clone", "insular-clone"):
        me = "f" if place == "plain" else "mo"
        for clock in ("elapsed", "recurred"):
            goals = [0.25, 0.125] if clock == "elapsed" else [2, 1]
            tolv = 0.125 if clock == "elapsed" else 1
            for fname, head in (("bare", clock), ("re", clock + " re"), ("re-me", clock + " re me"), ("re-name", "%s re %s" % (clock, me))):
                for neg in (False, True):
                    for op in OPS:
                        for tol in ([None, tolv] if op in ("==", "!=") else [None]):
                            for goal in goals:
                                cond = "%s %s %s" % (head, op, lit(goal))
                                if tol is not None:
                                    cond += " +- %s" % lit(tol)
                                if neg:
                                    cond = "not " + cond
                                body = ["frame a", "  go b if " + cond, "frame b"]
                                if place == "plain":
                                    src = ["house h", "framer f be active first a"] + body
                                    watch = "f"
                                else:
                                    how = "aux mo as cl" if place == "named-clone" else "aux mo as mine"
                                    src = ["house h", "framer f be active first m", "frame m", "  " + how, "framer mo be moot first a"] + body
                                    watch = "f_cl" if place == "named-clone" else "f_mo1"
                                src += ["framer twin be active first x", "frame x", ""]
                                out.append(dict(family="cloneclock-%s-%s" % (clock, place), cond=cond,
                                                label="%s   [in %s]" % (cond, place), inits=[], pre=[], horizon=horizon,
                                                text="\n".join(src), watch=watch, ownclock=True,
                                                clauses=[("clock", clock, op, goal, tol, neg)],
                                                group="cloneclock|%s|%s|%s|%s" % (clock, fname, place, op)))
    return out


# ----------------------------------------------------------------------------- the band edge in floating point
#
# The band is the written one, goal-|tol| <= state <= goal+|tol|, evaluated in floats.  Non-dyadic decimals (0.1, 0.3, 0.7,
# 1.1 ...) make the two edges inexact, so states exactly ON an edge (as computed, and as the decimal literal a user would
# write) and one ulp inside / outside separate the written test from rearrangements such as |state-goal| <= |tol|.

def edge_states(goal, tol):
    import math
    t = abs(tol)
    lo, hi = goal - t, goal + t
    dlo, dhi = round(goal - t, 2), round(goal + t, 2)        # the decimal literal, e.g. -1.1
    out = []
    for name, v in (("lo-edge", lo), ("hi-edge", hi), ("lo-decimal", dlo), ("hi-decimal", dhi),
                    ("lo-outside", math.nextafter(lo, -math.inf)), ("lo-inside", math.nextafter(lo, math.inf)),
                    ("hi-inside", math.nextafter(hi, -math.inf)), ("hi-outside", math.nextafter(hi, math.inf)),
                    ("lo-decimal-below", math.nextafter(dlo, -math.inf)), ("lo-decimal-above", math.nextafter(dlo, math.inf)),
                    ("hi-decimal-below", math.nextafter(dhi, -math.inf)), ("hi-decimal-above", math.nextafter(dhi, math.inf)),
                    ("centre", goal)):
        if all(v != w for _, w in out):
            out.append((name, v))
    return out


def edge_cases(tier):
    out = []
    goals = [-1.0, 0.3, 0.7, 1.1] + ([0.05, 0.15, -0.35, 2.2, 100.1] if tier == "thorough" else [])
    tols = [0.1, 0.3, 0.7, -0.1] + ([0.05, -0.3, 0.15, 1.1] if tier == "thorough" else [])
    variants = [("direct", "==", False, "go"), ("indirect", "==", False, "go"), ("direct", "!=", False, "go"),
                ("indirect", "!=", False, "go"), ("direct", "==", True, "go"), ("indirect", "!=", True, "go"),
                ("direct", "==", False, "let"), ("indirect", "==", True, "let")]
    for mode, op, neg, form in variants:
        for goal in goals:
            for tol in tols:
                for sname, state in edge_states(goal, tol):
                    cond = ".s %s %s +- %s" % (op, lit(goal) if mode == "direct" else ".g", lit(tol))
                    if neg:
                        cond = "not " + cond
                    inits = ["init .s with value %s" % lit(state)]
                    if mode == "indirect":
                        inits.append("init .g with value %s" % lit(goal))
                    case = dict(family="edge-%s-%s" % (form, mode), cond=cond, label="%s   [.s = %s, %s]" % (cond, lit(state), sname),
                                inits=inits, pre=[], horizon=2, clauses=[("cmp", state, op, goal, tol, neg)],
                                group="edge|%s|%s|%s%s|%s" % (form, mode, "not " if neg else "", op, sname.split("-")[0]))
                    if form == "let":
                        case["text"] = "\n".join(["house h"] + inits + ["framer f be active first a", "frame a", "  go b", "frame b",
                                                                        "  let me if " + cond, "framer twin be active first x",
                                                                        "frame x", ""])
                    out.append(case)
    return out


def all_cases(tier):
    return (cmp_cases(tier) + field_cases(tier) + bool_cases(tier) + clock_cases(tier) + conj_cases(tier)
            + clone_cases(tier) + script_cases(tier) + env_cases(tier) + conjseq_cases(tier)
            + cloneclock_cases(tier) + edge_cases(tier))


def program(case):
    if "text" in case:
        return case["text"]
    src = ["house h"] + case["inits"] + case.get("before", []) + ["framer f be active first a", "frame a"]
    src += ["  " + l for l in case["pre"]]
    src += ["  go b if " + case["cond"], "frame b"] + case.get("after", []) + ["framer twin be active first x", "frame x", ""]
    return "\n".join(src)


# ----------------------------------------------------------------------------- evaluation

def clause_truth(cl, clocks, k):
    """written truth of one clause at tick k (clocks[k] = (elapsed, recurred) of the idle twin)"""
    if cl[0] == "cmp":
        _, state, op, goal, tol, neg = cl
        r = oracle(state, op, goal, tol)
    elif cl[0] == "bool":
        _, v, neg = cl
        r = bool(v)
    elif cl[0] == "const":
        return cl[1]
    elif cl[0] == "ticks":
        return cl[1][k]
    elif cl[0] == "seq":
        _, state, op, goals, tol, neg = cl
        r = oracle(state, op, goals[k], tol)
    else:
        _, clock, op, goal, tol, neg = cl
        state = clocks[k][0] if clock == "elapsed" else clocks[k][1]
        r = oracle(state, op, goal, tol)
    return (not r) if neg else r


def expected_tick(case, clocks):
    for k in range(1, case["horizon"]):
        if all(clause_truth(cl, clocks, k) for cl in case["clauses"]):
            return k
    return None


def check_direct(needing, p, case):
    """Need.Check on the python values of every store-valued comparison clause"""
    for cl in case["clauses"]:
        if cl[0] != "cmp":
            continue
        _, state, op, goal, tol, neg = cl
        want = oracle(state, op, goal, tol)
        p.evaluations += 1
        try:
            got = needing.Need.Check(state, op, goal, 0 if tol is None else tol)
        except Exception as ex:
            got = "raised %s" % type(ex).__name__
        if got is not want and not (isinstance(got, bool) and got == want):
            p.violation("Need.Check|%s|%s-%s|%s" % (op, tclass(state), tclass(goal), "wrong-result"),
                        "Check(%r, %r, %r, %r)" % (state, op, goal, 0 if tol is None else tol),
                        "Need.Check(%r, %r, %r, %r) = %r, the written comparison is %r" % (state, op, goal, 0 if tol is None else tol, got, want),
                        dict(call="ioflo.base.needing.Need.Check", state=state, comparison=op, goal=goal,
                             tolerance=0 if tol is None else tol, got=repr(got), expected=want))


def check_built(real, p, case):
    text = program(case)
    res = real.build_text(text, limit=30.0)
    if res.kind == "Watchdog":
        res = real.build_text(text, limit=120.0)
    p.evaluations += 1
    label = case.get("label", case["cond"])
    p.nontrivial(case["family"] + "|" + label + "|" + ";".join(case["inits"] + case["pre"]))
    rep = dict(script=text, tick=TICK, horizon=case["horizon"], condition=case["cond"],
               how="build with ioflo.base.building.Builder, run with Skedder(real=False, period=tick); observe framer f's active frame per tick")
    if not res.ok:
        exname = res.kind
        where = ""
        if res.tb:
            where = res.tb[-1].name
        p.violation("%s|build-%s|%s" % (case["group"], exname, where), case["cond"],
                    "condition `%s` could not be built: %s %r" % (case["cond"], exname, res.exc), dict(rep, exc=repr(res.exc)))
        p.outcome("%s: build failed" % case["family"].split("-")[0])
        return
    front = back = None
    env = case.get("env")
    if env:
        def write(house, o):
            if o is not None:
                sh = house.store.fetchShare(".g")
                if o[0] == "upd":
                    sh.update(value=o[1])
                elif o[0] == "raw":
                    sh["value"] = o[1]
                else:
                    sh.change(value=o[1])

        def front(house, k):
            if k < len(env):
                write(house, env[k][0])

        def back(house, k):
            if k < len(env):
                write(house, env[k][1])
        rep["harness_writes"] = "per tick (start of tick before every framer, end of tick after every framer): %r; upd = " \
                                "Share.update(value=v), raw = share['value'] = v, chg = Share.change(value=v) on .g" % (env,)
    envs = case.get("envshares")
    if envs:
        def front(house, k):      # noqa: F811
            if k < len(envs) and envs[k][0]:
                for sh, v in envs[k][0].items():
                    house.store.fetchShare("." + sh).update(value=v)
        rep["harness_writes"] = "Share.update(value=v) at the start of tick k, before every framer: %r" % (
            [e[0] for e in envs],)
    rr = real.run(res.houses, tick=TICK, horizon=case["horizon"], limit=60.0, env_front=front, env_back=back)
    if rr.outcome != "returned" or len(rr.ticks) != case["horizon"]:
        p.violation("%s|run-%s" % (case["group"], rr.outcome), case["cond"],
                    "running the transition `go b if %s` ended with %s %r" % (case["cond"], rr.outcome, rr.exc),
                    dict(rep, outcome=rr.outcome, exc=repr(rr.exc)))
        p.outcome("%s: run failed" % case["family"].split("-")[0])
        return
    clocks, actives = [], []
    for t in rr.ticks:
        fm = dict((s[0], s) for s in t["framers"])
        w = fm.get(case.get("watch", "f"))
        if case.get("ownclock") and w is not None and w[4] == case.get("start", "a"):
            clocks.append((w[6], w[7]))      # still waiting in the start frame: its own clocks are the ones just evaluated
        else:
            clocks.append((fm["twin"][6], fm["twin"][7]))
        actives.append(w[4] if w is not None else "<no framer %s>" % case.get("watch"))
    took = None
    for k, a in enumerate(actives):
        if a == case.get("target", "b"):
            took = k
            break
    want = expected_tick(case, clocks)
    fam = case["family"].split("-")[0]
    p.outcome("%s: %s" % (fam, "not taken" if want is None else "taken at tick %d" % want))
    if actives[0] != case.get("start", "a"):
        p.violation("%s|left-at-start" % case["group"], case["cond"], "framer f is not in frame a after the start tick: %r" % (actives,),
                    dict(rep, actives=actives))
        return
    if took != want:
        kind = "taken-but-false" if (took is not None and (want is None or took < want)) else "not-taken-but-true"
        p.violation("%s|%s" % (case["group"], kind), label,
                    "`go b if %s` (%s): transition %s, the written condition %s" % (
                        label, "; ".join(case["inits"] + case["pre"]),
                        "not taken" if took is None else "taken at tick %d" % took,
                        "never holds within the horizon" if want is None else "first holds at tick %d" % want),
                    dict(rep, actives=actives, twin_clocks=clocks, expected_tick=want, observed_tick=took))
    if p.evaluations % 1499 == 0:
        p.sample(dict(condition=case["cond"], inits=case["inits"], expected_tick=want, observed_tick=took))


CHUNK = 150


def work(arg):
    start, stop, tier = arg
    core.use_repo()
    from mc.flo import real
    from ioflo.base import needing
    p = core.Part()
    real.build_text(program(dict(inits=[], pre=[], cond=".s")), limit=60.0)     # warm-up
    for case in all_cases(tier)[start:stop]:
        check_direct(needing, p, case)
        check_built(real, p, case)
    return p


def selftest():
    if not (oracle(1, "==", 1.5, 0.5) and oracle(1, "==", 1.5, -0.5) and not oracle(1, "==", 1.5, 0.25) and oracle("a", "==", "a", 0.5)
            and not oracle("a", "==", 1, None) and oracle(1, "!=", "a", 0) and oracle(True, "==", 1, None) and oracle(1.5, ">", 1, 5)
            and not oracle(1, "<", 1, 0.5) and oracle("a", "<", "b", None)):
        raise core.BrokenCheck("oracle self-test failed")


def replay(path):
    """./vcheck C21 --replay <file>: re-evaluate the one case stored in a replay file; exit 1 if it still fails"""
    import json
    rec = json.load(open(path))
    script = rec["replay"].get("script")
    core.use_repo()
    from mc.flo import real
    from ioflo.base import needing
    p = core.Part()
    hit = [c for c in all_cases("thorough") if program(c) == script]
    if rec["replay"].get("call"):
        r = rec["replay"]
        got = needing.Need.Check(r["state"], r["comparison"], r["goal"], r["tolerance"])
        print("Need.Check(%r, %r, %r, %r) = %r, written comparison %r" % (r["state"], r["comparison"], r["goal"], r["tolerance"], got,
                                                                       r["expected"]))
        return 1 if got != r["expected"] else 0
    if not hit:
        print("replay: no case of the family has this script")
        return 2
    check_direct(needing, p, hit[0])
    check_built(real, p, hit[0])
    print(script)
    for g, ex, what, rep in p.violations:
        print("REPRODUCED %s|%s\n  %s" % (g, ex, what))
    if not p.violations:
        print("not reproduced: the condition now evaluates as written")
    return 1 if p.violations else 0


def run():
    import os
    if os.environ.get("VERIF_REPLAY"):
        return replay(os.environ["VERIF_REPLAY"])
    selftest()
    ck = core.Check("C21", "exploration", META["technique"])
    cases = all_cases(core.TIER)
    items = [(i, i + CHUNK, core.TIER) for i in range(0, len(cases), CHUNK)]
    ck.merge(core.pmap(work, items))
    fam = {}
    for c in cases:
        fam[c["family"]] = fam.get(c["family"], 0) + 1
    ck.coverage_extra = dict(cases=len(cases), families=fam, tick=TICK)
    ck.assumptions = [
        "booleans are python ints: `true == 1.5 +- 0.5` is inside the band; the statement's 'numbers' is read to include them",
        "ordering operators are exercised only on like-typed operands (num-num, str-str, bool-bool); a tolerance written after an "
        "ordering operator is ignored (the statement gives the band only for == and !=)",
        "a transition is evaluated from the first RUN tick on (tick 1); the start tick only enters frame a",
        "clock clauses use the elapsed/recurred values of an idle twin framer started at the same tick (clock correctness is C11)",
        "an indirect goal without a field uses `value` if the goal share has it, else the state's field (NeedIndirect._resolve comment)",
    ]
    return ck.finish(
        rule="all cases of the families %s (%d programs, each also through Need.Check on the values where the clause is a store "
             "comparison); non-trivial = every distinct (family, condition, initial values)" % (sorted(fam), len(cases)),
        exhaustive=True)


if __name__ == "__main__":
    core.main(run)
