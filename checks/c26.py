"""C26 a TCP server keeps one live connection entry per peer address.  Engine C (net doubles):
explicit-state BFS over accept / close / remove / service histories with canonical-state dedupe."""
META = dict(
    engine="net", level="model_checking",
    technique="explicit-state BFS (replay-from-prefix on fresh real Server / ServerTls objects over socket doubles) "
              "over operation histories, canonical-state dedupe, invariants evaluated after every transition",
    text="Real serving.Server and serving.ServerTls (fake TLS context; each pending handshake completes or stays pending "
         "by choice) are driven by every history of: connect from peer address P1 or P2 (a new connection from an address "
         "is possible once the previous client socket from it was closed, so repeated peer addresses and stale entries "
         "arise), peer closes, serviceConnects, serviceReceivesAllIx, removeIx(P), closeIx(P) - BFS to depth 8 (quick) / 11 "
         "(thorough) with states merged on a canonical form of the tables (key order, per-connection socket-double state, "
         "cutoff, received bytes) and the listener backlog. A second family adds peerreset(P) - the peer resets the "
         "connection, after which shutdown() on the server-side socket raises ENOTCONN / EBADF / EINVAL (plain OSError) or "
         "ECONNRESET / EPIPE (ConnectionError) - and closeAllIx, BFS depth 5 / 8 per errno. A third family adds connectbad(P) - an accept "
         "whose socket answers getpeername() with ENOTCONN or a mismatching address, possibly batched with other accepts; "
         "serviceConnects may raise for it once, then it must be gone and the other peers must get their entries - depth 5 / 7. A fourth family adds "
         "transmitIx(P) (unsent data queued on the entry) and peerbreak(P) (send() raises EPIPE / EBADF from then on): removeIx, "
         "closeIx, closeAllIx - also removeIx after closeIx - must still close, drop the key and not raise - depth 5 / 7. A fifth family "
         "(Server) adds connectalt(P): the peer connects to the server's second local address, so a re-accepted peer address "
         "has a different getsockname() - depth 6 / 8. A sixth family adds the caller's "
         "shutdownSendIx(P) / shutdownReceiveIx(P); a later replacement must still shut both directions - depth 6 / 8. After every transition: no operation raised; per peer address at "
         "most one table entry (.ixes and .cxes together) whose socket is neither shut down nor closed; the newest accepted, "
         "not removed connection of each address is the one in the table; a replaced stale connection is shut down or "
         "closed; no other socket was shut down or closed; removeIx leaves the socket closed and the key gone.",
    note="Trusts the socket doubles' accept/close/shutdown bookkeeping. serviceReceivesAllIx after closeIx (a closed entry "
         "left in the table by the caller) raises AttributeError in ioflo; that history is outside the statement, counted in "
         "the evidence notes and not expanded. TLS handshake failures are C25's subject: handshakes only complete or pend.",
)
from mc import core, net

PORT = 7000
HA = (net.LOOP, PORT)
PEERS = ((net.LOOP, 40001), (net.LOOP, 40002))
DEPTH = dict(quick=8, thorough=11)
# configurations with a peerreset(P) event: the peer resets the connection, after which shutdown() on the
# server-side socket raises this errno (plain OSErrors and the ConnectionError family); shallower BFS
SHUTDOWN_FAULTS = ("ENOTCONN", "EBADF", "EINVAL", "ECONNRESET", "EPIPE")
FAULT_DEPTH = dict(quick=5, thorough=8)
# configurations with a connectbad(P) event: a connection whose accepted socket answers getpeername() with
# OSError(ENOTCONN) (reset before the server got to it) or with another address than accept() reported, so
# serviceAxes raises for it while other accepts may sit in the same batch; the caller keeps servicing
ACCEPT_FAULTS = ("getpeername-ENOTCONN", "getpeername-mismatch")
# configurations with transmitIx(P) (one byte queued on the entry, not yet serviced) and peerbreak(P): the peer
# goes away and every later send() on the server-side socket raises this errno (Incomer.send re-raises both);
# removing / closing such an entry must still close the socket and drop the key without raising
SEND_FAULTS = ("send-EPIPE", "send-EBADF")
# configuration with connectalt(P): the peer connects to the server's second local address (the server listens
# on 0.0.0.0), so a re-accepted peer address comes with a different getsockname(); plain Server only (ServerTls
# rejects sockets whose local address is not its .eha)
# configuration with shutdownSendIx(P) / shutdownReceiveIx(P): the caller half-closes an entry; a later
# replacement / removal must still shut the socket down in BOTH directions or close it
HALF = "half-shutdown"
HALF_DEPTH = dict(quick=6, thorough=8)
ALT_LOCAL = "alt-local-address"
ALT_HA = ("127.0.0.2", PORT)
ALT_DEPTH = dict(quick=6, thorough=8)
SFAULT_DEPTH = dict(quick=5, thorough=7)
AFAULT_DEPTH = dict(quick=5, thorough=7)

FSM = None
M = None


def init():
    global FSM, M
    if FSM is not None:
        return
    core.use_repo()
    from ioflo.aio.tcp import serving
    FSM = net.FakeSocketModule().install()
    M = dict(serving=serving)


class HsPolicy:
    """Every decision takes its natural answer, except pending handshakes while .pend is set."""

    def __init__(self):
        self.pend = False

    def decide(self, sock, op, cands):
        if op == "do_handshake" and self.pend and net.SSL("want_read") in cands:
            return cands.index(net.SSL("want_read"))
        return 0


class Conn:
    __slots__ = ("idx", "peer", "client", "srv", "accepted", "removed", "closedix", "reset", "bad", "reported", "exp_wr", "exp_rd")

    def __init__(self, idx, peer, client, srv):
        self.idx = idx
        self.peer = peer
        self.client = client
        self.srv = srv          # server-side FakeSocket (created by the double at connect time)
        self.accepted = False   # left the listener backlog
        self.removed = False    # removeIx was applied to its entry
        self.closedix = False   # closeIx was applied to its entry
        self.reset = False      # the peer reset it: shutdown() on the server-side socket raises the configured errno
        self.bad = False        # connectbad: getpeername() of the accepted socket faults, serviceAxes must reject it
        self.reported = False   # ... and did so (one exception out of serviceConnects)
        self.exp_wr = False     # the caller applied shutdownSendIx to its entry
        self.exp_rd = False     # the caller applied shutdownReceiveIx to its entry


class World:
    """Fresh real server + doubles with a history replayed; .viol = first violated invariant."""

    def __init__(self, subject, history, fault=None):
        self.subject = subject
        self.afault = fault if fault in ACCEPT_FAULTS else None
        self.sfault = fault if fault in SEND_FAULTS else None
        self.alt = fault == ALT_LOCAL
        self.half = fault == HALF
        self.fault = None if (self.afault or self.sfault or self.alt or self.half) else fault   # errno raised by shutdown() after a peerreset
        self.policy = HsPolicy()
        self.fn = net.FakeNet(policy=self.policy)
        FSM.net = self.fn
        self.clock = net.clock()
        S = M["serving"]
        if subject == "Server":
            self.srv = S.Server(ha=("", PORT), store=self.clock)
        else:
            self.srv = S.ServerTls(ha=("", PORT), store=self.clock, context=net.FakeSslContext(self.fn))
        if not self.srv.reopen():
            raise core.BrokenCheck("server did not open on doubles")
        self.srv.ss.menu = net.Menu(handshake=("want_read",))
        self.conns = []
        self.live = {}          # peer -> Conn whose client socket is open
        self.inc2conn = {}      # id(incomer) -> Conn (kept alive by self.incs)
        self.incs = []
        self.viol = None        # (kind, what)
        self.refused = False    # the last serviceConnects refused a faulty accept by raising
        self.terminal = None    # unspecified territory reached: do not expand
        self.history = []
        for ev in history:
            self.apply(ev)
            if self.viol or self.terminal:
                break

    # -- helpers
    def tables(self):
        t = [("i", self.srv.ixes)]
        if self.subject == "ServerTls":
            t.insert(0, ("c", self.srv.cxes))
        return t

    def conn_of(self, inc):
        c = self.inc2conn.get(id(inc))
        if c is None:
            raw = inc.cs.raw if hasattr(inc.cs, "raw") else inc.cs
            for k in self.conns:
                if k.srv is raw:
                    c = k
                    break
            if c is None:
                raise core.BrokenCheck("table entry with an unknown socket")
            self.inc2conn[id(inc)] = c
            self.incs.append(inc)
        return c

    @staticmethod
    def status(sock):
        if sock.closed:
            return "closed"
        if sock.shut_wr and sock.shut_rd:
            return "shut"
        if "shutdown" in sock.sticky and sock.calls["shutdown"]:
            return "shut"       # shutdown was attempted on a transport the peer had already reset
        if sock.shut_wr or sock.shut_rd:
            return "half"       # only one direction shut down
        return "open"

    # -- events
    def enabled(self):
        evs = []
        for p in PEERS:
            if p not in self.live:
                evs.append(("connect", p))
                if self.afault:
                    evs.append(("connectbad", p))
                if self.alt:
                    evs.append(("connectalt", p))
            else:
                evs.append(("peerclose", p))
                if self.fault:
                    evs.append(("peerreset", p))
                if self.sfault:
                    evs.append(("peerbreak", p))
        if self.subject == "ServerTls":
            evs.append(("serviceConnects", "ok"))
            if self.srv.cxes or self.srv.ss.backlog:
                evs.append(("serviceConnects", "pend"))
        else:
            evs.append(("serviceConnects", "ok"))
        evs.append(("serviceReceivesAllIx",))
        for p in PEERS:
            if p in self.srv.ixes:
                evs.append(("removeIx", p))
                if self.srv.ixes[p].cs is not None:
                    evs.append(("closeIx", p))
        if self.half:
            for p in PEERS:
                ix = self.srv.ixes.get(p)
                if ix is not None and ix.cs is not None:
                    c = self.conn_of(ix)
                    if not c.exp_wr:
                        evs.append(("shutdownSendIx", p))
                    if not c.exp_rd:
                        evs.append(("shutdownReceiveIx", p))
        if self.sfault:
            for p in PEERS:
                if p in self.srv.ixes and len(self.srv.ixes[p].txes) < 1:
                    evs.append(("transmitIx", p))
        if (self.fault or self.sfault) and any(ix.cs is not None for ix in self.srv.ixes.values()):
            evs.append(("closeAllIx",))
        return evs

    def apply(self, ev):
        self.history.append(ev)
        srv = self.srv
        op = ev[0]
        try:
            if op in ("connect", "connectbad", "connectalt"):
                p = ev[1]
                c = self.fn.socket(name="cli%d" % len(self.conns))
                c.bind(p)
                rc = c.connect_ex(ALT_HA if op == "connectalt" else HA)
                if rc != 0:
                    raise core.BrokenCheck("double refused a connect to a listening server")
                conn = Conn(len(self.conns), p, c, srv.ss.backlog[-1])
                c.send(bytes([65 + conn.idx]))
                self.conns.append(conn)
                self.live[p] = conn
                if op == "connectbad":
                    import errno
                    conn.bad = True
                    conn.srv.stick("getpeername", net.ERR(errno.ENOTCONN) if self.afault.endswith("ENOTCONN")
                                   else ("addr", (net.LOOP, 1)))
                return
            if op == "peerclose":
                self.live.pop(ev[1]).client.close()
                return
            if op == "peerreset":
                import errno
                conn = self.live.pop(ev[1])
                conn.client.close()
                conn.reset = True
                conn.srv.stick("shutdown", net.ERR(getattr(errno, self.fault)))
                return
            if op == "peerbreak":
                import errno
                conn = self.live.pop(ev[1])
                conn.client.close()
                conn.reset = True
                conn.srv.stick("send", net.ERR(getattr(errno, self.sfault.split("-")[1])))
                return
            if op == "transmitIx":
                srv.transmitIx(b"x", ev[1])
                return
            if op in ("shutdownSendIx", "shutdownReceiveIx"):
                conn = self.conn_of(srv.ixes[ev[1]])
                getattr(srv, op)(ev[1])
                if op == "shutdownSendIx":
                    conn.exp_wr = True
                else:
                    conn.exp_rd = True
                self.invariants(op)
                return
            if op == "serviceConnects":
                self.policy.pend = (ev[1] == "pend")
                inaxes = set(id(cs) for cs, ca in srv.axes)
                pending_bad = [c for c in self.conns if c.bad and not c.reported
                               and (c.srv in srv.ss.backlog or id(c.srv) in inaxes)]
                self.refused = False
                try:
                    srv.serviceConnects()
                except (ValueError, OSError) as ex:
                    if not pending_bad:
                        raise
                    self.refused = True
                    # a faulty accept may be refused with an exception - once; then it has to be gone
                    bad = pending_bad[0]
                    bad.reported = True
                    if any(cs is bad.srv for cs, ca in srv.axes) or bad.srv in srv.ss.backlog:
                        self.viol = ("bad-accept-still-queued", "serviceConnects raised %s for the faulty accept from %r "
                                     "but left it queued in .axes (%d queued)" % (type(ex).__name__, bad.peer, len(srv.axes)))
                finally:
                    self.policy.pend = False
            elif op == "serviceReceivesAllIx":
                if any(ix.cs is None for ix in srv.ixes.values()):
                    try:
                        srv.serviceReceivesAllIx()
                    except AttributeError:
                        self.terminal = "serviceReceivesAllIx with a closeIx'd entry still in .ixes raises AttributeError"
                        return
                else:
                    srv.serviceReceivesAllIx()
            elif op == "removeIx":
                inc = srv.ixes[ev[1]]
                conn = self.conn_of(inc)
                srv.removeIx(ev[1])
                conn.removed = True
                if ev[1] in srv.ixes:
                    self.viol = ("removeIx-key-kept", "removeIx(%r) left the key in .ixes" % (ev[1],))
                elif not conn.srv.closed:
                    self.viol = ("removeIx-socket-open", "removeIx(%r) did not close the entry's socket" % (ev[1],))
            elif op == "closeIx":
                inc = srv.ixes[ev[1]]
                conn = self.conn_of(inc)
                srv.closeIx(ev[1])
                conn.closedix = True
                if not conn.srv.closed:
                    self.viol = ("closeIx-socket-open", "closeIx(%r) did not close the entry's socket" % (ev[1],))
            elif op == "closeAllIx":
                conns = [self.conn_of(inc) for inc in srv.ixes.values() if inc.cs is not None]
                srv.closeAllIx()
                for conn in conns:
                    conn.closedix = True
                    if not conn.srv.closed and self.viol is None:
                        self.viol = ("closeAllIx-socket-open", "closeAllIx() left the socket of the entry for %r open"
                                     % (conn.peer,))
            else:
                raise core.BrokenCheck("unknown event %r" % (ev,))
        except core.BrokenCheck:
            raise
        except Exception as ex:
            import traceback
            tb = traceback.extract_tb(ex.__traceback__)
            where = ""
            for fr in tb:
                if "/ioflo/" in fr.filename:
                    where = fr.name
            self.viol = ("raised|%s|%s" % (type(ex).__name__, where),
                         "%s raised %s: %s (in %s)" % (op, type(ex).__name__, ex, where))
            return
        if self.viol is None:
            self.invariants(op)

    def invariants(self, op):
        srv = self.srv
        inaxes = set(id(cs) for cs, ca in srv.axes)
        for c in self.conns:
            if not c.accepted and not c.bad and c.srv not in srv.ss.backlog and id(c.srv) not in inaxes:
                c.accepted = True
        if op == "serviceConnects" and not self.refused and srv.axes and not any(c.bad and not c.reported for c in self.conns):
            self.viol = ("accepts-left-queued", "serviceConnects returned normally with %d accepted connection(s) still "
                         "queued in .axes and no faulty accept left to report" % len(srv.axes))
            return
        referenced = {}
        for tname, tbl in self.tables():
            for ca, inc in tbl.items():
                conn = self.conn_of(inc)
                if conn.peer != ca:
                    self.viol = ("wrong-key", "entry keyed %r holds the connection from %r" % (ca, conn.peer))
                    return
                referenced.setdefault(conn.idx, []).append(tname)
        for p in PEERS:
            mine = [c for c in self.conns if c.peer == p]
            entries = [c for c in mine if c.idx in referenced]
            unshut = [c for c in entries if self.status(c.srv) in ("open", "half")]
            if len(unshut) > 1 or any(len(referenced[c.idx]) > 1 for c in entries):
                self.viol = ("two-live-entries", "peer %r has %d table entries with sockets neither shut down nor closed "
                             "(connections %s)" % (p, len(unshut), [c.idx for c in unshut]))
                return
            cand = [c for c in mine if c.accepted and not c.removed]
            newest = cand[-1] if cand else None
            later_removed = [c for c in mine if c.accepted and c.removed and newest and c.idx > newest.idx]
            if newest is not None and not later_removed:
                if newest.idx not in referenced:
                    self.viol = ("newest-not-in-table", "newest accepted connection %d from %r is in no table; tables "
                                 "reference %s" % (newest.idx, p, sorted(referenced)))
                    return
            for c in mine:
                st = self.status(c.srv)
                if c.removed or c.closedix:
                    continue       # judged when the op ran
                stale = c.accepted and any(d.accepted and d.idx > c.idx for d in mine)
                if stale and c.idx not in referenced:
                    if st in ("open", "half"):
                        self.viol = ("stale-not-shut-down", "connection %d from %r was replaced in the table by a newer "
                                     "connection from the same address but its socket was %s" % (c.idx, p,
                                     "neither shut down nor closed" if st == "open" else
                                     "shut down in one direction only (send side %s, receive side %s) and not closed"
                                     % ("down" if c.srv.shut_wr else "open", "down" if c.srv.shut_rd else "open")))
                        return
                elif not stale and st != ("shut" if (c.exp_wr and c.exp_rd) else "half" if (c.exp_wr or c.exp_rd) else "open"):
                    self.viol = ("closed-something-else", "socket of connection %d from %r is %s although it was neither "
                                 "removed nor replaced" % (c.idx, p, st))
                    return

    def canon(self):
        srv = self.srv
        referenced = {}
        for tname, tbl in self.tables():
            for ca, inc in tbl.items():
                conn = self.conn_of(inc)
                referenced.setdefault(conn.idx, []).append(
                    (tname, inc.cutoff, len(inc.rxbs), inc.cs is None, bool(getattr(inc, "connected", True)),
                     len(inc.txes)))
        per = []
        for p in PEERS:
            row = []
            for c in self.conns:
                if c.peer != p:
                    continue
                st = self.status(c.srv)
                ref = tuple(referenced.get(c.idx, ()))
                inback = c.srv in srv.ss.backlog
                if not ref and not inback and st == "closed" and c.client.closed:
                    continue          # fully dead: cannot influence anything any more
                row.append((ref, inback, st, c.client.closed, c.removed, c.closedix, len(c.srv.inbox), c.reset,
                            c.srv.calls["shutdown"] > 0, c.bad, c.reported, c.srv.laddr[0], c.srv.shut_wr, c.srv.shut_rd))
            per.append((p in self.live, tuple(row)))
        order = tuple(tuple(tbl.keys()) for _, tbl in self.tables())
        back = tuple((s.raddr, s.laddr[0]) for s in srv.ss.backlog)
        queued = tuple(ca for cs, ca in srv.axes)
        return (tuple(per), order, back, queued)


def finish_replay(pid, path, p):
    """Common tail of --replay: report whether the recorded case still violates the property."""
    if p.violations:
        for group, example, what, _ in p.violations:
            print("VIOLATION property=%s replay=%s" % (pid, path))
            print("  what: %s" % what)
            print("  key:  %s|%s" % (group, example))
        return 1
    print("%s replay: the recorded case does not violate the property on this tree" % pid)
    return 0


def report(p, subject, w, hist):
    kind, what = w.viol
    ftag = " [after peerreset shutdown() raises %s]" % w.fault if w.fault else ""
    if w.afault:
        ftag = " [connectbad: %s]" % w.afault
    if w.half:
        ftag = " [with shutdownSendIx / shutdownReceiveIx events]"
    if w.alt:
        ftag = " [connectalt: the peer connects to 127.0.0.2, the server's other local address]"
    if w.sfault:
        ftag = " [after peerbreak send() raises %s]" % w.sfault.split("-")[1]
    p.violation("%s|%s" % (subject, kind), " ".join(show(e) for e in hist) + (" shutdown=%s" % w.fault if w.fault else "")
                + (" %s" % (w.afault or w.sfault) if (w.afault or w.sfault) else "") + (" " + ALT_LOCAL if w.alt else "") + (" " + HALF if w.half else ""),
                "%s after history [%s]%s: %s" % (subject, ", ".join(show(e) for e in hist), ftag, what),
                dict(subject=subject, shutdown_fault=w.fault or w.afault or w.sfault or (ALT_LOCAL if w.alt else None) or (HALF if w.half else None), history=[[e[0]] + [list(x) if isinstance(x, tuple) else x for x in e[1:]] for e in hist],
                     what=what, double_log=w.fn.trace(30),
                     how="serving.%s(ha=('',%d)) over mc.net doubles; connect = raw client bound to the peer "
                         "address connects and sends one byte; peerclose = that client closes; peerreset = that client "
                         "closes and every later shutdown() of the server-side socket raises OSError(shutdown_fault); the "
                         "other events are the server methods of the same name" % (subject, PORT)))


def replay(path):
    import json
    r = json.load(open(path))["replay"]
    init()
    p = core.Part()
    hist = [tuple(tuple(x) if isinstance(x, list) else x for x in e) for e in r["history"]]
    w = World(r["subject"], hist, r.get("shutdown_fault"))
    if w.viol:
        report(p, r["subject"], w, hist[:len(w.history)])
    return finish_replay("C26", path, p)


def explore(arg):
    subject, depth, fault = arg
    init()
    p = core.Part()
    seen_terminal = set()

    def build(hist):
        with core.watchdog(20):
            return World(subject, hist, fault)

    def enabled(w, hist):
        return w.enabled()

    def check(w, hist):
        p.traces += 1
        if w.terminal:
            if w.terminal not in seen_terminal:
                seen_terminal.add(w.terminal)
            p.notes["not judged: " + w.terminal] += 1
            return True
        if w.viol:
            kind, what = w.viol
            p.outcome("violation %s" % kind.split("|")[0])
            report(p, subject, w, hist)
            return True
        p.outcome("%s ok, %d entries" % (hist[-1][0] if hist else "init",
                                         sum(len(t) for _, t in w.tables())))
        return False

    st = core.bfs([], enabled, build, lambda w: w.canon(), check, max_depth=depth)
    p.states = st["states"]
    p.transitions = st["transitions"]
    p.evaluations = st["transitions"]
    p.extra["bfs_%s_%s" % (subject, fault or "nofault")] = st
    return p


def show(ev):
    if len(ev) == 1:
        return ev[0]
    a = ev[1]
    if isinstance(a, tuple):
        a = "P%d" % (PEERS.index(a) + 1)
    return "%s(%s)" % (ev[0], a)


def run():
    import os
    if os.environ.get("VERIF_REPLAY"):
        return replay(os.environ["VERIF_REPLAY"])
    net.selftest()
    ck = core.Check("C26", META["level"], META["technique"])
    depth = DEPTH[core.TIER]
    fdepth = FAULT_DEPTH[core.TIER]
    cfgs = [("Server", depth, None), ("ServerTls", depth, None)]
    cfgs += [(sub, fdepth, f) for f in SHUTDOWN_FAULTS for sub in ("Server", "ServerTls")]
    cfgs += [(sub, AFAULT_DEPTH[core.TIER], f) for f in ACCEPT_FAULTS for sub in ("Server", "ServerTls")]
    cfgs += [(sub, SFAULT_DEPTH[core.TIER], f) for f in SEND_FAULTS for sub in ("Server", "ServerTls")]
    cfgs.append(("Server", ALT_DEPTH[core.TIER], ALT_LOCAL))
    cfgs += [(sub, HALF_DEPTH[core.TIER], HALF) for sub in ("Server", "ServerTls")]
    ck.merge(core.pmap(explore, cfgs))
    ck.assumptions = [
        "a second connection from the same peer address can be made only after the previous client socket bound to that "
        "address was closed (TCP four-tuple uniqueness); the server may not have noticed that close yet (stale entry)",
        "'shut down' is observable on the double as shutdown() or close() having been called on the server-side socket",
        "ServerTls: .cxes (accepted, handshake pending) and .ixes together are the table of accepted connections",
        "relies on odict.items()/values() returning list copies (ServerTls.serviceCxes deletes while iterating)",
        "after a peer reset, shutdown() on the server-side socket raises the configured errno every time (ENOTCONN is what "
        "Linux answers; EBADF, EINVAL, ECONNRESET, EPIPE for completeness); an attempted shutdown on such a socket counts as "
        "'shut down' since the transport is already gone",
        "connectbad: serviceConnects may refuse a faulty accept (getpeername ENOTCONN / address mismatch) by raising "
        "ValueError/OSError once; the caller keeps servicing; afterwards that accept must be gone (not queued, no entry "
        "required) and every other accepted peer must get its one live entry on the following passes without further "
        "exceptions",
        "connectalt: the table is keyed by peer address alone, so a peer address re-accepted on another local address of the "
        "server still replaces (and must shut down) the stale entry",
        "'shut down' for a replaced stale entry means both directions (or closed, or attempted on a reset transport); a "
        "caller's own shutdownSendIx / shutdownReceiveIx leaves the entry in place with exactly that direction down",
        "transmitIx / peerbreak family: data queued on an entry may be unsendable (send raises EPIPE / EBADF, or the entry was "
        "closed with closeIx); removeIx / closeIx / closeAllIx must nevertheless close the socket, drop the key (removeIx) and "
        "not raise; serviceTxesAllIx is not an event there because a non-loss send error propagating out of it is C25's rule",
        "closeIx leaves a closed entry in the table by design; serviceReceivesAllIx on such a table is outside the statement",
    ]
    ck.coverage_extra = dict(shutdown_faults=list(SHUTDOWN_FAULTS), fault_depth=fdepth, depth=depth, peers=[list(x) for x in PEERS], subjects=["Server", "ServerTls"],
                             max_depth=depth)
    return ck.finish(
        rule="BFS over all histories of {connect(P), peerclose(P), serviceConnects[ok|pend], serviceReceivesAllIx, "
             "removeIx(P), closeIx(P)} for P in 2 peer addresses up to depth %d, per subject {Server, ServerTls}; plus, per "
             "shutdown errno in {ENOTCONN, EBADF, EINVAL, ECONNRESET, EPIPE}, the same with the extra events peerreset(P) and "
             "closeAllIx up to depth %d; plus, per accept fault in {getpeername ENOTCONN, getpeername address mismatch}, the "
             "base events and connectbad(P) up to depth %d; plus, per send fault in {EPIPE, EBADF}, the base events, "
             "transmitIx(P), peerbreak(P) and closeAllIx up to depth %d; plus (Server) the base events and connectalt(P) = connect "
             "to the server's second local address, up to depth %d; plus the base events with shutdownSendIx(P) / "
             "shutdownReceiveIx(P) up to depth %d; states merged by canonical form; a state that violates an "
             "invariant is not expanded" % (depth, fdepth, AFAULT_DEPTH[core.TIER], SFAULT_DEPTH[core.TIER], ALT_DEPTH[core.TIER], HALF_DEPTH[core.TIER]),
        exhaustive=False,
        explanation="depth-bounded: exhaustive over all histories up to the stated depth, not a fixpoint "
                    "(leaked stale sockets make the state space unbounded)")


if __name__ == "__main__":
    core.main(run)
