"""C04 Bids and fiats change a tasker's state at its next run, last bid wins.
Engine A: (a) complete BFS of one real framer's control/status machine through runner.send; (b) bid-timing program family and
(c) fiat-sequence family on the real Builder/Skedder, compared with the reference table / interpreter."""
META = dict(
    engine="flo", level="model_checking",
    technique="explicit-state BFS of the real framer control/status machine (6 controls x guard pass/fail) to fixpoint vs reference table; exhaustive bid-timing and fiat-sequence program families on the real Builder/Skedder vs reference interpreter",
    text="(a) A real built framer is driven through runner.send with every control (ready, start, run, stop, abort, unknown) and its first-frame guard "
         "passing or failing, BFS over (status, desire, done, active) to fixpoint, every transition compared with the reference table written from "
         "the statement. (b) Controller x bids 1-2 controls on target y at tick j: all front/mid/back placements and declaration orders, y "
         "active/inactive, y period 0 or 2 ticks, second bid in the same action list / later context of the same tick / next tick; the exact "
         "sequence of (control received, status yielded) by y's generator, logged by a proxy around tasker.runner, equals the reference "
         "(last bid before the run wins; same tick iff y runs later in the tick and is due). (b') a framer bidding on itself (me / own name / all) from its first frame, inside the run that processes START, or later. (c) every fiat sequence up to length 3 on a slave "
         "with passing / failing first-frame guard: each fiat's return value and the slave's state equal the reference; slaves receive controls from fiats only.",
    note="Fiat return values are observed by wrapping the Fiat actors' action methods harness-side. Reference interpreter mc/flo/ref.py.",
)
from mc import core
from mc.flo import runner

CTL = ("ready", "start", "run", "stop", "abort", "bogus")


def machine_work(arg):
    """(a) BFS of the control/status machine of one real framer."""
    core.use_repo()
    from mc.flo import lang, real, ref, families as F
    from ioflo.base.globaling import READY, START, RUN, STOP, ABORT
    code = {"ready": READY, "start": START, "run": RUN, "stop": STOP, "abort": ABORT, "bogus": 99}
    p = core.Part()
    prog = dict(tick=0.125, inits=[("env.e0", 1), ("env.e1", 0)], framers=[
        dict(name="s", schedule="slave", frames=[
            dict(name="s0", items=[("let", [F.E0])] + F.recs("s0", ("benter", "enter", "exit", "recur")) + [("go", "next", [("recurred", ">=", 1, False)])]),
            dict(name="s1", items=F.recs("s1", ("enter", "exit", "recur")))])])
    text = lang.emit(prog)

    def build(hist):
        br = real.build_text(text)
        if not br.ok:
            raise core.BrokenCheck("machine program does not build: %r" % (br.exc,))
        house = br.houses[0]
        house.store.changeStamp(0.0)
        fm = house.framers[0]
        R = ref.Ref(prog)
        rs = R.framers["s"]
        real.EVENTS.clear()
        obs = []
        for (ctl, guard) in hist:
            house.store.fetchShare("env.e0").update(value=guard)
            R.update("env.e0", value=guard)
            real.EVENTS.clear()
            R.log = []
            try:
                st = real.STATUS.get(fm.runner.send(code[ctl]))
            except StopIteration:
                st = "StopIteration"
            try:
                st2 = R.send(rs, ctl if ctl != "bogus" else "bogus")
            except StopIteration:
                st2 = "StopIteration"
            obs.append(((st, real.CONTROL.get(fm.desire), fm.done, fm.active.name if fm.active else None, tuple(f.name for f in fm.actives), list(real.EVENTS)),
                        (st2, rs.desire, rs.done, rs.active.name if rs.active else None, tuple(f.name for f in rs.actives), list(R.log))))
        return fm, obs

    seen = set()
    frontier = [()]
    while frontier:
        nxt = []
        for hist in frontier:
            for ctl in CTL:
                for guard in (1, 0):
                    h2 = hist + ((ctl, guard),)
                    fm, obs = build(h2)
                    p.evaluations += 1
                    p.transitions += 1
                    a, b = obs[-1]
                    p.outcome("%s->%s" % (ctl, a[0]))
                    if a != b:
                        p.violation("control-status-machine|%s" % ctl, "history %s" % (list(h2),),
                                    "after %s real (status,desire,done,active,actives,events) %r, reference table %r" % (list(h2), a, b),
                                    dict(text=text, history=list(h2)))
                        continue
                    key = a[:5]
                    if key not in seen:
                        seen.add(key)
                        p.nontrivial(key)
                        if len(h2) < 8:
                            nxt.append(h2)
                        else:
                            p.capped = True
        frontier = nxt
    p.states += len(seen)
    p.traces += p.evaluations
    p.sample(dict(machine_script=text, states=sorted(map(repr, seen))))
    return p


def family():
    from mc.flo import families as F
    yield from F.fam_fiats(3)
    yield from F.fam_selfbids()
    yield from F.fam_bids(js=(0, 2) if core.TIER == "quick" else (0, 1, 2, 3))


def on_prog(p, idx, label, prog, meta):
    from mc.flo import conform, real
    real.watch_fiats()
    horizon = 8
    text, br, rr = conform.run_real(prog, horizon)
    p.evaluations += 1
    p.nontrivial(label)
    if not br.ok:
        runner.violation(p, idx, "build-failed|%s" % br.kind, label, "does not build: %r" % (br.exc,), dict(text=text))
        return
    if rr.outcome != "returned":
        runner.violation(p, idx, "run-" + rr.outcome, label, "run did not return %r" % (rr.exc,), dict(text=text))
        return
    ro = conform.run_ref(prog, horizon)
    p.traces += 1
    p.states += len(rr.ticks)
    a = [(c[1], c[2], c[3]) for c in rr.controls]
    b = [(c[1], c[2], c[3]) for c in ro.controls]
    # the reference logs only scheduled runs; the real proxy also logs the final abort sweep
    if a[:len(b)] != b:
        i = next(i for i in range(min(len(a), len(b)) + 1) if i >= len(a) or i >= len(b) or a[i] != b[i])
        runner.violation(p, idx, "control-sequence-differs", label,
                         "run #%d of the schedule: real (tasker, control received, status yielded) %r, reference %r" % (i, a[i:i + 1], b[i:i + 1]),
                         dict(text=text, real=a, ref=b))
        return
    slaves = [fm["name"] for fm in prog["framers"] if fm.get("schedule") == "slave"]
    if any(c[1] in slaves for c in rr.controls):
        runner.violation(p, idx, "slave-run-by-scheduler", label, "scheduler sent a control to a slave framer", dict(text=text))
        return
    p.transitions += len(a)
    d = runner.cmp_full(fields=(0, 1, 2, 3, 4, 5))(rr, ro)
    if d:
        runner.violation(p, idx, d[0], label, d[1], dict(text=text))
        return
    ys = [c for c in a if c[0] in ("y", "s")]
    p.outcome("/".join("%s>%s" % (c[1][:3], c[2][:3]) for c in ys[:4]))
    if idx % 2999 == 0:
        p.sample(dict(label=label, script=text, controls=a[:12]))


def run():
    ck = core.Check("C04", "model_checking", META["technique"])
    ck.merge(core.pmap(machine_work, [0]))
    runner.run_family(ck, family, on_prog)
    ck.assumptions = ["reference control/status table and scheduler from DESIGN appendix A.1/A.2 (mc/flo/ref.py)",
                      "fiat return values observed by harness-side wrappers of Fiat*.action"]
    return ck.finish(rule="(a) state = (status, desire, done, active, actives) of a real framer, transition = runner.send(control) with guard bit; "
                          "(b) bid program = placement x declaration order x schedule x period x tick j x first bid x second bid/where; "
                          "(c) fiat program = guard x fiat sequence up to length 3; distinct = program label / machine state", exhaustive=True)


if __name__ == "__main__":
    core.main(run)
