"""C07 Framer runs agree with a reference interpreter of FloScript semantics.
Engine A: every program family of C04-C12/C20 (each complete within its bounds) built by the real Builder, run by the real
Skedder through every reachable (state x env input), compared tick by tick with the independent reference interpreter
mc/flo/ref.py on ALL observables: ordered recorder events in every context, status, desire, done, active frame, active
outline, elapsed, recurred, main frame, watched store values and stamps, marks, run length, abort-sweep events."""
META = dict(
    engine="flo", level="model_checking",
    technique="reference-model conformance: explicit-state BFS over env-input histories of exhaustively enumerated FloScript program families on the real Builder/Skedder, every trace compared step by step with an independent reference interpreter",
    text="The reference interpreter (AST walker with its own store, scheduler, outline arithmetic, control/status table, needs, marks, auxiliaries, "
         "clones; no code shared with ioflo) and real ioflo execute the same program under the same inputs; the first difference in any "
         "observable at any tick is a violation. Families: frame forests with transitions/under overrides/conditional auxiliaries, guarded "
         "forests with shared original auxiliaries, plain-auxiliary slot assignments with done-conditions, conditional-auxiliary placements, "
         "clock grids (timeout/repeat/forced re-entry, binary and decimal ticks), bid timing and fiat sequences, marker programs with "
         "front/back writes, clone/rear/raze programs, and a pairwise feature-interaction family (every pair of 38 item templates - transitions, clocks, guards, plain/conditional auxiliaries, bids, fiats, store writes and conditions, done - on every frame of a fork, started in the primary or non-primary branch). Quick tier uses the smaller bound of each family; thorough the full bounds.",
    note="Agreement shows ioflo is consistent with the documented design as transcribed in DESIGN appendix A (no manual is available offline), not that the design is right. traces_validated_against_impl = number of real executions compared.",
)
from mc import core
from mc.flo import runner


def family():
    from mc.flo import families as F
    q = core.TIER == "quick"
    # (kind, label, prog, meta)
    for label, prog, meta in F.fam_forest(2, pairs=True):
        yield label, prog, dict(kind="env")
    for label, prog, meta in F.fam_forest(3, pairs=not q, aux_kinds=("repeat1",) if q else ("repeat1", "never", "now")):
        if q and "auxif" in label and meta["parents"] not in ((None, 0, 1), (None, 0, 0)):
            continue
        yield label, prog, dict(kind="env")
    for label, prog, meta in F.fam_guards(2):
        yield label, prog, dict(kind="env")
    if not q:
        for label, prog, meta in F.fam_guards(3):
            yield label, prog, dict(kind="env")
    for label, prog, meta in F.fam_plain_aux(quick=q):
        if q and "/repeat1/" not in label and "doneverb" not in label:
            continue
        yield label, prog, dict(kind="env", depth=12)
    for label, prog, meta in F.fam_cond_aux():
        if q and "/repeat1/" not in label and "/now/" not in label:
            continue
        yield label, prog, dict(kind="env")
    for label, prog, meta in F.fam_cond_aux_fork():
        if q and "/repeat1/" not in label:
            continue
        yield label, prog, dict(kind="env")
    for label, prog, meta in F.fam_clocks((0.125, 0.1) if q else F.DYADIC_TICKS + F.DECIMAL_TICKS):
        yield label, prog, dict(kind="single", horizon=24)
    for label, prog, meta in F.fam_fiats(2 if q else 3):
        yield label, prog, dict(kind="single", horizon=8, fiats=True)
    for i, (label, prog, meta) in enumerate(F.fam_bids(js=(1,) if q else (0, 1, 2, 3))):
        if q and "/mm/" not in label and "/fb/" not in label and "/bf/" not in label:
            continue
        yield label, prog, dict(kind="single", horizon=8)
    for label, prog, meta in F.fam_cond_aux_two():
        if not q or ("dx0-dy0" in label and label.split("/")[1] in ("repeat1-never", "repeat1-repeat1")):
            yield label, prog, dict(kind="env")
    for label, prog, meta in F.fam_markers_guarded():
        yield label, prog, dict(kind="markers-deep")
    for label, prog, meta in F.fam_clones_static_and_reared():
        yield label, prog, dict(kind="clones")
    for label, prog, meta in F.fam_clone_guards():
        yield label, prog, dict(kind="clones")
    if not q:
        for label, prog, meta in F.fam_clocks_deep():
            yield label, prog, dict(kind="single", horizon=40)
        for label, prog, meta in F.fam_markers_deep():
            yield label, prog, dict(kind="markers-deep")
    for label, prog, meta in F.fam_clocks_condaux():
        yield label, prog, dict(kind="single", horizon=24)
    for label, prog, meta in F.fam_restart():
        yield label, prog, dict(kind="env", depth=10)
    for label, prog, meta in F.fam_clone_markers():
        yield label, prog, dict(kind="clonemarkers")
    for label, prog, meta in F.fam_pairs():
        if q and not ("@0+" in label and label.endswith("first-None") and "@2/first" not in label):
            continue
        yield label, prog, dict(kind="pairs")
    for label, prog, meta in F.fam_indirect_goals():
        yield label, prog, dict(kind="indirect")
    for label, prog, meta in F.fam_selfbids():
        yield label, prog, dict(kind="single", horizon=10)
    for label, prog, meta in F.fam_markers():
        yield label, prog, dict(kind="markers-xy" if meta.get("xy") else "markers-deep" if meta.get("xe") else "markers")
    for label, prog, meta in F.fam_clones():
        if q and ("rear2" in label or "rear3" in label or "nested" in label):
            continue
        yield label, prog, dict(kind="clones")


FULL = (0, 1, 2, 3, 4, 5, 6, 7, 8)


def on_prog(p, idx, label, prog, meta):
    from mc.flo import families as F, conform, real, lang
    real.watch_fiats()
    kind = meta["kind"]
    cmp = runner.cmp_full(fields=FULL)
    if kind == "single":
        text, br, rr = conform.run_real(prog, meta["horizon"])
        p.evaluations += 1
        p.nontrivial(label)
        if not br.ok:
            runner.violation(p, idx, "build-failed|%s" % br.kind, label, "does not build: %r" % (br.exc,), dict(text=text))
            return
        if rr.outcome != "returned":
            runner.violation(p, idx, "run-" + rr.outcome, label, "run did not return %r" % (rr.exc,), dict(text=text))
            return
        ro = conform.run_ref(prog, meta["horizon"])
        p.traces += 1
        p.states += len(rr.ticks)
        p.transitions += len(rr.ticks)
        d = cmp(rr, ro)
        if d:
            runner.violation(p, idx, d[0], label, d[1], dict(text=text))
        p.outcome("single:%d" % len(rr.ticks))
        if idx % 1999 == 0:
            p.sample(dict(label=label, script=text))
        return
    if kind == "pairs":
        runner.explore_and_check(p, idx, label, prog, cmp=cmp, watch=("v", "c", "w", "s", "t", "g.x", "g.y"), canon_paths={"v", "c", "s", "t", "g.x"},
                                 value_caps={"c": 4, "s": 5},
                                 depth=8 if core.TIER == "quick" else 10, sample_every=1999)
        return
    if kind == "indirect":
        runner.explore_and_check(p, idx, label, prog, cmp=cmp, alphabet=F.G_ALPHABET, back_alphabet=[None, {"g.x": 1}, {"g.x": 2}],
                                 watch=("v", "g.x"), depth=6, sample_every=1999)
        return
    if kind == "markers-xy":
        runner.explore_and_check(p, idx, label, prog, cmp=cmp, alphabet=F.XY_ALPHABET, back_alphabet=[None, {"x": 1}],
                                 watch=("x", "y", "env.e0"), depth=6, sample_every=1999)
        return
    if kind == "markers-deep":
        runner.explore_and_check(p, idx, label, prog, cmp=cmp, alphabet=F.XE_ALPHABET, back_alphabet=[None, {"x": 1}],
                                 watch=("x", "env.e0"), depth=8, sample_every=1999)
        return
    if kind == "markers":
        runner.explore_and_check(p, idx, label, prog, cmp=cmp, alphabet=F.X_ALPHABET, back_alphabet=F.X_ALPHABET, watch=("x",),
                                 depth=8 if core.TIER == "quick" else 14, sample_every=1999)
        return
    if kind in ("clones", "clonemarkers"):
        from checks import c12
        expect = c12.rel_paths(prog)
        watch = tuple(sorted(set().union(*expect.values())))
        read = set()
        for fm in lang.desugar(prog)["framers"]:
            for fr in fm["frames"]:
                for it in fr["items"]:
                    for n in (it[2] if it[0] in ("go", "auxif") else it[1] if it[0] == "let" else []):
                        if n[0] in ("cmp", "bool"):
                            read.add(n[1])
        if kind == "clonemarkers":
            runner.explore_and_check(p, idx, label, prog, cmp=runner.cmp_full(fields=(0, 1, 3, 4, 5, 8)), watch=watch + ("x",),
                                     canon_paths=read | {"x"}, alphabet=F.X_ALPHABET, depth=8 if core.TIER == "quick" else 12, sample_every=1999)
            return
        runner.explore_and_check(p, idx, label, prog, cmp=runner.cmp_full(fields=(0, 1, 3, 4, 5, 6, 7, 8)), watch=watch, canon_paths=read,
                                 depth=8 if core.TIER == "quick" else 12, sample_every=1999)
        return
    runner.explore_and_check(p, idx, label, prog, cmp=cmp, depth=meta.get("depth"), sample_every=1999)


def run():
    ck = core.Check("C07", "model_checking", META["technique"])
    runner.run_family(ck, family, on_prog)
    ck.assumptions = ["reference interpreter mc/flo/ref.py written from DESIGN appendix A", "programs are the union of the C04-C12/C20 families (smaller bounds in quick tier)"]
    return ck.finish(rule="program families as listed in level text; state = canonical snapshot; transition = one tick under one env input; "
                          "every executed history compared with the reference on all observables", exhaustive=True)


if __name__ == "__main__":
    core.main(run)
