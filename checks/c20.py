"""C20 'is updated' and 'is changed' conditions report changes since the mark.
Engine A: marker program family x BFS over histories of writes before / after the framer in each tick, on the real
Builder/Skedder, compared (events, outline, share, marks) with the reference mark model."""
META = dict(
    engine="flo", level="model_checking",
    technique="explicit-state BFS over write histories (front write x back write per tick, same/new value) of enumerated marker programs on the real Builder/Skedder vs the reference mark model",
    text="Programs A<->B(/C) whose transitions are guarded by `x is updated|changed` with every combination of no clause / `in frame me` / "
         "`in frame <name>` / `by mk` (shared marks), two transitions sharing a mark in one frame, a framer write on entry, negation, and marker-guarded transitions into a frame with an entry guard (a refused attempt must leave the mark untouched). Per tick "
         "the harness writes x before the framer (none / value 1 / value 2) and after it (same choices): 9 inputs; BFS to fixpoint over canonical "
         "states that include the share's stamp age and every mark's (stamp age, used age, snapshot). Every tick's transitions, share value/stamp and "
         "mark contents must equal the reference model of the statement (entry reset counts same-tick updates, taken-transition reset does not, "
         "unset mark: any update counts; changed: any field differs from / missing in the snapshot, true before the first snapshot).",
    note="The reference mark model (mc/flo/ref.py) was written from the documented rules in needing.py/acting.py docstrings; writes of the same value are updates but not changes.",
)
from mc import core
from mc.flo import runner


def family():
    from mc.flo import families as F
    for label, prog, meta in F.fam_markers():
        if meta.get("xy"):
            yield label, prog, dict(deep=True, alphabet=F.XY_ALPHABET, watch=("x", "y", "env.e0"), depth=5 if core.TIER == "quick" else 7)
        else:
            yield label, prog, dict(deep=bool(meta.get("xe")))
    for label, prog, meta in F.fam_markers_guarded():
        yield label, prog, dict(deep=True)
    for label, prog, meta in F.fam_markers_fields():
        yield label, prog, dict(deep=True, alphabet=meta["alphabet"])
    for label, prog, meta in F.fam_markers_exit_writes():
        yield label, prog, dict(deep=True, alphabet=meta["alphabet"], watch=meta["watch"])
    if core.TIER != "quick":
        for label, prog, meta in F.fam_markers_deep():
            yield label, prog, dict(deep=True)


def on_prog(p, idx, label, prog, meta):
    from mc.flo import families as F
    if meta.get("deep"):
        runner.explore_and_check(p, idx, label, prog, mons=(), cmp=runner.cmp_full(fields=(0, 1, 3, 4, 5)),
                                 alphabet=meta.get("alphabet") or F.XE_ALPHABET, back_alphabet=[None, {"x": 1}], watch=meta.get("watch") or ("x", "env.e0"),
                                 depth=meta.get("depth") or 8, sample_every=7)
        return
    runner.explore_and_check(p, idx, label, prog, mons=(), cmp=runner.cmp_full(fields=(0, 1, 4, 5)),
                             alphabet=F.X_ALPHABET, back_alphabet=F.X_ALPHABET, watch=("x",),
                             depth=14 if core.TIER == "quick" else 18, sample_every=17,
                             outcome=lambda rr: "%s/%s" % (rr.ticks[-1]["framers"][0][4], rr.ticks[-1]["shares"].get("x")) if rr.ticks else "none")


def run():
    ck = core.Check("C20", "model_checking", META["technique"])
    runner.run_family(ck, family, on_prog)
    ck.assumptions = ["reference mark model in mc/flo/ref.py", "writes are share.update(value=v) by harness taskers ordered before / after the framer"]
    return ck.finish(rule="program = marker clause variants; state = canonical (framer snapshot, x fields + stamp age, marks with ages); "
                          "transition = one tick with (front write, back write) in {none,1,2}^2 (+ stop tick)", exhaustive=True)


if __name__ == "__main__":
    core.main(run)
