"""C03 scheduler stops when nothing runs and aborts every remaining tasker, on every exit path.
Engine A (flo) + crash-point enumeration: small multi-framer FloScript programs (built by the
real Builder) and hand-made tasker houses are run through the real `Skedder.run`; the
fault-free run is recorded, then repeated once for every (tick, i-th action) crash point with
RuntimeError and with KeyboardInterrupt, and once for a KeyboardInterrupt at every tick
boundary."""
META = dict(
    engine="flo", level="fault_enumeration",
    technique="programs x every crash point (i-th recorder action or i-th tasker run raises RuntimeError / KeyboardInterrupt) "
              "x every tick boundary interrupted, on the real Skedder; invariants of the statement evaluated on the full "
              "control / enter / exit trace",
    text="Programs: a controller framer with nested frames bids stop/abort of itself, another framer or all at tick j in 0..4, "
         "an inactive framer, a framer started by a bid, an auxiliary framer, a slave driven by fiat verbs; plus houses of scripted "
         "taskers that stop, abort, or whose generator returns. For each, every recorder call of the fault-free run is a crash "
         "point (RuntimeError, KeyboardInterrupt) and every tick boundary an interrupt point. Checked: run returns or re-raises "
         "exactly the injected error; it lasts exactly until the first tick with no tasker started/running (or an empty queue); "
         "each tasker still queued gets exactly one ABORT; each such framer's open frames, and those of the auxiliaries its "
         "frames hold (done or not), are exited bottom-up before run() returns.",
    note="Single faults only (a second exception raised during the abort sweep itself is outside the statement and only "
         "reported as an observation); framers have period 0 except one family with a period of 4-8 ticks; the tasker whose own "
         "generator raised is exempt, as are slaves "
         "and auxiliaries (never scheduled).",
)
import itertools

from mc import core

TICK = 0.125


# --------------------------------------------------------------------------- FloScript programs

def rec3(tag, ind):
    sp = " " * ind
    return [sp + 'do rec with tag "%s" at enter' % tag,
            sp + 'do rec with tag "%s" at recur' % tag,
            sp + 'do rec with tag "%s" at exit' % tag]


def chain(prefix, top, j, body_at_j, after):
    """Frames <prefix>0..<prefix>j under `top`, one tick each; frame j carries body_at_j, then
    `after` extra frames follow; the last one bids stop all."""
    out = ["   frame %s" % top] + rec3(top, 6)
    n = j + 1 + after
    for i in range(n):
        name = "%s%d" % (prefix, i)
        out.append("      frame %s in %s" % (name, top))
        out += rec3(name, 9)
        if i == j:
            out += ["         " + ln for ln in body_at_j]
        if i == n - 1:
            out.append("         bid stop all")
        else:
            out.append("         go next")
    return out


def chain2(prefix, top, n, bodies, hold=None, end=("bid stop all",)):
    """Frames <prefix>0..<prefix>(n-1) under `top`; frame i carries bodies.get(i) and is left after one
    tick, or after hold[i] ticks; the last frame carries `end`."""
    hold = hold or {}
    out = ["   frame %s" % top] + rec3(top, 6)
    for i in range(n):
        name = "%s%d" % (prefix, i)
        out.append("      frame %s in %s" % (name, top))
        out += rec3(name, 9)
        out += ["         " + ln for ln in bodies.get(i, ())]
        if i == n - 1:
            out += ["         " + ln for ln in end]
        elif i in hold:
            out.append("         go next if elapsed >= %r" % (hold[i] * TICK))
        else:
            out.append("         go next")
    return out


def deep_framer(name, sched, depth, extra=(), end_after=None):
    """`depth` nested frames <n>0 > <n>1 > ... with recorders; extra lines go into the innermost."""
    f = name.lower()
    out = ["framer %s be %s first %s0" % (name, sched, f)]
    for d in range(depth):
        ind = 3 + 3 * d
        out.append(" " * ind + "frame %s%d" % (f, d) + (" in %s%d" % (f, d - 1) if d else ""))
        out += rec3("%s%d" % (f, d), ind + 3)
        if d == 0 and end_after is not None:
            out.append(" " * (ind + 3) + "go %send if elapsed >= %r" % (f, end_after * TICK))
    out += [" " * (3 * depth + 3) + ln for ln in extra]
    if end_after is not None:
        out += ["   frame %send" % f] + rec3(f + "end", 6) + ["      bid stop all"]
    return out


def worker_framer(name, sched, extra=(), end_after=None):
    """Two nested frames with recorders; `end_after=n`: after n ticks of running the framer moves to a
    final frame that bids stop all (so that every program ends by itself whatever happened to A)."""
    f = name.lower()
    out = ["framer %s be %s first %s0" % (name, sched, f),
           "   frame %s0" % f] + rec3(f + "0", 6)
    if end_after is not None:
        out.append("      go %send if elapsed >= %r" % (f, end_after * TICK))
    out += ["      frame %s1 in %s0" % (f, f)] + rec3(f + "1", 9)
    out += ["         " + ln for ln in extra]
    if end_after is not None:
        out += ["   frame %send" % f] + rec3(f + "end", 6) + ["      bid stop all"]
    return out


def flo_programs(tier):
    js = range(0, 5) if tier == "thorough" else (0, 1, 3)
    progs = []
    # P1: bid <verb> <target> at tick j; B active 2-deep, C inactive; A before or after B
    for verb, target in itertools.product(("stop", "abort"), ("me", "B", "all")):
        for j in js:
            for a_first in (True, False):
                if not a_first and j not in (0, 1):
                    continue
                A = ["framer A be active first a0"] + chain("a", "atop", j, ["bid %s %s" % (verb, target)], 2)
                B = worker_framer("B", "active", end_after=j + 4)
                C = worker_framer("C", "inactive")
                blocks = [A, B, C] if a_first else [B, C, A]
                progs.append(("P1 bid %s %s at tick %d, A %s" % (verb, target, j, "first" if a_first else "last"), blocks))
    # P2: aux X under B's inner frame, slave S driven by fiat from A's frame j
    for j in js:
        A = ["framer A be active first a0"] + chain("a", "atop", j, ["start S", "run S", "stop S"], 2)
        B = worker_framer("B", "active", extra=["aux X"])
        X = worker_framer("X", "aux")
        S = worker_framer("S", "slave")
        progs.append(("P2 aux under B, slave S by fiat from tick %d" % j, [A, B, X, S]))
    # P3: inactive C started by a bid at tick j, stopped with all later
    for j in js:
        A = ["framer A be active first a0"] + chain("a", "atop", j, ["bid start C"], 3)
        B = worker_framer("B", "active")
        C = worker_framer("C", "inactive")
        progs.append(("P3 bid start C at tick %d" % j, [A, C, B]))
    # P4: B aborts itself while A runs on, then everything stopped
    for j in js:
        A = ["framer A be active first a0"] + chain("a", "atop", j + 1, ["bid abort B", "bid abort A"], 1)
        B = worker_framer("B", "active")
        progs.append(("P4 bid abort B and A at tick %d" % (j + 1), [B, A]))
    # R1: nested framer B stopped by a bid at tick i and started again at tick j > i; the run then ends
    #     during B's second incarnation (stop all / abort all, and every crash and interrupt point)
    ijs = [(0, 1), (0, 2), (1, 2), (1, 3)] if tier != "thorough" else [(i, j) for i in range(3) for j in range(i + 1, i + 4)]
    for depth in (2, 3):
        for i, j in ijs:
            for ending in ("stop", "abort"):
                for a_first in ((True, False) if (i, j) == (0, 1) else (True,)):
                    A = ["framer A be active first a0"] + chain2("a", "atop", j + 4, {i: ["bid stop B"], j: ["bid start B"]},
                                                                 end=("bid %s all" % ending,) + (("bid stop me",) if ending == "abort" else ()))
                    B = deep_framer("B", "active", depth)
                    progs.append(("R1 depth %d: bid stop B at tick %d, bid start B at tick %d, then bid %s all, A %s"
                                  % (depth, i, j, ending, "first" if a_first else "last"), [A, B] if a_first else [B, A]))
    # R2: auxiliary X (nested outline) entered with frame m0, left, entered again with frame m<k>
    for depth in (2, 3):
        for k in ((2,) if tier != "thorough" else (1, 2, 3)):
            M = ["framer M be active first m0"] + chain2("m", "mtop", k + 3, {0: ["aux X"], k: ["aux X"]}, hold={k: 2})
            X = deep_framer("X", "aux", depth)
            progs.append(("R2 depth %d: aux X under m0 and again under m%d" % (depth, k), [M, X]))
    # R3: slave S (nested outline) started / run / stopped by fiats in frame a<i>, then again in frame a<j>
    for depth in (2, 3):
        for i, j in (((0, 2),) if tier != "thorough" else ((0, 1), (0, 2), (1, 3))):
            fiats = ["start S", "run S", "stop S"]
            A = ["framer A be active first a0"] + chain2("a", "atop", j + 3, {i: fiats, j: fiats}, hold={j: 2})
            S = deep_framer("S", "slave", depth)
            progs.append(("R3 depth %d: slave S by fiat in a%d and again in a%d" % (depth, i, j), [A, S]))
    # R4: running framer B holds a plain auxiliary X (two nested frames) that reports `done me` after d ticks
    #     and stays entered; the run ends before or after that point by stop / abort bids (and, as for every
    #     program, at every crash and interrupt point)
    for d in (1, 2):
        for e in sorted(set((1, d + 2))):
            for ending in (("bid stop all",), ("bid abort all", "bid stop me"), ("bid abort B", "bid stop all")):
                if tier != "thorough" and d == 1 and e == 1 and ending[0] != "bid stop all":
                    continue
                A = ["framer A be active first a0"] + chain2("a", "atop", e + 1, {}, end=ending)
                B = deep_framer("B", "active", 2, extra=["aux X"])
                X = ["framer X be aux first x1", "   frame x0"] + rec3("x0", 6) + \
                    ["      frame x1 in x0"] + rec3("x1", 9) + ["         go x2 if elapsed >= %r" % (d * TICK)] + \
                    ["      frame x2 in x0"] + rec3("x2", 9) + ["         done me"]
                progs.append(("R4 B holds aux X, X done after %d tick(s); A: %s at tick %d" % (d, " + ".join(ending), e), [A, B, X]))
    # R5: `bid ready C` on a framer that nobody then starts (C inactive, or active and stopped earlier): C sits
    #     READIED and is re-sent READY every tick; when every other tasker has stopped, no tasker is started or
    #     running, so the run must end there (and C, still scheduled, gets its one ABORT)
    for j in ((0, 1) if tier != "thorough" else (0, 1, 2, 3)):
        for end in (("bid stop all",), ("bid stop B", "bid stop me")):
            A = ["framer A be active first a0"] + chain2("a", "atop", j + 3, {j: ["bid ready C"]}, end=end)
            B = deep_framer("B", "active", 2)
            C = deep_framer("C", "inactive", 2)
            progs.append(("R5 bid ready C (inactive) at tick %d; end: %s" % (j, " + ".join(end)), [A, B, C]))
        A = ["framer A be active first a0"] + chain2("a", "atop", j + 5, {j: ["bid stop C"], j + 2: ["bid ready C"]},
                                                     end=("bid stop B", "bid stop me"))
        B = deep_framer("B", "active", 2)
        C = deep_framer("C", "active", 2)
        progs.append(("R5 bid stop C at tick %d, bid ready C at tick %d; end: bid stop B + bid stop me" % (j, j + 2), [A, C, B]))
    # R6: framer W with a period of several ticks (waits between its turns), bid stop / abort / start by A
    #     between two of W's turns; then every other tasker stops before W's next turn.  The run must go on
    #     while W's *status* is started/running (whatever its desire) and end as soon as no status is
    for pt in ((4, 8) if tier != "thorough" else (4, 6, 8)):
        for j in ((1, 2) if tier != "thorough" else (1, 2, 3)):
            if j + 2 >= pt:
                continue                  # A and B (told to stop in tick j+1) stop in tick j+2: must be before W's next turn
            for verb in ("stop", "abort", "start"):
                sched = "inactive" if verb == "start" else "active"
                A = ["framer A be active first a0"] + chain2("a", "atop", j + 2, {j: ["bid %s W" % verb]},
                                                             end=("bid stop B", "bid stop me"))
                B = deep_framer("B", "active", 2)
                W = deep_framer("W", sched, 2)
                W[0] += " at %r" % (pt * TICK)
                if verb == "start":          # W does get started at its next turn if the run is still going: let it end then
                    W = deep_framer("W", sched, 2, end_after=1)
                    W[0] += " at %r" % (pt * TICK)
                # the exact controls W's generator must receive in the fault-free run, the sweep's ABORT included
                expect = {"stop": ["start", "stop", "abort"], "abort": ["start", "abort"], "start": ["stop", "abort"]}[verb]
                for a_first in (True, False):
                    progs.append(("R6 W period %d ticks (%s); A: bid %s W at tick %d, then stop B + stop me; A %s"
                                  % (pt, sched, verb, j, "before W" if a_first else "after W"), [A, B, W] if a_first else [W, B, A],
                                  {"W": expect}))
    # R7: outline a > b > (c | d); conditional auxiliary H on b (never done) suspends c while it runs; a, above b,
    #     then evaluates `go d` (a frame below the suspension point).  Whatever the transition machinery does
    #     with that, every frame M entered must have been exited when the run is over, however it ends
    for hold_at, go_at in (((1, 2), (1, 3)) if tier != "thorough" else ((1, 2), (1, 3), (2, 3), (0, 1))):
      for first in ("c", "d"):            # d is the non-primary (second declared) under of b
        for k_first in (True, False):
            M = ["framer M be active first %s" % first,
                 "   frame a"] + rec3("a", 6) + ["      go d if flag.go == 1",
                 "      frame b in a"] + rec3("b", 9) + ["         aux H if flag.hold == 1",
                 "         frame c in b"] + rec3("c", 12) + [
                 "         frame d in b"] + rec3("d", 12)
            H = ["framer H be aux first h1", "   frame h1"] + rec3("h1", 6)
            K = ["framer K be active first k0"] + chain2("k", "ktop", go_at + 4,
                                                         {hold_at: ["put 1 into flag.hold"], go_at: ["put 1 into flag.go"],
                                                          go_at + 2: ["put 0 into flag.go"]})
            inits = ["init flag.hold with 0", "init flag.go with 0"]
            progs.append(("R7 a>b>(c|d) started in %s, aux H if flag.hold on b from tick %d, go d from a at tick %d, K %s"
                          % (first, hold_at, go_at, "first" if k_first else "last"), [inits, K, M, H] if k_first else [inits, M, H, K]))
    out = []
    for item in progs:
        title, blocks = item[:2]
        text = "house h\n\n" + "\n\n".join("\n".join(b) for b in blocks) + "\n"
        out.append(("flo", title, text) + tuple(item[2:]))
    return out


# --------------------------------------------------------------------------- hand-made houses

def hand_programs(tier):
    """(order, events).  Taskers of period 0; events (actor, tick, kind, target) fire at the actor's
    first run in a tick >= `tick`."""
    js = range(0, 4) if tier == "thorough" else (0, 1, 2)
    out = []
    def title(names, ev):
        return "hand %s: %s" % (names, "; ".join("%s@%d %s%s" % (x, t, k, " " + g if g and g != x else "") for x, t, k, g in ev))
    for n in (1, 2, 3):
        names = "abc"[:n]
        for j in js:
            for kind in ("abort-status", "abort-return", "stop-self"):
                for who in names:
                    if n == 1:
                        ev = ((who, j, kind, who),)
                        out.append(("hand", title(names, ev), (names, ev)))
                        continue
                    ender = [x for x in names if x != who][-1]      # somebody else ends the program
                    for e in (j - 1, j, j + 1):
                        if e < 0:
                            continue
                        ev = ((who, j, kind, who), (ender, e, "stop-all", None))
                        out.append(("hand", title(names, ev), (names, ev)))
            if n >= 2:
                for kind in ("bid-abort", "bid-stop"):
                    for actor, target in (("a", "b"), ("b", "a")):
                        for e in (j, j + 2):
                            ev = ((actor, j, kind, target), (actor, e, "stop-all", None))
                            out.append(("hand", title(names, ev), (names, ev)))
    return out


def build_hand(spec, crash):
    """crash: None or (n, exc): the n-th control received by any tasker (1-based) raises exc."""
    from mc.flo import sked
    from ioflo.base.globaling import ACTIVE, ABORT, STOP
    names, events = spec
    house = sked.fresh_house()
    taskers = {}
    fired = set()
    count = {"n": 0}
    ref = {"res": None}

    def curtick():
        return len(ref["res"].stamps) - 1

    def pre(t, control, n):
        count["n"] += 1
        if crash is not None and count["n"] == crash[0]:
            return crash[1]
        j = curtick()
        act = None
        for i, (actor, tj, kind, target) in enumerate(events):
            if actor != t.name or i in fired or tj > j or control == ABORT:
                continue
            if kind == "abort-status":
                fired.add(i)
                act = "aborted"
            elif kind == "abort-return":
                fired.add(i)
                act = "return"
        return act

    def post(t, control, n):
        j = curtick()
        if control == ABORT:
            return
        for i, (actor, tj, kind, target) in enumerate(events):
            if actor != t.name or i in fired or tj > j:
                continue
            if kind == "stop-self":
                fired.add(i)
                t.desire = STOP
            elif kind == "bid-stop":
                fired.add(i)
                taskers[target].desire = STOP
            elif kind == "bid-abort":
                fired.add(i)
                taskers[target].desire = ABORT
            elif kind == "stop-all":
                fired.add(i)
                for x in taskers.values():
                    x.desire = STOP

    for n in names:
        t = sked.ScriptTasker(pre=pre, post=post, name=n, store=house.store, period=0.0, schedule=ACTIVE)
        taskers[n] = t
        house.mids.append(t)
    house.orderTaskables()
    return house, ref, count


# --------------------------------------------------------------------------- running one case

def run_case(prog, fault=None, interrupt_at=None, dispatch=None):
    """fault: None | (n, exc).  dispatch: None | n: the n-th control the skedder sends is replaced by
    a KeyboardInterrupt raised before the generator is resumed.
    Returns (Traced, taskable names in order, framer names, number of crash points)."""
    from mc.flo import real, sked
    kind, title, body = prog[:3]
    before = None
    if dispatch is not None:
        seen = {"n": 0}

        def before(ent):
            seen["n"] += 1
            return KeyboardInterrupt("delivered at dispatch %d" % dispatch) if seen["n"] == dispatch else None
    if kind == "flo":
        b = real.build_text(body)
        if not b.ok:
            raise core.BrokenCheck("C03 program does not build (%s): %r\n%s" % (title, b, body))
        house = b.houses[0]
        house.assignRegistries()
        real.FAULT["count"] = 0
        real.FAULT["at"], real.FAULT["exc"] = (fault if fault is not None else (None, None))
        try:
            res = sked.run_traced(house, real.EVENTS, tick=TICK, horizon=30, interrupt_at=interrupt_at, before_send=before)
        finally:
            real.FAULT["at"], real.FAULT["exc"] = None, None
        npoints = real.FAULT["count"]
        order = [t.name for t in house.taskables]
        for fm in real.all_framers(house):
            for fr in fm.frameNames.values():
                res.parents[(fm.name, fr.name)] = fr.over.name if getattr(fr, "over", None) is not None else None
                auxes = [a.name for a in getattr(fr, "auxes", ()) if hasattr(a, "name")]
                if auxes:
                    res.held[(fm.name, fr.name)] = auxes
        return res, order, set(order), npoints
    house, ref, count = build_hand(body, fault)
    res = ref["res"] = sked.Traced()
    sked.run_traced(house, [], tick=TICK, horizon=30, interrupt_at=interrupt_at, res=res, before_send=before)
    order = [t.name for t in house.taskables]
    return res, order, set(), count["n"]


# --------------------------------------------------------------------------- the statement as trace invariants

def split(res, order):
    """-> (ticks, sweep, scheduled_at_end).  ticks: list of [k, stamp, pass sends, more, queued after, statuses].
    The loop's end is located exactly: the pass of a tick sends one control to each queued tasker that is
    due (due time = start time, advanced by the tasker's period at each of its runs - property C02; every
    tick for period 0), so the pass of the last tick ends after as many sends as taskers were due when it
    began, or earlier at the send that raised, or at the interrupt marker; what follows is the sweep.
    `more` is the statement's `some tasker is started or running`: the STATUS each still queued tasker last
    yielded (a tasker that is not due this tick keeps the status of its last run), not its desire."""
    ticks = []
    cut = None
    for e in res.trace:
        if isinstance(e, tuple):
            if e[0] == "tick":
                ticks.append([e[1], e[2], []])
            else:
                cut = len(ticks[-1][2]) if ticks else 0
        else:
            if not ticks:
                ticks.append([-1, None, []])
            ticks[-1][2].append(e)
    periods = getattr(res, "periods", {}) or {}
    queued = list(order)
    start = ticks[0][1] if ticks and ticks[0][1] is not None else 0.0
    due = {n: start for n in order}
    status = {n: "stopped" for n in order}
    sweep = []
    for idx, (k, stamp, sends) in enumerate(ticks):
        last = idx == len(ticks) - 1
        if last:
            ndue = len([n for n in queued if stamp is None or due[n] <= stamp])
            npass = min(ndue, len(sends))
            if cut is not None:
                npass = min(npass, cut)
            for i, s in enumerate(sends[:npass]):
                if str(s["status"]).startswith(("raised", "not-delivered")):
                    npass = i + 1
                    break
            sweep = sends[npass:]
            ticks[idx][2] = sends[:npass]
        for s in ticks[idx][2]:
            st = s["status"]
            n = s["name"]
            status[n] = st
            if n in due:
                due[n] = due[n] + periods.get(n, 0.0)
            if n in queued and (st in ("aborted", "StopIteration") or str(st).startswith(("raised", "not-delivered"))):
                queued.remove(n)
        more = any(status[n] in ("started", "running") for n in queued)
        ticks[idx].append(more)
        ticks[idx].append(list(queued))
        ticks[idx].append([(n, status[n]) for n in queued])
    return ticks, sweep, queued


def judge(p, prog, res, order, framers, fault, interrupt_at, label):
    """Evaluate the statement on one run.  fault: None | (n, exc)."""
    kind, title, body = prog[:3]
    example = "%s | %s" % (title, label)
    replay = dict(program=body if kind == "flo" else dict(taskers=body[0], events=body[1]), title=title, case=label,
                  tick_period=TICK,
                  how="build the program with ioflo's Builder (recorder doer `rec` registered with doify), wrap each tasker.runner "
                      "to log controls, run Skedder(period=0.125).run(); fault = n-th recorder call raises; interrupt = "
                      "store.changeStamp raises KeyboardInterrupt before tick k",
                  trace=[e if isinstance(e, tuple) else (e["tick"], e["name"], e["control"], e["status"], e["events"]) for e in res.trace][-40:])
    if res.outcome == "watchdog":
        p.violation("run-hangs", example, "Skedder.run did not return within the time limit", replay)
        return
    ticks, sweep, queued = split(res, order)
    injected = fault[1] if fault is not None else None
    in_sweep_fault = False
    if injected is not None:
        # where did the fault land: in a pass or in the sweep
        in_sweep_fault = any(str(s["status"]).startswith("raised") for s in sweep)
    # (1) how the run ends
    if injected is None or isinstance(injected, KeyboardInterrupt):
        if in_sweep_fault:
            p.outcome("KeyboardInterrupt delivered during the final abort sweep: %s (outside the statement)" % res.outcome)
            return
        if res.outcome != "returned":
            p.violation("exit|%s-instead-of-return" % res.outcome.replace(" ", "-"), example,
                        "Skedder.run %s (%r) but should have returned (%s)" % (res.outcome, res.exc, label), replay)
            return
    else:
        if res.exc is not injected:
            p.violation("exit|injected-exception-not-reraised", example,
                        "an action raised %r; Skedder.run %s %r instead of re-raising it" % (injected, res.outcome, res.exc), replay)
            return
        if in_sweep_fault:
            p.outcome("exception raised by an exit action during the final abort sweep: re-raised, rest of sweep skipped (second-order, observation)")
            return
    # (2) length of the run
    for idx, (k, stamp, sends, more, left, statuses) in enumerate(ticks):
        last = idx == len(ticks) - 1
        idle = (not more) or (not left)
        if not last and idle:
            p.violation("length|run-continued-after-idle-tick", example,
                        "tick %d had no tasker started or running (statuses %r, queued %r) but the run went on to tick %d"
                        % (k, statuses, left, k + 1), replay)
            return
        if last and fault is None and interrupt_at is None:
            if res.horizon_hit:
                p.violation("length|run-did-not-end", example, "program ends itself but the run reached the 30 tick horizon", replay)
                return
            if not idle:
                p.violation("length|run-ended-with-started-or-running-taskers", example,
                            "run ended after tick %d although the scheduled taskers' statuses were %r (run in this tick: %r)"
                            % (k, statuses, [s["name"] for s in sends]), replay)
                return
    # (3) the sweep: exactly one ABORT to every tasker still queued, nothing else
    got = [s["name"] for s in sweep]
    for s in sweep:
        if s["control"] != "abort":
            p.violation("sweep|control-other-than-abort", example,
                        "after the loop ended %s was sent %s" % (s["name"], s["control"]), replay)
            return
    for n in queued:
        c = got.count(n)
        if c == 0:
            p.violation("sweep|queued-tasker-not-aborted", example,
                        "%s was still scheduled when the run ended (%s) but was never sent ABORT; sweep = %r" % (n, label, got), replay)
            return
        if c > 1:
            p.violation("sweep|aborted-more-than-once", example, "%s was sent ABORT %d times" % (n, c), replay)
            return
    for n in got:
        if n not in queued:
            p.violation("sweep|abort-sent-to-unscheduled-tasker", example,
                        "%s had left the queue (aborted / ended / raised) but was sent ABORT in the sweep" % n, replay)
            return
    # (4) frames exited by the sweep go bottom-up.  Nesting is the program's static structure (frame.over),
    #     not the order in which the frames happened to be entered: a frame may only be exited when none of
    #     the frames nested in it is still entered.  Applies to everything a sweep ABORT exits: the swept
    #     framer's own frames and those of auxiliaries / slaves it takes down with it.
    parents = getattr(res, "parents", {}) or {}
    held = getattr(res, "held", {}) or {}

    def auxes_under(framer):
        """auxiliary framers held (transitively) by frames of `framer`"""
        out, todo = [], [framer]
        while todo:
            f = todo.pop()
            for (fm, fr), auxes in sorted(held.items()):
                if fm == f:
                    for a in auxes:
                        if a not in out:
                            out.append(a)
                            todo.append(a)
        return out

    def nested_in(fr, inner, outer):
        x = parents.get((fr, inner))
        while x is not None:
            if x == outer:
                return True
            x = parents.get((fr, x))
        return False
    stacks = {}
    swept_ids = set(id(s) for s in sweep)
    for e in res.trace:
        if isinstance(e, tuple):
            continue
        for fr, frame, ctx, tag in e["events"] or ():
            st = stacks.setdefault(fr, [])
            if ctx == "enter":
                st.append(frame)
            elif ctx == "exit":
                if id(e) in swept_ids:
                    inner = [g for g in st if g != frame and nested_in(fr, g, frame)]
                    inner += ["%s.%s" % (a, g) for a in held.get((fr, frame), ()) for g in stacks.get(a, ())]
                    if inner:
                        p.violation("frames|exit-not-bottom-up", example,
                                    "abort of %s (sweep) exited frame %s of %s while %r, nested in it, %s still entered (entered order %r)"
                                    % (e["name"], frame, fr, inner, "was" if len(inner) == 1 else "were", st), replay)
                        return
                if frame in st:
                    st.reverse()
                    st.remove(frame)        # the most recent entry of that frame
                    st.reverse()
                else:
                    p.violation("frames|exit-action-of-frame-not-entered", example,
                                "%s %s ran the exit actions of frame %s of %s, which was not entered (entered: %r)"
                                % (e["name"], e["control"], frame, fr, st), replay)
                    return
    judged = set()
    for n in queued:
        if n not in framers:
            continue
        judged.add(n)
        if stacks.get(n):
            p.violation("frames|entered-frame-not-exited", example,
                        "framer %s was aborted by the sweep but its entered frames %r were never exited" % (n, stacks[n]), replay)
            return
        # frames of the auxiliaries its frames hold are frames it entered too: exited before run() returns
        for a in auxes_under(n):
            judged.add(a)
            if stacks.get(a):
                p.violation("frames|entered-frame-of-held-aux-not-exited", example,
                            "framer %s was still scheduled at the end and was aborted by the sweep, but frames %r of its auxiliary %s "
                            "were still entered when run() returned" % (n, stacks[a], a), replay)
                return
    open_others = sorted(k for k, v in stacks.items() if v and k not in judged and k not in framers)
    running_swept = [n for n in queued if n in framers and any(ev[2] == "exit" for s in sweep if s["name"] == n for ev in s["events"] or ())]
    p.outcome("%s; %s" % (
        "fault-free" if fault is None and interrupt_at is None else
        ("interrupt between ticks" if interrupt_at is not None else type(injected).__name__ + " in an action"),
        "sweep exits running framers" if running_swept else ("sweep of stopped taskers" if sweep else "empty queue, no sweep")))
    if open_others:
        p.notes["runs leaving frames of an unscheduled aux/slave open (its master raised or it was never told)"] += 1


# --------------------------------------------------------------------------- worker

def work(prog):
    core.use_repo()
    p = core.Part()
    kind, title, body = prog[:3]
    res0, order, framers, npoints = run_case(prog)
    p.evaluations += 1
    judge(p, prog, res0, order, framers, None, None, "fault-free")
    for name, expect in sorted((prog[3] if len(prog) > 3 else {}).items()):
        got = [e["control"] for e in res0.trace if isinstance(e, dict) and e["name"] == name]
        if got != expect and not p.violations:
            p.violation("controls|sequence-received-by-waiting-tasker", "%s | fault-free" % title,
                        "%s (period %r) received the controls %r; expected %r: its bid is delivered at its next turn, the run "
                        "lasts until then, and the sweep sends one ABORT to a tasker that is still scheduled"
                        % (name, res0.periods.get(name), got, expect), dict(program=body, controls=got, expected=expect))
    if p.violations:
        # the fault-free run already breaks the statement: crash points on top of it would only repeat it
        p.nontrivial(title)
        return p
    nticks = len(res0.stamps)
    p.nontrivial(title)
    if p.evaluations == 1:
        p.sample(dict(program=title, ticks=nticks, crash_points=npoints,
                      text=body if kind == "flo" else repr(body)))
    # interrupt between ticks: before tick k begins, k = 1 .. nticks-1
    for k in range(1, nticks):
        res, o, f, _ = run_case(prog, interrupt_at=k)
        p.evaluations += 1
        p.nontrivial("%s|int%d" % (title, k))
        judge(p, prog, res, o, f, None, k, "KeyboardInterrupt between tick %d and %d" % (k - 1, k))
    # observation (not judged, see notes): KeyboardInterrupt delivered inside the skedder's own loop, after a
    # tasker was popped from the queue and before its generator is resumed
    npass_sends = sum(len(t[2]) for t in split(res0, order)[0])
    for d in range(1, npass_sends + 1):
        res, o, f, _ = run_case(prog, dispatch=d)
        p.evaluations += 1
        ent = [e for e in res.trace if isinstance(e, dict) and str(e["status"]).startswith("not-delivered")]
        if len(ent) != 1:
            raise core.BrokenCheck("dispatch interrupt %d not delivered exactly once in %s" % (d, title))
        name = ent[0]["name"]
        later = [e for e in res.trace[res.trace.index(ent[0]) + 1:] if isinstance(e, dict) and e["name"] == name]
        if res.outcome == "returned" and not later:
            p.notes["KeyboardInterrupt delivered between popleft and send: run returns, the popped tasker (generator alive) is "
                    "neither re-queued nor sent ABORT"] += 1
        else:
            p.notes["KeyboardInterrupt delivered between popleft and send: other behaviour"] += 1
    # every crash point x {RuntimeError, KeyboardInterrupt}
    for n in range(1, npoints + 1):
        for mk in (RuntimeError, KeyboardInterrupt):
            exc = mk("injected at action %d" % n)
            res, o, f, _ = run_case(prog, fault=(n, exc))
            p.evaluations += 1
            p.nontrivial("%s|%s%d" % (title, mk.__name__, n))
            where = ""
            for e in res.trace:
                if isinstance(e, dict) and str(e["status"]).startswith("raised"):
                    last = (e["events"] or [None])[-1]
                    where = " (tick %d, %s %s%s)" % (e["tick"], e["name"], e["control"],
                                                     ", recorder %s/%s/%s" % (last[0], last[1], last[2]) if last else "")
                    break
            judge(p, prog, res, o, f, (n, exc), None, "%s at action %d%s" % (mk.__name__, n, where))
    return p


def run():
    progs = flo_programs(core.TIER) + hand_programs(core.TIER)
    ck = core.Check("C03", "fault_enumeration", META["technique"])
    ck.merge(core.pmap(work, progs))
    ck.coverage_extra = dict(programs=len(progs), floscript_programs=sum(1 for x in progs if x[0] == "flo"),
                             handmade_houses=sum(1 for x in progs if x[0] == "hand"))
    ck.assumptions = [
        "`no tasker is started or running` is evaluated on STATUS: the status every still scheduled tasker last yielded (a tasker "
        "waiting for its period keeps the status of its last run), never on its desire",
        "`still scheduled` = in the skedder's ready queue when its loop ends: every scheduled tasker that has not yielded ABORTED, "
        "ended its generator, or raised; the tasker whose own generator raised is exempt, slaves and auxiliaries are never scheduled",
        "single fault per run; a KeyboardInterrupt or a second exception raised inside the final sweep itself is recorded as an "
        "observation (outcome), not judged",
        "crash point = i-th call of the recorder doer (enter, recur, exit actions in every frame) for FloScript programs, i-th "
        "control received by any tasker for hand-made houses; interrupt between ticks = store.changeStamp raising KeyboardInterrupt",
        "bottom-up = each exit recorded during the sweep is of the innermost frame of that framer still entered",
    ]
    return ck.finish(
        rule="every program x (fault-free + every tick boundary interrupted + every crash point x {RuntimeError, KeyboardInterrupt}); "
             "non-trivial = distinct (program, fault) case",
        exhaustive=True)


if __name__ == "__main__":
    core.main(run)
