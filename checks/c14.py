"""C14 building any script terminates with success or a script error.  Engine A (real Builder under a watchdog)."""
META = dict(
    engine="flo", level="exploration",
    technique="bounded-exhaustive enumeration of token sequences, single-token mutations and frame-link graphs, each built "
              "by the real FloScript Builder from an in-memory file under a watchdog; outcome classified by exception type",
    text="Inputs, all complete within the stated bounds: (1) each of the 45 verbs followed by every token sequence of length <= 2 "
         "(3 in thorough) over an alphabet holding every reserved word and a representative of every name/path/literal class, "
         "placed at the verb's position in a valid scaffold script; (2) every single-token delete / replace / insert mutation of "
         "112 valid commands covering every verb form in the build* docstrings, and every proper prefix of those commands "
         "followed by every token (every token pair in thorough); the same commands without frame/framer/house context; "
         "(3) every single-token delete / duplicate / replace mutation of every line of example plans (3 plans quick, all 33 "
         "thorough); (4) every in/under link assignment over 3 frames (4 in thorough) including self, cyclic and dangling "
         "links, and every first/next assignment; (5) every directed graph of clone edges (`aux X as mine`, `aux X as tag`, "
         "`rear X as mine be aux in frame b`) over <= 3 moot framers (4 in thorough) incl. self-loops and cycles, reached "
         "from one active framer; (6) every spelling of a need the makeDoneNeed / makeStatusNeed / makeMarkerNeed / "
         "makeFramerNeed / makeNeed docstrings allow (aux keyword, any/all, in frame [me|name], in framer [me|name], by marker, "
         "re [me|name], direct / indirect / `goal` goals, tolerance; valid and dangling names) under go / let / aux-if, alone, "
         "negated and on either side of a 2-clause conjunction, built and resolved in a scaffold defining the names. Every build runs under a wall-clock watchdog (a time-out is re-run with a long "
         "limit before it counts). Accepted outcomes: success, Builder.build returning False, ParseError, ResolveError, other "
         "ioflo.base.excepting classes, ValueError from a Convert2* converter or from an explicit `raise ValueError` in ioflo. "
         "Anything else (TypeError, NameError, AttributeError, KeyError, IndexError, other ValueError, non-termination) is a violation.",
    note="Bounded: at most one token edit per valid command / plan line, sequences of at most 2-3 free tokens, at most 3-4 frames; "
         "deeper combinations of errors are not covered. Accepting all excepting.* classes and deliberate ValueErrors is the weaker "
         "reading of 'script error'.",
)
import itertools
import os
from mc import core

SHORT = 0.15    # seconds: first-pass watchdog (a scaffold build takes ~1 ms)
HANG_CAP = 40    # graph families: non-terminating builds per work item before the item is cut short (CAPPED)
CONFIRM_MAX = 1  # confirmed hangs per interrupted function and worker before short time-outs are trusted


def _load():
    core.use_repo()
    from mc.flo import scripts
    return scripts


def long_limit():
    # generous: on a loaded machine a 1 ms build can stall for seconds; only a build that is still
    # running after this long counts as non-termination
    return 60.0 if core.TIER == "thorough" else 30.0


QUICK_PLANS = ["testPoint.flo", "basic.flo", "testViaDoClausePer.flo"]


def plan_order(plans):
    rest = [p for p in plans if p not in QUICK_PLANS]
    return QUICK_PLANS + rest


# ----------------------------------------------------------------------------- work items

def items():
    """Work items.  The quick set (flag 0) is part of every tier, so the example kept for a violation group
    (smallest rank, flag first) is the same in quick and thorough; thorough adds flag-1 items."""
    scripts = _load()
    thorough = core.TIER == "thorough"
    out = []
    plans = scripts.load_plans()
    for verb in scripts.VERBS:
        # (kind, verb, depth, alphabet, flag, shard, nshards)
        out.append(("bare", verb, 1, False, 0, 0, 1))
        for s in range(2):
            out.append(("bare", verb, 2, True, 0, s, 2))
    for verb, cmds in scripts.CORPUS.items():
        for ci in range(len(cmds)):
            out.append(("mut", verb, ci, False, 0, 0, 1))
            out.append(("pre", verb, ci, False, 0, 0, 1))
    out.append(("ctx", "", 0, False, 0, 0, 1))
    plan_items = [(name, 0) for name in QUICK_PLANS]
    # (frames, max frames with an `under`, flag, shards)
    graphs = [(2, None, 0, 4), (3, 1, 0, 16)]
    if thorough:
        for verb in scripts.VERBS:
            for s in range(8):
                out.append(("bare", verb, 2, False, 1, s, 8))
            for s in range(4):
                out.append(("bare", verb, 3, "tiny", 1, s, 4))
        for verb, cmds in scripts.CORPUS.items():
            for ci in range(len(cmds)):
                out.append(("pre2", verb, ci, "tiny", 1, 0, 1))
        plan_items += [(name, 1) for name in plan_order(list(plans)) if name not in QUICK_PLANS]
        graphs += [(3, None, 1, 64), (4, 1, 1, 64)]
    for pi, (name, flag) in enumerate(plan_items):
        nlines = len(plans[name].split("\n"))
        step = 12
        for lo in range(0, nlines, step):
            out.append(("plan", name, pi, True, flag, lo, lo + step))
    for nn, mu, qf, nshard in graphs:
        for s in range(nshard):
            out.append(("links", mu, nn, False, qf, s, nshard))
    out.append(("firstnext", "", 2, False, 0, 0, 1))
    out.append(("firstnext", "", 3, False, 0, 0, 1))
    for sh in range(12):
        out.append(("needs", "", 0, False, 0, sh, 12))
    # clone graphs: (moot framers, edge kinds, root variants, flag, shards)
    clones = [(1, ("mine", "tag", "rear"), ("first",), 0, 1), (2, ("mine", "tag", "rear"), ("first", "all"), 0, 2),
              (3, ("mine",), ("first", "all"), 0, 2), (3, ("mine", "tag"), ("all",), 0, 32)]
    if thorough:
        clones += [(3, ("mine", "tag", "rear"), ("first", "all"), 1, 128), (4, ("mine",), ("first", "all"), 1, 64)]
    for n, kinds, roots, qf, nshard in clones:
        for s in range(nshard):
            out.append(("clones", (kinds, roots), n, False, qf, s, nshard))
    return out


# ----------------------------------------------------------------------------- worker

CONFIRMED = {}


class Judge:
    def __init__(self, scripts):
        self.s = scripts
        self.p = core.Part()
        self.found = {}          # group -> (rank, example, what, replay)
        self.hangs = 0           # non-terminating builds seen in this work item
        self.confirmed = CONFIRMED   # hanging function -> count (per worker process)

    def build(self, text, **kw):
        b = self.s.build(text, limit=SHORT, **kw)
        if b.kind != "Watchdog":
            return b
        acc, group, detail = self.s.classify(b)
        if self.confirmed.get(group, 0) >= CONFIRM_MAX and "?:?" not in group:
            return b
        b2 = self.s.build(text, limit=long_limit(), **kw)
        if b2.kind == "Watchdog":
            g2 = self.s.classify(b2)[1]
            self.confirmed[g2] = self.confirmed.get(g2, 0) + 1
        return b2

    def judge(self, rank, example, text, replay_extra=None, **kw):
        p = self.p
        b = self.build(text, **kw)
        acc, group, detail = self.s.classify(b)
        p.evaluations += 1
        p.nontrivial(text)
        if acc:
            p.outcome(group)
            if p.evaluations % 4999 == 1:
                p.sample(dict(input=example, outcome=group))
            return
        p.outcome("VIOLATION " + group.split("|")[0])
        if b.kind == "Watchdog":
            self.hangs += 1
        old = self.found.get(group)
        if old is None or rank < old[0]:
            replay = dict(script=text, outcome=detail,
                          how="write `script` to a file and call ioflo.base.building.Builder(fileName=path).build()")
            if replay_extra:
                replay.update(replay_extra)
            self.found[group] = (rank, example, "%s <- %s" % (detail, example), replay)


def slot_of(scripts, verb):
    return scripts.SLOT_OF_VERB.get(verb, "FRAME")


def work(item):
    scripts = _load()
    if os.environ.get("VERIF_STACKS"):     # debugging aid: kill -USR1 <worker> dumps its stacks
        import faulthandler, signal
        faulthandler.register(signal.SIGUSR1, all_threads=True,
                              file=open(os.path.join(os.environ["VERIF_STACKS"], "stack.%d" % os.getpid()), "a"))
        with open(os.path.join(os.environ["VERIF_STACKS"], "item.%d" % os.getpid()), "w") as f:
            f.write(repr(item))
    J = Judge(scripts)
    kind = item[0]
    if kind in ("bare", "mut", "pre", "pre2"):
        _, verb, arg, small, qflag, shard, nshards = item
        if kind == "bare":
            # depth-1 item covers lengths 0 and 1; deeper items only the sequences of exactly their depth
            gen = scripts.gen_bare(verb, arg, small, exact=arg > 1)
            grank = 0
        elif kind == "mut":
            gen = scripts.gen_mutations(scripts.CORPUS[verb][arg], small)
            grank = 1
        elif kind == "pre":
            gen = scripts.gen_prefixes(scripts.CORPUS[verb][arg], 1, small)
            grank = 2
        else:
            gen = scripts.gen_prefixes(scripts.CORPUS[verb][arg], 2, small)
            grank = 2
        slot = slot_of(scripts, verb)
        for i, line in enumerate(gen):
            if i % nshards != shard:
                continue
            ntok = len(scripts.tokenize_line(line)[1])
            J.judge((qflag, grank, ntok, line), "%s: %s" % (slot, line), scripts.scaffold(line),
                    extra_files=scripts.LOADED)
    elif kind == "ctx":
        for verb, cmds in scripts.CORPUS.items():
            for c in cmds:
                for slot in ("HOUSE", "EMPTY"):
                    ntok = len(scripts.tokenize_line(c)[1])
                    J.judge((0, 3, ntok, c), "%s: %s" % (slot, c), scripts.scaffold(c, slot),
                            extra_files=scripts.LOADED)
    elif kind == "plan":
        _, name, pi, small, qflag, lo, hi = item
        plans = scripts.load_plans()
        al = scripts.ALPHA_SMALL
        for lineno, ti, op, text, mline in scripts.gen_plan_mutations(plans[name], al):
            if not (lo < lineno <= hi):
                continue
            J.judge((qflag, 4, pi, lineno, ti, op), "%s:%d[%d] %s: %s" % (name, lineno, ti, op, mline), text,
                    replay_extra=dict(plan=name, line=lineno, token=ti, op=op,
                                      how="replace line %d of ioflo/app/plan/%s by `%s` and build it" % (lineno, name, mline)),
                    extra_files=plans, name=os.path.join(scripts.PLAN_DIR, name), metas=name in scripts.META_PLANS)
    elif kind == "links":
        _, mu, n, _, qflag, shard, nshards = item
        for i, (label, text) in enumerate(scripts.gen_link_graphs(n, mu)):
            if i % nshards != shard:
                continue
            if J.hangs >= HANG_CAP:      # a hang defect makes most graphs hang: enough evidence, stop this shard
                J.p.capped = True
                break
            J.judge((qflag, 5, n, 0 if mu is not None else 1, len(label), label), label, text)
    elif kind == "firstnext":
        n = item[2]
        for label, text in scripts.gen_first_next_graphs(n):
            J.judge((0, 6, n, len(label), label), label, text)
    elif kind == "needs":
        shard, nshards = item[5], item[6]
        for i, (nk, line) in enumerate(scripts.gen_need_lines()):
            if i % nshards != shard:
                continue
            ntok = len(scripts.tokenize_line(line)[1])
            J.judge((0, 8, ntok, line), "FRAME(rich scaffold): " + line, scripts.scaffold(line, rich=True),
                    extra_files=scripts.LOADED)
    elif kind == "clones":
        _, (kinds, roots), n, _, qflag, shard, nshards = item
        for i, (label, text) in enumerate(scripts.gen_clone_graphs(n, kinds, roots)):
            if i % nshards != shard:
                continue
            if J.hangs >= HANG_CAP:
                J.p.capped = True
                break
            J.judge((qflag, 7, n, len(kinds), len(label), label), label, text)
    J.p.extra["found"] = J.found
    return J.p


def run():
    ck = core.Check("C14", META["level"], META["technique"])
    scripts = _load()
    # sanity: the scaffold and every corpus command must build, or the enumeration is vacuous
    for verb, cmds in scripts.CORPUS.items():
        for c in cmds:
            b = scripts.build(scripts.scaffold(c), extra_files=scripts.LOADED, limit=10.0)
            if not b.ok and not (verb == "done" and scripts.classify(b)[1].startswith("NameError|completing.py")):
                ck.part.notes["corpus commands that do not build on this tree"] += 1
    its = items()
    order = list(range(len(its)))
    if core.SEED:   # seed only permutes the shard order
        import random
        random.Random(core.SEED).shuffle(order)
    res = scripts.pmap(work, [its[i] for i in order])
    parts = [None] * len(order)
    for j, i in enumerate(order):      # merge in item order whatever the dispatch order was
        parts[i] = res[j]
    found = {}
    for p in parts:
        for g, v in p.extra.pop("found").items():
            if g not in found or v[0] < found[g][0]:
                found[g] = v
        ck.part.merge(p)
    for g in sorted(found, key=lambda g: found[g][0]):
        rank, example, what, replay = found[g]
        ck.part.violation(g, example, what, replay)
    ck.coverage_extra = dict(
        verbs=len(scripts.VERBS), alphabet=len(scripts.ALPHABET), alphabet_small=len(scripts.ALPHA_SMALL),
        corpus_commands=sum(len(v) for v in scripts.CORPUS.values()), work_items=len(its),
        violation_groups=len(found))
    ck.assumptions = [
        "accepted outcomes: True, False, ParseError, ResolveError, any other exception class defined in ioflo.base.excepting "
        "(weaker reading: script-attributable), ValueError whose innermost ioflo frame is a Convert2* converter or an explicit "
        "`raise ValueError(...)` statement (ioflo's deliberate report of a bad script value)",
        "a build that exceeds %.1f s is re-run with a %.1f s limit; only the second time-out counts as non-termination "
        "(after %d confirmations per interrupted function a short time-out in the same function is trusted)"
        % (SHORT, long_limit(), CONFIRM_MAX),
        "violation group = exception type | innermost non-container ioflo function | message with digits and quoted text masked",
    ]
    return ck.finish(
        rule="verb + all token sequences <= %d; single-token delete/replace/insert of %d valid commands and prefix+%d-token "
             "extensions; corpus without context; single-token mutations of %s example plans; all in/under graphs over <= %d "
             "frames and first/next graphs; all clone-edge graphs (aux as mine / as tag / rear) over <= %d moot framers; "
             "non-trivial = distinct script text"
             % (3 if core.TIER == "thorough" else 2, sum(len(v) for v in scripts.CORPUS.values()),
                2 if core.TIER == "thorough" else 1, "all" if core.TIER == "thorough" else "3",
                4 if core.TIER == "thorough" else 3, 4 if core.TIER == "thorough" else 3),
        exhaustive=True)


if __name__ == "__main__":
    core.main(run)
