"""C43 angle wrapping.  Engine F: exhaustive grid of exactly representable angles/wraps."""
META = dict(
    engine="grid", level="exploration",
    technique="bounded-exhaustive grid of dyadic angles and wraps with an exact rational oracle",
    text="All angles on a dyadic grid spanning several turns (for wrap 0 also multiples of 45 up to +-1080 and Fraction(0) as the wrap), for 12 wraps of both signs and zero, in int/float variants: range membership, "
         "whole-number-of-turns difference (exact Fractions), delta == wrap2(difference), wrap 0 identity.",
    note="Dyadic values keep IEEE arithmetic exact, so the oracle is exact; arbitrary floats and the 'proof' clause of the quantifier are outside this family.",
)
from fractions import Fraction as Fr
from mc import core


def grid():
    """(angle, wrap) pairs; every value is a dyadic rational so float arithmetic is exact."""
    wraps = [180, -180, 360, -360, 1, -1, 90, 0.5, -0.5, 0.25, 45.5, 0]
    if core.TIER == "thorough":
        wraps += [2, -2, 3, -3, 7, -7, 12.5, -12.5, 100, -100, 0.125, -0.125, 1024, -1024, 6.25, -6.25, 57.5, -57.5]
    out = []
    for w in wraps:
        unit = abs(w) if w else 1
        steps = range(-24, 25) if core.TIER == "quick" else range(-1024, 1025)
        div = 8 if core.TIER == "quick" else 128
        for k in steps:
            a = k * unit / div          # exact: dyadic
            if w == 0:
                # wrap 0 must leave EVERY angle unchanged: also angles far beyond any default wrap (180 / 360)
                big = k * 45
                out.append((big, 0))
                out.append((float(big) + 0.5, 0.0))
                out.append((big, Fr(0)))
            out.append((a, w))
            out.append((float(a), float(w)))
            if float(a).is_integer() and float(w).is_integer():
                out.append((int(a), int(w)))
    return out


def whole_turns(x, y, turn):
    """x - y is an integer multiple of turn (exact rational arithmetic)."""
    d = Fr(x) - Fr(y)
    if turn == 0:
        return d == 0
    q = d / Fr(turn)
    return q.denominator == 1


def work(arg):
    shard, nshards = arg
    core.use_repo()
    from ioflo.aid import navigating as nav
    p = core.Part()
    g = grid()
    for idx, (a, w) in enumerate(g):
        if idx % nshards != shard:
            continue
        p.evaluations += 1
        p.nontrivial((a, w, type(a).__name__))
        case = "angle=%r wrap=%r" % (a, w)
        # ---- wrap1
        try:
            r = nav.wrap1(a, w)
        except Exception as ex:
            p.violation("wrap1-raises", case, "wrap1(%s) raised %r" % (case, ex), dict(fn="wrap1", angle=a, wrap=w))
            r = None
        if r is not None:
            if w == 0:
                ok = (r == a)
                why = "wrap 0 must return the angle unchanged"
            else:
                inrange = (0 <= r < w) if w > 0 else (w < r <= 0)
                ok = inrange and whole_turns(r, a, w)
                why = "not in half-open [0,wrap) or not a whole number of turns away"
            p.outcome("wrap1:%s" % ("id" if r == a else "moved"))
            if not ok:
                p.violation("wrap1-wrong", case, "wrap1(%s)=%r: %s" % (case, r, why), dict(fn="wrap1", angle=a, wrap=w, got=r))
        # ---- wrap2
        try:
            r = nav.wrap2(a, w)
        except Exception as ex:
            p.violation("wrap2-raises", case, "wrap2(%s) raised %r" % (case, ex), dict(fn="wrap2", angle=a, wrap=w))
            r = None
        if r is not None:
            if w == 0:
                ok = (r == a)
                why = "wrap 0 must return the angle unchanged"
            else:
                ok = (-abs(w) <= r <= abs(w)) and whole_turns(r, a, 2 * Fr(w))
                why = "outside [-wrap,+wrap] or not a whole number of full turns away"
            p.outcome("wrap2:%s" % ("id" if r == a else "moved"))
            if not ok:
                p.violation("wrap2-wrong", case, "wrap2(%s)=%r: %s" % (case, r, why), dict(fn="wrap2", angle=a, wrap=w, got=r))
        # ---- delta over a few actuals
        for b in (0, a / 2 if not isinstance(a, int) else a // 2, -a, 3 * a):
            try:
                d = nav.delta(a, b, w)
                e = nav.wrap2(a - b, w)
            except Exception as ex:
                p.violation("delta-raises", case + " actual=%r" % (b,), "delta raised %r" % (ex,), dict(fn="delta", desired=a, actual=b, wrap=w))
                continue
            p.evaluations += 1
            good = (d == e)
            if w != 0:
                good = good and (-abs(w) <= d <= abs(w)) and whole_turns(d, Fr(a) - Fr(b), 2 * Fr(w))
            else:
                good = good and d == a - b
            if not good:
                p.violation("delta-wrong", case + " actual=%r" % (b,), "delta(%r,%r,%r)=%r, wrap2 of difference=%r" % (a, b, w, d, e),
                            dict(fn="delta", desired=a, actual=b, wrap=w, got=d))
        # ---- documented defaults: wrap1 defaults to 360, wrap2 and delta to 180
        if w == 180:
            try:
                dflt = (nav.wrap2(a) == nav.wrap2(a, 180)) and (nav.delta(a, 0) == nav.delta(a, 0, 180)) and (nav.wrap1(a) == nav.wrap1(a, 360))
            except Exception as ex:
                dflt = False
            if not dflt:
                p.violation("defaults-wrong", case, "wrap2(a)/delta(a,0)/wrap1(a) differ from the documented default wraps 180/180/360", dict(angle=a))
        if idx % 997 == 0:
            p.sample(dict(angle=a, wrap=w, wrap1=nav.wrap1(a, w), wrap2=nav.wrap2(a, w)))
    return p


def run():
    ck = core.Check("C43", "exploration", "bounded-exhaustive grid of dyadic angles/wraps, exact rational oracle")
    n = core.NPROC
    ck.merge(core.pmap(work, [(i, n) for i in range(n)]))
    ck.assumptions = ["grid values are dyadic rationals so IEEE arithmetic in wrap1/wrap2 is exact; non-dyadic floats are outside this check",
                      "the aliases Wrap2/Delta are the same objects as wrap2/delta (asserted)"]
    core.use_repo()
    from ioflo.aid import navigating as nav
    if nav.Wrap2 is not nav.wrap2 or nav.Delta is not nav.delta:
        ck.part.violation("alias", "Wrap2/Delta", "Wrap2/Delta no longer alias wrap2/delta")
    return ck.finish(rule="angles k*|wrap|/%d for k in a symmetric range (at least +-3 turns) for 12 (quick) / 30 (thorough) wraps of both signs incl. 0, as int, float and mixed; "
                          "distinct = (angle, wrap, type); delta with 4 actuals each" % (8 if core.TIER == "quick" else 128),
                     exhaustive=True)


if __name__ == "__main__":
    core.main(run)
