"""C40 bit / byte / hex codecs round-trip.  Engine F: exhaustive input grids against a bit-string reference."""
META = dict(
    engine="grid", level="exploration",
    technique="bounded-exhaustive enumeration of bit-field formats x field values and of small integers/byte strings against an independent bit-string reference (no sampling)",
    text="Every bit-field format (composition of the total width into positive field widths) of total width <= 10 (12 in thorough) with every "
         "in-range value tuple, plus a masked out-of-range variant, is packed with packify / packifyInto (offsets 0-2 into a 0xAA buffer, "
         "short and long buffers, explicit larger size - for packifyInto sizes +1/+2 into 0xFF and 0x00 filled buffers in both byte orders) and unpacked with unpackify (boolean on/off, padding bits set and clear, both byte "
         "orders) and compared with a reference that works on '0'/'1' strings; wider formats up to 12 (16 in thorough) bits get a boundary-value family. "
         "bytify/unbytify, hexify/unhexify, hexize/unhexize, binize/unbinize and signExtend are enumerated completely over small domains "
         "against int.to_bytes / bytes.hex / format().",
    note="Complete only up to the stated widths (full value product for 16-bit formats is ~3e9 cases); the 'formal proof' in the quantifier is another "
         "technique and is not attempted. One-bit fields pack the truthiness of their value (packify docstring): they are fed 0/1, bools, 3, truthy values with "
         "a clear low bit (2, 4, 0x80, 256) and non-int truthy/falsy objects, and must pack 1/0 accordingly in packify and packifyInto alike.",
)
import itertools
from mc import core

FULL_W = 10 if core.TIER == "quick" else 12     # every value tuple
EDGE_W = 12 if core.TIER == "quick" else 16     # boundary-value family only
EVEN_TRUTHY = (2, 4, 0x80, 256)                  # truthy values whose low bit is clear
OBJ_TRUTHY = (1.0, "x", [0])                     # non-int truthy / falsy values for one-bit fields
OBJ_FALSY = (0.0, None, "", [])
KEY_W = 10                                       # per-case distinct keys up to this width (memory bound)
HANG_S = 120                                     # per format / per scalar job; normal cost is well under 10 s


# ----------------------------------------------------------------------------- reference (string based)

def compositions(w):
    """All tuples of positive ints summing to w, lexicographic."""
    if w == 0:
        return [()]
    out = []
    for first in range(1, w + 1):
        for rest in compositions(w - first):
            out.append((first,) + rest)
    return out


def minsize(widths):
    return (sum(widths) + 7) // 8


def ref_pack(widths, values, size=None, reverse=False):
    bits = ""
    for w, v in zip(widths, values):
        if w == 1:
            bits += "1" if v else "0"
        elif w > 1:
            bits += format(v % (1 << w), "0%db" % w)
    if size is None:
        size = minsize(widths)
    bits = bits.ljust(8 * size, "0")
    out = [int(bits[i:i + 8], 2) for i in range(0, 8 * size, 8)]
    if reverse:
        out.reverse()
    return bytearray(out)


def ref_unpack(widths, data, size=None, reverse=False):
    """-> list of ints (padding field last when the format does not fill size bytes)."""
    data = list(data)
    if reverse:
        data.reverse()
    if size is None:
        size = minsize(widths)
    bits = "".join(format(x, "08b") for x in data[:size])
    out = []
    pos = 0
    for w in widths:
        out.append(int(bits[pos:pos + w], 2) if w else 0)
        pos += w
    if pos < 8 * size:
        out.append(int(bits[pos:], 2))
    return out


def fmtstr(widths):
    return u" ".join(str(w) for w in widths)


LAST = [None]


def call(fn, *a, **k):
    LAST[0] = (fn.__name__, a, k)
    try:
        return True, fn(*a, **k)
    except Exception as ex:      # the property says the codecs work on their domain: any raise is a finding
        return False, "%s: %s" % (type(ex).__name__, ex)


# ----------------------------------------------------------------------------- pack / unpack worker

def value_tuples(widths, full):
    if full:
        return itertools.product(*[range(1 << w) for w in widths])
    # boundary family for wide formats: all-zero, all-max, alternating, each field alone at 1 / max / msb
    fam = []
    n = len(widths)
    mx = [(1 << w) - 1 for w in widths]
    fam.append(tuple([0] * n))
    fam.append(tuple(mx))
    fam.append(tuple(mx[i] if i % 2 == 0 else 0 for i in range(n)))
    fam.append(tuple(mx[i] if i % 2 == 1 else 0 for i in range(n)))
    fam.append(tuple(0x5555 & mx[i] for i in range(n)))
    for i in range(n):
        for v in sorted({1, mx[i], 1 << (widths[i] - 1), mx[i] - 1 if mx[i] > 1 else 1}):
            t = [0] * n
            t[i] = v
            fam.append(tuple(t))
            t = list(mx)
            t[i] = mx[i] ^ v
            fam.append(tuple(t))
    seen = set()
    out = []
    for t in fam:
        if t not in seen:
            seen.add(t)
            out.append(t)
    return out


def check_format(by, p, widths, full, cur):
    fmt = fmtstr(widths)
    W = sum(widths)
    size = minsize(widths)
    pad = 8 * size - W
    nf = len(widths)
    per_case_key = W <= KEY_W
    if not per_case_key:
        p.nontrivial(("fmt", widths))

    def bad(group, fields, what, **kw):
        ex = "fmt=%r fields=%r" % (str(fmt), list(fields))
        extra = " ".join("%s=%r" % (k, kw[k]) for k in sorted(kw) if k in ("boolean", "reverse", "size", "offset", "buflen", "data"))
        if extra:
            ex += " " + extra
        rep = dict(fmt=fmt, fields=list(fields))
        rep.update(kw)
        p.violation(group, ex, what, rep)

    for vals in value_tuples(widths, full):
        p.evaluations += 1
        cur[0] = list(vals)
        if per_case_key and W:
            p.nontrivial((widths, vals))
        exp = ref_pack(widths, vals)
        # ---- packify, both byte orders
        ok, got = call(by.packify, fmt, vals)
        if not ok:
            bad("packify|raises", vals, "packify raised " + got, fn="packify", got=got)
            continue
        if not isinstance(got, bytearray) or got != exp:
            bad("packify|bytes-mismatch", vals, "packify(%r,%r)=%r expected %r" % (str(fmt), list(vals), got, exp),
                fn="packify", got=got, expected=exp)
            continue
        ok, rgot = call(by.packify, fmt, vals, reverse=True)
        if not ok or rgot != bytearray(reversed(exp)):
            bad("packify|reverse-not-mirror", vals, "packify(reverse=True)=%r, mirror of big-endian is %r" % (rgot, bytearray(reversed(exp))),
                fn="packify", reverse=True, got=rgot, expected=bytearray(reversed(exp)))
        # ---- out-of-range variant: garbage bits above every field of width >= 2 (masked); one-bit fields pack the TRUTHINESS of
        #      the value (docstring: "nonzero is True and packs as a 1"): python bools, truthy values whose low bit is clear, and
        #      non-int truthy / falsy objects.  packify and packifyInto must agree on all of them.
        if nf:
            onebit = 1 in widths
            hi = tuple((v | (5 << w)) if w > 1 else (3 if v else 0) for w, v in zip(widths, vals))
            alts = [(hi, "out-of-range")]
            if onebit:
                alts.append((tuple(bool(v) if w == 1 else v for w, v in zip(widths, vals)), "bool-for-one-bit"))
                alts.append((tuple((EVEN_TRUTHY[i % 4] if v else 0) if w == 1 else v for i, (w, v) in enumerate(zip(widths, vals))),
                             "even-truthy-for-one-bit"))
                alts.append((tuple((OBJ_TRUTHY[i % 3] if v else OBJ_FALSY[i % 4]) if w == 1 else v for i, (w, v) in enumerate(zip(widths, vals))),
                             "object-truthiness-for-one-bit"))
            for alt, tag in alts:
                if tag == "out-of-range" and alt == vals:
                    continue
                ok, g2 = call(by.packify, fmt, alt)
                if not ok or g2 != exp:
                    bad("packify|%s-not-%s" % (tag, "masked" if tag == "out-of-range" else "packed-as-truthiness"), alt,
                        "packify(%r,%r)=%r expected %r (%s)" % (str(fmt), list(alt), g2, exp,
                                                               "fields masked to their width" if tag == "out-of-range" else "one-bit fields pack 1 for a truthy and 0 for a falsy value"),
                        fn="packify", got=g2, expected=exp)
                if tag in ("even-truthy-for-one-bit", "object-truthiness-for-one-bit"):
                    buf = bytearray()
                    ok, n2 = call(by.packifyInto, buf, fmt, alt)
                    if not ok or buf != exp or n2 != size:
                        bad("packifyInto|%s-not-packed-as-truthiness" % tag, alt, "packifyInto(bytearray(), %r, %r) -> %r buffer %r expected %d %r"
                            % (str(fmt), list(alt), n2, buf, size, exp), fn="packifyInto", got=[n2, buf], expected=[size, exp])
        # ---- explicit larger size: right zero padded
        ok, g3 = call(by.packify, fmt, vals, size=size + 1)
        e3 = ref_pack(widths, vals, size=size + 1)
        if not ok or g3 != e3:
            bad("packify|explicit-size", vals, "packify(size=%d)=%r expected %r" % (size + 1, g3, e3), fn="packify", size=size + 1, got=g3, expected=e3)
        # ---- unpackify of the packed bytes, padding clear / set, boolean on / off, both byte orders
        padvals = [0] if pad == 0 else sorted({0, (1 << pad) - 1, 1})
        for pv in padvals:
            data = bytearray(exp)
            if pad:
                data[-1] |= pv
            want = [v % (1 << w) if w > 1 else (1 if v else 0) for w, v in zip(widths, vals)]
            if pad:
                want.append(pv)
            refu = ref_unpack(widths, data)
            if refu != want:
                raise core.BrokenCheck("reference pack/unpack disagree on %r %r" % (widths, vals))
            for boolean in (False, True):
                for reverse in (False, True):
                    src = bytearray(reversed(data)) if reverse else bytearray(data)
                    keep = bytearray(src)
                    ok, u = call(by.unpackify, fmt, src, boolean=boolean, reverse=reverse)
                    if not ok:
                        bad("unpackify|raises", vals, "unpackify raised " + u, fn="unpackify", data=src, boolean=boolean, reverse=reverse, got=u)
                        continue
                    if not isinstance(u, tuple) or list(u) != want:
                        grp = "unpackify|reverse-not-mirror" if reverse else ("unpackify|padding-field" if list(u)[:nf] == want[:nf] else "unpackify|fields-mismatch")
                        bad(grp, vals, "unpackify(%r,%r,boolean=%r,reverse=%r)=%r expected %r" % (str(fmt), src, boolean, reverse, u, tuple(want)),
                            fn="unpackify", data=src, boolean=boolean, reverse=reverse, got=list(u), expected=want)
                        continue
                    for w, x in zip(widths, u):      # explicit fields only; the type of the padding field is not specified
                        if isinstance(x, bool) != (w == 1 and boolean):
                            bad("unpackify|boolean-type", vals, "unpackify(boolean=%r) field of width %d came back as %s" % (boolean, w, type(x).__name__),
                                fn="unpackify", data=src, boolean=boolean, reverse=reverse, got=repr(u))
                            break
                    if src != keep:
                        bad("unpackify|mutates-input", vals, "unpackify changed its input buffer", fn="unpackify", data=keep, reverse=reverse)
        # repack what was unpacked: inverse in the other direction
        ok, u = call(by.unpackify, fmt, exp)
        if ok:
            ok, back = call(by.packify, fmt, tuple(u[:nf]))
            if not ok or back != exp:
                bad("packify|unpack-pack-not-inverse", vals, "packify(unpackify(b)) = %r for b=%r" % (back, exp), fn="packify", got=back, expected=exp)
        # ---- unpackify with explicit larger size: the rest is one padding field
        data = bytearray(exp) + bytearray([0xA5])
        ok, u = call(by.unpackify, fmt, data, size=size + 1)
        want = ref_unpack(widths, data, size=size + 1)
        if not ok or list(u) != want:
            bad("unpackify|explicit-size", vals, "unpackify(size=%d) of %r = %r expected %r" % (size + 1, data, u, want),
                fn="unpackify", data=data, size=size + 1, got=u, expected=want)
        # ---- packifyInto: same bytes at the offset, nothing else disturbed, short buffers extended with zeros
        for offset in (0, 1, 2):
            for buflen in (offset + size + 2, max(offset - 1, 0)):
                for reverse in ((False, True) if offset == 1 else (False,)):
                    buf = bytearray([0xAA] * buflen)
                    ok, n = call(by.packifyInto, buf, fmt, vals, offset=offset, reverse=reverse)
                    e = bytearray([0xAA] * buflen)
                    if len(e) < offset + size:
                        e.extend([0] * (offset + size - len(e)))
                    e[offset:offset + size] = bytearray(reversed(exp)) if reverse else exp
                    if not ok:
                        bad("packifyInto|raises", vals, "packifyInto raised " + n, fn="packifyInto", offset=offset, buflen=buflen, reverse=reverse, got=n)
                    elif buf != e or n != size:
                        inside = buf[offset:offset + size] == e[offset:offset + size] and len(buf) == len(e)
                        grp = "packifyInto|returns-wrong-size" if buf == e else ("packifyInto|disturbs-other-bytes" if inside else "packifyInto|wrong-bytes-at-offset")
                        bad(grp, vals, "packifyInto(0xAA*%d, %r, %r, offset=%d, reverse=%r) -> %r buffer %r expected %d %r"
                            % (buflen, str(fmt), list(vals), offset, reverse, n, buf, size, e),
                            fn="packifyInto", offset=offset, buflen=buflen, reverse=reverse, got=[n, buf], expected=[size, e])
        # ---- packifyInto with an explicit size larger than the format needs: the whole window of `size` bytes is written
        #      (pad bytes zeroed, little-endian = mirror of the window) exactly as packify(size=..., reverse=...) packs it,
        #      stale bytes in the window do not survive, bytes outside it are untouched
        for extra, fill, reverse in ((1, 0xFF, False), (1, 0xFF, True), (2, 0x00, True), (2, 0xFF, False)):
            S = size + extra
            buf = bytearray([fill] * (S + 2))
            ok, n = call(by.packifyInto, buf, fmt, vals, size=S, offset=1, reverse=reverse)
            e = bytearray([fill] * (S + 2))
            e[1:1 + S] = ref_pack(widths, vals, size=S, reverse=reverse)
            if not ok:
                bad("packifyInto|raises", vals, "packifyInto raised " + n, fn="packifyInto", size=S, offset=1, buflen=S + 2, reverse=reverse, got=n)
            elif buf != e or n != S:
                inside = buf[1:1 + S] == e[1:1 + S] and len(buf) == len(e)
                grp = "packifyInto|explicit-size-returns-wrong-size" if buf == e else (
                    "packifyInto|explicit-size-disturbs-other-bytes" if inside else "packifyInto|explicit-size-window-differs-from-packify")
                bad(grp, vals, "packifyInto(0x%02X*%d, %r, %r, size=%d, offset=1, reverse=%r) -> %r buffer %r expected %d %r (window = packify(size=%d, reverse=%r))"
                    % (fill, S + 2, str(fmt), list(vals), S, reverse, n, buf, S, e, S, reverse),
                    fn="packifyInto", size=S, offset=1, buflen=S + 2, fill=fill, reverse=reverse, got=[n, buf], expected=[S, e])
        if p.evaluations % 40009 == 1:
            p.sample(dict(fmt=fmt, fields=list(vals), packed=bytes(exp).hex(), unpacked=ref_unpack(widths, exp)))
    p.outcome("format: %d fields, %d pad bits" % (nf, pad))


def work_formats(chunk):
    core.use_repo()
    from ioflo.aid import byting as by
    p = core.Part()
    for widths, full in chunk:
        cur = [None]
        start = len(p.violations)
        try:
            with core.watchdog(HANG_S):
                check_format(by, p, widths, full, cur)
        except core.Watchdog:
            p.violation("pack-unpack|hangs", "fmt=%r fields=%r" % (str(fmtstr(widths)), cur[0]),
                        "a packify/unpackify/packifyInto call did not return within %ds of starting this format" % HANG_S,
                        dict(fmt=fmtstr(widths), fields=cur[0]))
        tag_job(p, ("formats", (widths, full)), start)
    return p


# ----------------------------------------------------------------------------- scalar codecs worker

def work_scalars(job):
    core.use_repo()
    from ioflo.aid import byting as by
    p = core.Part()
    try:
        with core.watchdog(HANG_S):
            scalars(by, p, job)
    except core.Watchdog:
        last = "%s%r %r" % LAST[0] if LAST[0] else None
        p.violation("%s|hangs" % job[0], "after %s" % (last,), "a %s-family call did not return within %ds (job %r, last call started: %s)"
                    % (job[0], HANG_S, job, last), dict(last_call=last))
    tag_job(p, ("scalars", job))
    return p


def scalars(by, p, job):
    kind, lo, hi = job

    def bad(group, example, what, **kw):
        p.violation(group, example, what, kw)

    if kind == "bytify":
        # all n in [lo, hi) incl. negatives x size 0..3 x reverse x strict
        for n in range(lo, hi):
            for size in (0, 1, 2, 3):
                for strict in (False, True):
                    p.evaluations += 1
                    if n < 0 or strict:
                        m = n % (1 << (8 * size))
                        exp = bytearray(m.to_bytes(size, "big"))
                    else:
                        exp = bytearray(n.to_bytes(max(size, (n.bit_length() + 7) // 8), "big"))
                    case = "n=%d size=%d strict=%r" % (n, size, strict)
                    ok, b = call(by.bytify, n, size, False, strict)
                    if not ok or not isinstance(b, bytearray) or b != exp:
                        bad("bytify|wrong-bytes", case, "bytify(%s)=%r expected %r" % (case, b, exp), fn="bytify", n=n, size=size, strict=strict, got=b, expected=exp)
                        continue
                    ok, r = call(by.bytify, n, size, True, strict)
                    if not ok or r != bytearray(reversed(exp)):
                        bad("bytify|reverse-not-mirror", case, "bytify(%s, reverse=True)=%r expected %r" % (case, r, bytearray(reversed(exp))),
                            fn="bytify", n=n, size=size, strict=strict, reverse=True, got=r)
                        continue
                    val = int.from_bytes(bytes(exp), "big")
                    for src, rev in ((b, False), (r, True), (bytes(b), False), (list(r), True)):
                        keep = list(src)
                        ok, back = call(by.unbytify, src, rev)
                        if not ok or back != val or type(back) is not int:
                            bad("unbytify|not-inverse", case + " reverse=%r" % rev, "unbytify(%r, reverse=%r)=%r expected %d" % (src, rev, back, val),
                                fn="unbytify", data=src, reverse=rev, got=back, expected=val)
                        if list(src) != keep:
                            bad("unbytify|mutates-input", case, "unbytify changed its argument", fn="unbytify", data=keep, reverse=rev)
                    if n >= 0 and not strict and val != n:
                        raise core.BrokenCheck("reference bytify lost value")
            if n >= 0:
                p.nontrivial(("bytify", n))
            if n % 8191 == 0:
                p.sample(dict(fn="bytify", n=n, size=2, result=bytes(by.bytify(n, 2)).hex()))
        p.outcome("bytify/unbytify")
    elif kind == "unbytify":
        # every byte string of length <= 2 (and 3 in thorough): bytes -> int -> bytes
        maxlen = 2 if core.TIER == "quick" else 3
        for ln in range(maxlen + 1):
            for t in itertools.product(range(256), repeat=ln):
                if t and not (lo <= t[0] < hi):
                    continue
                if not t and lo != 0:
                    continue
                p.evaluations += 1
                p.nontrivial(("unbytify", t[:2]))      # 3-byte strings (thorough) are keyed by their first two bytes: memory bound
                b = bytearray(t)
                for rev in (False, True):
                    val = int.from_bytes(bytes(t), "little" if rev else "big")
                    ok, n = call(by.unbytify, b, rev)
                    if not ok or n != val:
                        bad("unbytify|wrong-int", "b=%s reverse=%r" % (bytes(t).hex(), rev), "unbytify(%r, reverse=%r)=%r expected %d" % (b, rev, n, val),
                            fn="unbytify", data=b, reverse=rev, got=n, expected=val)
                        continue
                    ok, b2 = call(by.bytify, n, ln, rev)
                    if not ok or b2 != b:
                        bad("bytify|not-inverse-of-unbytify", "b=%s reverse=%r" % (bytes(t).hex(), rev),
                            "bytify(unbytify(b), size=len(b), reverse=%r)=%r for b=%r" % (rev, b2, b), fn="bytify", n=n, size=ln, reverse=rev, got=b2, expected=b)
        p.outcome("unbytify/bytify")
    elif kind == "hex":
        # bytes -> hex -> bytes for every byte string of length <= 2; first byte in [lo, hi)
        for ln in range(3):
            for t in itertools.product(range(256), repeat=ln):
                if t and not (lo <= t[0] < hi):
                    continue
                if not t and lo != 0:
                    continue
                p.evaluations += 1
                p.nontrivial(("hex", t))
                raw = bytes(t)
                exp = raw.hex()
                for name, enc, dec, arg, typ in (("hexify", by.hexify, by.unhexify, bytearray(raw), bytearray),
                                                 ("hexify(bytes)", by.hexify, by.unhexify, raw, bytearray),
                                                 ("hexize", by.hexize, by.unhexize, raw, bytes)):
                    ok, h = call(enc, arg)
                    if not ok or h != exp or not isinstance(h, str):
                        bad("%s|wrong-hex" % name, raw.hex(), "%s(%r)=%r expected %r" % (name, arg, h, exp), fn=name, data=arg, got=h, expected=exp)
                        continue
                    for text in (h, h.upper()):
                        ok, b = call(dec, text)
                        if not ok or bytes(b) != raw or not isinstance(b, typ):
                            bad("%s|not-inverse" % dec.__name__, text, "%s(%r)=%r expected %r" % (dec.__name__, text, b, raw),
                                fn=dec.__name__, text=text, got=b, expected=raw)
        p.outcome("hexify/unhexify/hexize/unhexize on bytes")
    elif kind == "unhex":
        # hex text -> bytes -> hex text for every string over 0-9a-fA-F of length <= 3 (4 thorough); first char index in [lo, hi)
        digits = "0123456789abcdefABCDEF"
        maxlen = 3 if core.TIER == "quick" else 4
        for ln in range(maxlen + 1):
            for t in itertools.product(range(len(digits)), repeat=ln):
                if t and not (lo <= t[0] < hi):
                    continue
                if not t and lo != 0:
                    continue
                p.evaluations += 1
                h = "".join(digits[i] for i in t)
                p.nontrivial(("unhex", h))
                even = h if len(h) % 2 == 0 else "0" + h      # documented: odd length gets a '0' prepended
                raw = bytes.fromhex(even)
                for dec, enc in ((by.unhexify, by.hexify), (by.unhexize, by.hexize)):
                    ok, b = call(dec, h)
                    if not ok or bytes(b) != raw:
                        bad("%s|wrong-bytes" % dec.__name__, h, "%s(%r)=%r expected %r" % (dec.__name__, h, b, raw), fn=dec.__name__, text=h, got=b, expected=raw)
                        continue
                    ok, h2 = call(enc, b)
                    if not ok or h2 != even.lower():
                        bad("%s|not-inverse" % enc.__name__, h, "%s(%s(%r))=%r expected %r" % (enc.__name__, dec.__name__, h, h2, even.lower()),
                            fn=enc.__name__, text=h, got=h2, expected=even.lower())
        p.outcome("unhexify/unhexize on hex text")
    elif kind == "unhexsep":
        # hex text with separators: the decoders ignore every character that is not a hex digit (docstring/comment), so text with
        # 0..2 non-hex characters inserted at every position decodes like the bare digits.  digits over '01aF', first digit index lo.
        digits = "01aF"
        seps = ":" " " "\n" "x" "-"
        maxlen = 4 if core.TIER == "quick" else 5
        for ln in range(maxlen + 1):
            for t in itertools.product(range(len(digits)), repeat=ln):
                if t and not (lo <= t[0] < hi):
                    continue
                if not t and lo != 0:
                    continue
                h = "".join(digits[i] for i in t)
                even = h if len(h) % 2 == 0 else "0" + h
                raw = bytes.fromhex(even)
                variants = []
                for i in range(ln + 1):
                    for a in seps:
                        variants.append(h[:i] + a + h[i:])
                        for j in range(i, ln + 1):
                            for b2 in seps:
                                variants.append(h[:i] + a + h[i:j] + b2 + h[j:])
                for text in variants:
                    p.evaluations += 1
                    for dec, enc in ((by.unhexify, by.hexify), (by.unhexize, by.hexize)):
                        ok, b = call(dec, text)
                        if not ok or bytes(b) != raw:
                            bad("%s|separators-not-ignored" % dec.__name__, repr(text), "%s(%r)=%r, the hex digits %r alone decode to %r"
                                % (dec.__name__, text, b, h, raw), fn=dec.__name__, text=text, got=b, expected=raw)
                            continue
                        ok, h2 = call(enc, b)
                        if not ok or h2 != even.lower():
                            bad("%s|not-inverse-with-separators" % enc.__name__, repr(text), "%s(%s(%r))=%r expected %r" % (enc.__name__, dec.__name__, text, h2, even.lower()),
                                fn=enc.__name__, text=text, got=h2, expected=even.lower())
                p.nontrivial(("unhexsep", h))
        p.outcome("unhexify/unhexize on hex text with separators")
    elif kind == "bin":
        # binize / unbinize: all n < 2**size for size <= 10 (12 thorough); all binary strings of those lengths
        maxbits = 10 if core.TIER == "quick" else 12
        for size in range(lo, min(hi, maxbits + 1)):
            for n in range(1 << size):
                p.evaluations += 1
                p.nontrivial(("bin", size, n))
                exp = format(n, "0%db" % size) if size else ""
                ok, u = call(by.binize, n, size)
                if not ok or u != exp:
                    bad("binize|wrong-string", "n=%d size=%d" % (n, size), "binize(%d,%d)=%r expected %r" % (n, size, u, exp), fn="binize", n=n, size=size, got=u, expected=exp)
                    continue
                ok, back = call(by.unbinize, u)
                if not ok or back != n:
                    bad("unbinize|not-inverse", "u=%r" % exp, "unbinize(%r)=%r expected %d" % (u, back, n), fn="unbinize", text=u, got=back, expected=n)
                # wider n is truncated to its low `size` bits
                if size:
                    ok, u2 = call(by.binize, n | (1 << size), size)
                    if not ok or u2 != exp:
                        bad("binize|high-bits-leak", "n=%d size=%d" % (n | (1 << size), size), "binize(%d,%d)=%r expected %r" % (n | (1 << size), size, u2, exp),
                            fn="binize", n=n | (1 << size), size=size, got=u2, expected=exp)
                # the string -> int -> string direction (every binary string of this length is format(n))
                ok, n2 = call(by.unbinize, exp)
                if ok:
                    ok, u3 = call(by.binize, n2, size)
                if not ok or u3 != exp:
                    bad("binize|not-inverse-of-unbinize", "u=%r" % exp, "binize(unbinize(%r),%d)=%r" % (exp, size, u3), fn="binize", text=exp, got=u3)
        p.outcome("binize/unbinize")
    elif kind == "sign":
        maxbits = 10 if core.TIER == "quick" else 14
        for nbits in range(max(lo, 1), min(hi, maxbits + 1)):
            for x in range(1 << nbits):
                p.evaluations += 1
                p.nontrivial(("sign", nbits, x))
                exp = x if x < (1 << (nbits - 1)) else x - (1 << nbits)
                ok, r = call(by.signExtend, x, nbits)
                if not ok or r != exp:
                    bad("signExtend|not-twos-complement", "x=%d n=%d" % (x, nbits), "signExtend(%d,%d)=%r expected %d" % (x, nbits, r, exp),
                        fn="signExtend", x=x, n=nbits, got=r, expected=exp)
                    continue
                # inverse: masking the signed value to n bits gives x back
                if (r % (1 << nbits)) != x:
                    bad("signExtend|not-invertible", "x=%d n=%d" % (x, nbits), "signExtend(%d,%d)=%r does not reduce to x mod 2**n" % (x, nbits, r),
                        fn="signExtend", x=x, n=nbits, got=r)
                p.outcome("signExtend:%s" % ("negative" if r < 0 else "non-negative"))
    return p


def tag_job(p, job, start=0):
    """Put the shard identity into the replay record of every violation found from index `start` on."""
    for v in p.violations[start:]:
        if isinstance(v[3], dict):
            v[3].setdefault("job", repr(job))


def replay(path, runner, pid):
    """./vcheck C40 --replay <file>: re-run the shard that produced the stored violation; exit 1 if the same key fails again."""
    import json
    rec = json.load(open(path))
    if not isinstance(rec.get("replay"), dict) or "job" not in rec["replay"]:
        print("replay record carries no shard identity; run the check again to regenerate it")
        return 2
    job = eval(rec["replay"]["job"], {"__builtins__": {}, "inf": float("inf"), "nan": float("nan")})
    p = runner(job)
    hit = False
    for g, ex, what, rep in p.violations:
        same = "%s|%s" % (g, ex) == rec["key"]
        hit = hit or same
        print("%s %s|%s\n  %s" % ("REPRODUCED" if same else "other violation in the same shard:", g, ex, what))
    if not hit:
        print("not reproduced: %s" % rec["key"])
    print("REPLAY property=%s reproduced=%s shard_evaluations=%d" % (pid, hit, p.evaluations))
    return 1 if hit else 0


def run():
    import os
    if os.environ.get("VERIF_REPLAY"):
        return replay(os.environ["VERIF_REPLAY"], (lambda job: work_formats([job[1]]) if job[0] == "formats" else work_scalars(job[1])), "C40")
    # reference self-check on the docstring example
    if ref_pack((1, 3, 2, 2), (True, 4, 0, 3)) != bytearray([0xC3]) or ref_unpack((1, 3, 2, 2), [0xC3]) != [1, 4, 0, 3] \
            or ref_unpack((3,), [0xBF]) != [5, 31] or len(compositions(6)) != 32:
        raise core.BrokenCheck("bit-string reference fails its self-check")
    ck = core.Check("C40", "exploration", META["technique"])
    # formats, simplest first; the order (not the process count) fixes which violation example is kept
    items = []
    for W in range(0, EDGE_W + 1):
        for widths in compositions(W):
            items.append((widths, W <= FULL_W))
    # chunk: cost ~ number of value tuples
    chunks, cur, cost = [], [], 0
    for widths, full in items:
        c = (1 << sum(widths)) if full else 6 * len(widths) + 5
        cur.append((widths, full))
        cost += c
        if cost >= 1 << 14:
            chunks.append(cur)
            cur, cost = [], 0
    if cur:
        chunks.append(cur)
    nfull = sum(1 for _, f in items if f)
    ck.merge(core.pmap(work_formats, chunks))
    ck.part.extra["formats_complete"] = nfull
    ck.part.extra["formats_boundary_only"] = len(items) - nfull
    jobs = []
    step = 1 << 12
    for lo in range(-(1 << 12), 1 << 16, step):
        jobs.append(("bytify", lo, lo + step))
    for lo in range(0, 256, 16):
        jobs.append(("unbytify", lo, lo + 16))
        jobs.append(("hex", lo, lo + 16))
    for lo in range(0, 22, 2):
        jobs.append(("unhex", lo, lo + 2))
    for lo in range(4):
        jobs.append(("unhexsep", lo, lo + 1))
    for lo in range(0, 13):
        jobs.append(("bin", lo, lo + 1))
    for lo in range(1, 15):
        jobs.append(("sign", lo, lo + 1))
    ck.merge(core.pmap(work_scalars, jobs))
    ck.assumptions = [
        "reference = '0'/'1' string concatenation for pack/unpack, int.to_bytes/from_bytes, bytes.hex/fromhex, format(n,'b'); self-checked on the docstring example",
        "one-bit fields pack the truthiness of the value ('nonzero is True and packs as a 1', packify/packifyInto docstrings) - not its low bit: 2, 4, 0x80, 256, "
        "1.0, 'x', [0] pack 1 and 0, 0.0, None, '', [] pack 0; wider fields get garbage above the field width and must be masked",
        "the padding field returned by unpackify is compared by value only (its type under boolean=True is not specified by the statement)",
        "unhexify/unhexize: odd-length text is read with a leading '0' and upper case is accepted (docstring); text -> bytes -> text therefore "
        "returns the lower-case even-length form; characters that are not hex digits are ignored (documented in the code comments: 'remove any non hex "
        "characters'), so text with up to two of ':', ' ', newline, 'x', '-' inserted anywhere decodes like the bare digits",
        "bytify: negative n and strict=True truncate to size bytes (two's complement), otherwise the result grows to hold n (docstring)",
        "mirror image = byte-reversed: packify(reverse=True) == reversed(packify()), unpackify(reversed(b), reverse=True) == unpackify(b), same for bytify/unbytify",
    ]
    return ck.finish(
        rule="formats = every composition of W into positive field widths; W <= %d: every in-range value tuple (plus masked out-of-range / bool variants, "
             "explicit size+1, padding bits 0/1/all-ones, boolean x reverse, packifyInto at offsets 0-2 into long and short 0xAA buffers); %d < W <= %d: "
             "boundary tuples (zero, max, alternating, each field alone at 1/msb/max-1/max and complements). bytify: every n in [-4096, 65536) x size 0-3 "
             "x strict x reverse; unbytify/hex: every byte string of length <= %d/2; unhex: every hex-digit text of length <= %d, and every text over '01aF' of length <= 4 (5) with 1 or 2 of 5 non-hex characters inserted at every position; binize: every n < 2**size, "
             "size <= %d; signExtend: every x < 2**n, n <= %d. distinct = (format, values) for W <= %d, format above, and every scalar input."
             % (FULL_W, FULL_W, EDGE_W, 2 if core.TIER == "quick" else 3, 3 if core.TIER == "quick" else 4,
                10 if core.TIER == "quick" else 12, 10 if core.TIER == "quick" else 14, KEY_W),
        exhaustive=True)


if __name__ == "__main__":
    core.main(run)
