"""C23 log rotation and flushing never lose or duplicate retained records; crash at every point.
Engine E: in-memory file system with a durability model, crash after every operation."""
META = dict(
    engine="vfs", level="fault_enumeration",
    technique="configuration grid x crash after every file-system operation x every admissible loss pattern of unsynced data, "
              "on a real Logger+Log(s) (always counter streams, sparse once/update/change streams, streak/deck queue streams) driven through its runner "
              "generator on an in-memory file system",
    text="Every combination of keep {0,1,2,3} x cycle period {0,1,2 ticks} x size threshold {0, header+1 record, header+3 records} x "
         "flush period {2,3 ticks} x reuse x restart {none, STOP/START of the same logger, new logger objects on the same directory} "
         "(plus configurations with two and three logs in the logger; thorough: more periods, longer stream, logger period 2) runs a counter "
         "stream through the real Logger; a second family runs a once/update/change log on a share written at tick 0 and then only at "
         "tick 5 or never (so the log is silent across whole flush intervals), alone or next to an always log, with no rotation or "
         "rotation with a cycle period below and above the flush period.  After every logger "
         "send the retained files are read oldest to newest and compared with the rotation oracle; the run's journal then gives the "
         "file-system state after EVERY operation, and for each such crash point every admissible survival pattern of the unsynced bytes "
         "(any prefix, cut at every byte) is materialised and checked: every record written before the most recent completed Log.flush "
         "is still present (unless its copy was rotated out of the oldest slot), records are in order, at most once, and the newest file "
         "starts with its header once a flush point or a rotation has completed since it was created.  For reuse=True configurations the "
         "all-lost and all-kept image of every crash point is additionally handed to a fresh Logger on the same directory (START, RUN, RUN, "
         "STOP): afterwards every retained file of such a log must start with the header.",
    note="Durability model is an assumption (directory operations atomic and durable in program order, data durable only after fsync, "
         "any prefix of unsynced appended bytes may survive); rules always/once/update/change/streak/deck (promised records of the non-always rules from "
         "the C22 reference); filing.ocfn itself is replaced by the double (its contract is "
         "modelled, its code is not run); I/O errors only as one transient os.rename failure per run (an extension: the statement quantifies over crashes, not I/O errors); a crash before the newest file ever reached a flush point (first second of a run, or inside "
         "Log.cycle) may leave it empty or with a torn header and is not judged.",
)
import json
import os
import re

from mc import core

TICK = 0.5
BASES = ["log", "logB", "logC"]
TAG = "x"
RECORD = re.compile(r"^\d+(?:\.\d+)?\t(\d+)$")


RULENAME = dict(always="Always", once="Once", update="Update", change="Change", streak="Streak", deck="Deck")
QUEUE_RULES = ("streak", "deck")
SPARSE_BASE = "logS"
SPARSE_SHARE = "mc.s"


def header_of(base, rule="always"):
    return "text\t%s\t%s\n_time\t%s\n" % (RULENAME[rule], base, TAG)


H = len(header_of(BASES[0]))


def configs(tier):
    """Deterministic list, simplest first.  keep>0 needs a cycle period (Logger forces keep=0
    otherwise) and keep=0 ignores cycle period and size, so those duplicates are dropped."""
    thorough = tier == "thorough"
    nticks = 14 if thorough else 8
    keeps = [0, 1, 2, 3]
    cycs = [0.0, 0.5, 1.0] + ([2.0] if thorough else [])
    sizes = [0, H + 7, H + 20]              # always, header + 1 record, header + 3 records
    flushes = [1.0, 1.5] + ([2.5] if thorough else [])
    periods = [1, 2] if thorough else [1]
    mids = [3, 6] if thorough else [3]
    out = []
    seen = set()
    for keep in keeps:
        for cyc in cycs:
            for size in sizes:
                for flush in flushes:
                    for reuse in (False, True):
                        for period in periods:
                            variants = [("none", 0, 1)]
                            for m in mids:
                                variants.append(("same", m, 1))
                                if reuse:
                                    variants.append(("proc", m, 1))
                            if thorough or (keep in (0, 2) and not reuse):
                                variants.append(("none", 0, 2))      # two logs in the logger
                            if (thorough and size == 0 and period == 1) or (keep in (0, 2) and not reuse and size == 0 and cyc != 0.5):
                                variants.append(("none", 0, 3))      # three logs in the logger
                            for restart, mid, nlogs in variants:
                                k, c, s = keep, cyc, size
                                if not c:
                                    k = 0
                                if not k:
                                    c, s = 0.0, 0
                                key = (k, c, s, flush, reuse, period, restart, mid, nlogs)
                                if key in seen:
                                    continue
                                seen.add(key)
                                out.append(dict(keep=k, cyc=c, size=s, flush=flush, reuse=reuse, period=period,
                                                restart=restart, mid=mid, nticks=nticks, logs=nlogs, sparse=None))
    if not thorough:
        for nlogs in (2, 3):
            for flush in flushes:
                out.append(dict(keep=2, cyc=2.0, size=0, flush=flush, reuse=False, period=1,
                                restart="none", mid=0, nticks=nticks, logs=nlogs, sparse=None))
    # Sparse record streams: a once / update / change log on its own share that is written at
    # tick 0 (creation) and then only at the listed ticks, so the log stays silent across whole
    # flush intervals; alone in the logger or next to an always log; cycle period below and
    # above the flush period.
    rots = [(0, 0.0, 0), (2, 0.5, 0), (2, 0.5, H + 7), (2, 2.0, 0), (2, 2.0, H + 7)]
    scheds = [[], [5]] + ([[3], [9], [3, 9]] if thorough else [])
    for rule in ("once", "update", "change"):
        for writes in scheds:
            for k, c, s in rots:
                for flush in flushes:
                    for reuse in ((False, True) if thorough else (False,)):
                        for alone in (True, False):
                            variants = [("none", 0)]
                            if thorough or (k == 0 and alone):
                                variants.append(("same", 3))
                            for restart, mid in variants:
                                out.append(dict(keep=k, cyc=c, size=s, flush=flush, reuse=reuse, period=1,
                                                restart=restart, mid=mid, nticks=nticks, logs=0 if alone else 1,
                                                sparse=dict(rule=rule, writes=writes)))
    # I/O-fault extension: exactly one os.rename of the run fails (EACCES), at every position.
    for keep in ((2, 3) if not thorough else (1, 2, 3)):
        for size in ((0,) if not thorough else (0, H + 7)):
            for pos in range(1, keep * (nticks + 2) + 1):
                out.append(dict(keep=keep, cyc=0.5, size=size, flush=1.0, reuse=False, period=1, restart="none", mid=0,
                                nticks=nticks, logs=1, sparse=None, fail_rename=pos))
    # Queue rules: a streak / deck log on its own share; a producer queues one element (the send
    # number) every tick before the logger runs, so the log writes a record at every send.
    for rule in QUEUE_RULES:
        for k, c, s in rots:
            for flush in flushes:
                for reuse in ((False, True) if thorough else (False,)):
                    for alone in (True, False):
                        variants = [("none", 0)]
                        if thorough or (k == 0 and alone):
                            variants.append(("same", 3))
                        for restart, mid in variants:
                            out.append(dict(keep=k, cyc=c, size=s, flush=flush, reuse=reuse, period=1,
                                            restart=restart, mid=mid, nticks=nticks, logs=0 if alone else 1,
                                            sparse=dict(rule=rule, writes="every")))
    return out


def cfg_str(c):
    s = "keep=%d cycle=%s size=%d flush=%s reuse=%d" % (c["keep"], c["cyc"], c["size"], c["flush"], int(c["reuse"]))
    if c["period"] != 1:
        s += " period=%d" % c["period"]
    if c["restart"] != "none":
        s += " restart=%s@%d" % (c["restart"], c["mid"])
    if c.get("logs", 1) != 1:
        s += " logs=%d" % c["logs"]
    if c.get("fail_rename"):
        s += " rename#%d fails" % c["fail_rename"]
    if c.get("sparse"):
        if c["sparse"]["writes"] == "every":
            s += " queue=%s,one element per tick" % c["sparse"]["rule"]
        else:
            s += " sparse=%s,writes@0%s" % (c["sparse"]["rule"], "".join(",%d" % t for t in c["sparse"]["writes"]))
    return s


def parse(content, header):
    """-> (has_header, [seq...], torn_tail, junk_lines)"""
    if content.startswith(header):
        has, body = True, content[len(header):]
    elif header.startswith(content):
        return False, [], bool(content), 0            # nothing or a torn header only
    else:
        has, body = False, content
    lines = body.split("\n")
    tail = lines.pop()
    seqs = []
    junk = 0
    for ln in lines:
        m = RECORD.match(ln)
        if m:
            seqs.append(int(m.group(1)))
        else:
            junk += 1
    return has, seqs, bool(tail), junk


class LogState:
    """Harness-side bookkeeping for one Log of the logger."""

    def __init__(self, k, base, rule="always", share="mc.x"):
        self.k = k
        self.base = base
        self.rule = rule
        self.share = share
        self.header = header_of(base, rule)
        self.expected = []        # record numbers the rule has promised so far (reference)
        self.ref = None           # checks.c22.Ref for sparse rules
        self.paths = []           # [main, copy 01, ...]
        self.stretches = []       # content of the main file at each rotation (observed)
        self.scanned = 0          # journal entries already scanned for rotations


class Run:
    """One configuration executed once on a journalling VFS; clean-state oracle after every
    send, crash oracle afterwards over the journal."""

    def __init__(self, idx, cfg):
        self.idx = idx
        self.cfg = cfg
        self.viol = []            # (group, sortkey, example, what, replay)
        self.part = core.Part()
        self.seq = 0              # records are numbered by the send that writes them
        self.logs = [LogState(k, BASES[k]) for k in range(cfg.get("logs", 1))]
        self.sparse = cfg.get("sparse")
        self.sval = 1             # value of the sparse share (its tick-0 write)
        if self.sparse:
            from checks import c22
            ls = LogState(len(self.logs), SPARSE_BASE, self.sparse["rule"], SPARSE_SHARE)
            ls.ref = c22.Ref(self.sparse["rule"], "one")      # the statement's reference for the rule
            self.logs.append(ls)
        self.schedule = []

    # ---- bookkeeping
    def violation(self, group, where, what, extra=None):
        replay = dict(config=self.cfg, schedule=self.schedule, tick=TICK, where=where,
                      how="vfs.LogWorld(fs, ALWAYS, fields=['n'], logger_kw=dict(flushPeriod, keep, cyclePeriod, fileSize, reuse)); "
                          "per tick: store.changeStamp(+tick); share.update(n=send number); logger.runner.send(control)")
        if extra:
            replay.update(extra)
        self.viol.append((group, (self.idx, len(self.viol)), "%s: %s" % (cfg_str(self.cfg), where), what, replay))

    # ---- execution
    def make_world(self, fs=None):
        from mc import vfs
        from ioflo.base import globaling as g
        c = self.cfg
        fs = fs or self.fs
        rules = dict(always=g.ALWAYS, once=g.ONCE, update=g.UPDATE, change=g.CHANGE, streak=g.STREAK, deck=g.DECK)
        init = {"mc.x": self.seq, SPARSE_SHARE: [] if (self.sparse and self.sparse["rule"] == "streak") else self.sval}
        first = self.logs[0]
        w = vfs.LogWorld(fs, rules[first.rule], fields=["n"], share_init=[("n", init[first.share])], tick=TICK,
                         base=first.base, tag=TAG, share_name=first.share,
                         logger_kw=dict(flushPeriod=c["flush"], keep=c["keep"], cyclePeriod=c["cyc"],
                                        fileSize=c["size"], reuse=c["reuse"]),
                         more_logs=[(ls.base, rules[ls.rule], ["n"], ls.share, [("n", init[ls.share])])
                                    for ls in self.logs[1:]])
        for k, log in enumerate(w.logs):
            self.instrument(log, k, fs)
        logger_flush = w.logger.flush

        def flush_all():
            was_open = [bool(log.file and not log.file.closed) for log in w.logs]
            res = logger_flush()
            for k, o in enumerate(was_open):
                if o:
                    fs.mark("flushed", log=k, by="Logger.flush")    # 'Flush all log files'
            return res                                                # transparent: callers may use the result
        w.logger.flush = flush_all
        return w

    def instrument(self, log, k, fs):
        """Journal a marker whenever Log.flush() / Log.close() returns for an open file, and
        whenever Log.cycle() returns."""
        orig_cycle = log.cycle

        def cycle(*a, **kw):
            res = orig_cycle(*a, **kw)
            fs.mark("cycled", log=k, result=bool(res))
            return res
        log.cycle = cycle

        def wrap(orig, by):
            def wrapped():
                f = log.file
                was_open = bool(f and not f.closed)
                res = orig()
                if was_open:
                    fs.mark("flushed", log=k, by=by)
                return res         # transparent: e.g. any(log.flush() for log in logs) must see it
            return wrapped
        log.flush = wrap(log.flush, "flush")
        log.close = wrap(log.close, "close")          # closing a log is a flush point too

    def plan(self):
        c = self.cfg
        n = c["nticks"]
        out = []
        for t in range(n + 1):
            if t == 0:
                out.append("START")
            elif t == n:
                out.append("STOP")
            elif c["restart"] != "none" and t == c["mid"]:
                out.append("STOP")
            elif c["restart"] == "same" and t == c["mid"] + 1:
                out.append("START")
            elif c["restart"] == "proc" and t == c["mid"] + 1:
                out.append("NEW+START")
            elif t % c["period"] == 0:
                out.append("RUN")
            else:
                out.append("-")
        return out

    def execute(self):
        from mc import vfs
        from ioflo.base import globaling as g
        self.fs = vfs.VFS(snapshots=True)
        if self.cfg.get("fail_rename"):
            self.fs.fail_renames = {self.cfg["fail_rename"]}
        vfs.install(self.fs)
        self.schedule = self.plan()
        w = self.make_world()
        now = 0.0
        for t, ctl in enumerate(self.schedule):
            if t:
                now += TICK
            if ctl == "-":
                w.store.changeStamp(now)
                continue
            if ctl == "NEW+START":
                w = self.make_world()            # a new process: fresh House/Store/Logger/Log, same files
                ctl = "START"
            w.store.changeStamp(now)
            self.seq += 1
            if "mc.x" in w.shares:
                w.shares["mc.x"].update(n=self.seq)
            queued = bool(self.sparse and self.sparse["writes"] == "every")
            wrote = bool(self.sparse and not queued and t in self.sparse["writes"])
            if wrote:
                self.sval = t + 1
                w.shares[SPARSE_SHARE].update(n=self.sval)       # before the logger in this tick
            if queued:                                             # the producer: one element per tick
                self.sval = self.seq
                if self.sparse["rule"] == "streak":
                    w.shares[SPARSE_SHARE]["n"].append(self.seq)
                else:
                    from ioflo.aid.odicting import odict
                    w.shares[SPARSE_SHARE].push(odict(n=self.seq))
            for ls in self.logs:                                   # what the rule promises for this send
                if ls.ref is None:
                    ls.expected.append(self.seq)
                else:
                    before = len(ls.ref.records)
                    if t:
                        ls.ref.apply("T")
                    if wrote:
                        ls.ref.apply("wd")
                    if queued:
                        ls.ref.apply("q")
                    ls.ref.apply(dict(START="START", RUN="R", STOP="STOP")[ctl])
                    for _ in range(len(ls.ref.records) - before):
                        ls.expected.append(self.sval)
            self.fs.mark("send", control=ctl, seq=self.seq, tick=t)
            try:
                w.send(dict(START=g.START, RUN=g.RUN, STOP=g.STOP)[ctl])
            except Exception as ex:
                self.violation("raises|%s" % type(ex).__name__, "tick %d %s" % (t, ctl),
                               "%s raised %r at tick %d (%s)" % (ctl, ex, t, cfg_str(self.cfg)))
                return w
            for ls, log in zip(self.logs, w.logs):
                ls.paths = w.paths(log)
            for ls in self.logs:
                if self.clean_check(ls, t, ctl):
                    return w
        self.fs._op("end", "")        # crash point after the last send has returned (process gone, then power loss)
        return w

    # ---- oracle on the state after a completed send
    def scan_rotations(self, ls):
        """Rotation = rename of the main file.  Record the stretch it held and check the
        size threshold.  Returns a violation description or None."""
        fs = self.fs
        main = ls.paths[0]
        bad = None
        while ls.scanned < len(fs.journal):
            kind, args, info = fs.journal[ls.scanned]
            if kind == "rename" and args[0] == main:
                k = fs.snap_at.index(ls.scanned)
                before = fs.snaps[k - 1]["files"].get(main)
                content = before[1] + "".join(before[2]) if before else ""
                ls.stretches.append(content)
                if info["size"] < self.cfg["size"] and bad is None:
                    bad = ("rotated-below-threshold",
                           "%s rotated at %d bytes, threshold %d" % (os.path.basename(main), info["size"], self.cfg["size"]))
            ls.scanned += 1
        return bad

    def clean_check(self, ls, t, ctl):
        fs = self.fs
        c = self.cfg
        where = "after tick %d %s" % (t, ctl)
        self.part.evaluations += 1
        bad = self.scan_rotations(ls)
        if bad:
            self.violation(bad[0], where, "%s (%s, %s)" % (bad[1], cfg_str(c), where))
            return True
        contents = [fs.logical(p) for p in ls.paths]
        files = dict(zip(ls.paths, contents))
        allseq = []
        for p, content in reversed(list(zip(ls.paths, contents))):     # oldest -> newest
            if not content:
                continue
            has, seqs, torn, junk = parse(content, ls.header)
            if not has or junk or torn:
                self.violation("header", where,
                               "%s does not consist of one header followed by records: %r (%s, %s)"
                               % (os.path.basename(p), content[:90], cfg_str(c), where), dict(files=files))
                return True
            allseq.extend(seqs)
        exp = ls.expected                  # the promised record stream so far (numbers increase)
        lo = allseq[0] if allseq else None
        if allseq != exp[len(exp) - len(allseq):] or (c["keep"] == 0 and allseq != exp):
            dup = len(set(allseq)) != len(allseq)
            self.violation("stream|%s" % ("duplicate" if dup else "gap-or-order"), where,
                           "retained files of %s read oldest to newest hold records %r; the record stream so far is %r (%s, %s)"
                           % (ls.base, allseq, exp, cfg_str(c), where), dict(files=files))
            return True
        # newest file = everything since the last rotation; copy k = k-th most recent stretch
        main = contents[0]
        if ls.stretches:
            older = [s for st in ls.stretches for s in parse(st, ls.header)[1]]
            since = [v for v in exp if v > (max(older) if older else 0)]
            got = parse(main, ls.header)[1] if main else []
            if got != since:
                self.violation("newest-file", where,
                               "newest file of %s holds %r, records since the last rotation are %r (%s, %s)"
                               % (ls.base, got, since, cfg_str(c), where), dict(files=files))
                return True
            faulted = any(e[0] == "mark" and e[1][0] == "rename-failed" for e in fs.journal)
            for k in range(1, min(len(ls.stretches), c["keep"]) + 1):
                if faulted:
                    break          # after an aborted rotation the slots no longer map 1:1 to rotations
                if contents[k] != ls.stretches[-k]:
                    self.violation("rotation-copy", where,
                                   "copy %02d of %s holds %r, the stretch rotated %d rotation(s) ago was %r (%s, %s)"
                                   % (k, ls.base, contents[k], k, ls.stretches[-k], cfg_str(c), where), dict(files=files))
                    return True
        nrot = len(ls.stretches)
        self.part.outcome("clean:%s" % ("no rotation" if nrot == 0 else "rotated, nothing dropped" if allseq == exp else "rotated, oldest dropped"))
        return False

    # ---- oracle on every crash point
    def crash_check(self, midwrite):
        from mc import vfs
        fs = self.fs
        c = self.cfg
        owner = {}                                    # path -> LogState
        for ls in self.logs:
            for p in ls.paths:
                owner[p] = ls
        recs = {}                                     # ino -> [seq] written to it
        written = [[] for _ in self.logs]             # record numbers handed to write(), per log
        flushed = [set() for _ in self.logs]          # ... before the most recent completed flush/close of that log
        dropped = [set() for _ in self.logs]          # records rotated out of the oldest slot (by design)
        hdr_due = [False] * len(self.logs)            # a flush point / rotation completed since the main file was created
        renamed = [False] * len(self.logs)            # the main file was renamed inside the current Log.cycle()
        restarted = set()                             # crash images already put through the restart phase
        send = None
        snap_of = dict((j, k) for k, j in enumerate(fs.snap_at))
        for j, (kind, args, info) in enumerate(fs.journal):
            if kind == "mark":
                if args[0] == "send":
                    send = info
                elif args[0] == "flushed":
                    flushed[info["log"]] = set(written[info["log"]])
                    hdr_due[info["log"]] = True
                elif args[0] == "cycled":
                    if renamed[info["log"]]:
                        hdr_due[info["log"]] = True           # a rotation has completed
                    renamed[info["log"]] = False
                continue
            ino = info.get("ino")
            ls = owner.get(args[0]) if args else None
            if kind == "write" and ls is not None:
                for ln in args[1].split("\n"):
                    m = RECORD.match(ln)
                    if m:
                        recs.setdefault(ino, []).append(int(m.group(1)))
                        written[ls.k].append(int(m.group(1)))
            elif kind == "create" and ls is not None and args[0] == ls.paths[0]:
                hdr_due[ls.k] = False                        # a fresh main file: nothing promised yet
            elif kind == "rename" and ls is not None:
                if args[0] == ls.paths[0]:
                    renamed[ls.k] = True
                    hdr_due[ls.k] = False                    # rotation in progress: no newest file for the moment
                over = info.get("over")
                if over is not None and recs.get(over):
                    if args[1] == ls.paths[-1]:
                        dropped[ls.k].update(recs[over])    # rotated out of the oldest slot: by design
                    else:
                        self.violation("rotation-overwrote-retained-copy", "op %d rename" % j,
                                       "rename %s -> %s destroyed a copy holding records %r that is not the oldest (%s)"
                                       % (os.path.basename(args[0]), os.path.basename(args[1]), recs[over], cfg_str(c)))
                        return
            need = [flushed[k] - dropped[k] for k in range(len(self.logs))]
            anyneed = any(need)
            snap = fs.snaps[snap_of[j]]
            opname = kind if kind != "flush" else ("flush" if not args[1] else "close-flush")
            where0 = "crash after op %d (%s%s) in tick %s %s" % (
                j, opname, " " + os.path.basename(args[0]) if args and args[0] else "",
                send["tick"] if send else "-", send["control"] if send else "-")
            unsynced = sum(len(x) for f in snap["files"].values() for x in f[2])
            for pat, img in vfs.crash_images(snap, midwrite):
                self.part.evaluations += 1
                lost = sum(t - k for _p, k, t in pat)
                bad = None
                for ls in self.logs:
                    present = []
                    for p in reversed(ls.paths):          # oldest -> newest
                        content = img.get(p)
                        if not content:
                            continue
                        has, seqs, torn, junk = parse(content, ls.header)
                        if seqs and not has:
                            bad = ("crash|records-without-header", "%s has records but no header" % os.path.basename(p))
                        elif junk:
                            bad = ("crash|junk-line", "%s has a complete line that is neither header nor record" % os.path.basename(p))
                        present.extend(seqs)
                    if bad is None and any(b <= a for a, b in zip(present, present[1:])):
                        bad = ("crash|%s" % ("duplicate" if len(set(present)) != len(present) else "order"),
                               "records of %s read oldest to newest are %r" % (ls.base, present))
                    newest = img.get(ls.paths[0])
                    if bad is None and hdr_due[ls.k] and not (newest or "").startswith(ls.header):
                        bad = ("crash|newest-file-without-header|after-%s" % opname,
                               "newest file %s is %r although a flush point or a rotation has completed since it was created"
                               % (os.path.basename(ls.paths[0]), newest))
                    missing = sorted(need[ls.k] - set(present))
                    if bad is None and missing:
                        bad = ("crash|flushed-record-lost|after-%s" % opname,
                               "records %r of %s were written before its last completed flush but are not in the files (present: %r)"
                               % (missing, ls.base, present))
                    if bad:
                        break
                if bad:
                    where = where0 + " surviving unsynced bytes %s" % (",".join("%d/%d" % (k, t) for _p, k, t in pat) or "-")
                    self.violation(bad[0], where, "%s; %s (%s)" % (bad[1], where, cfg_str(c)),
                                   dict(journal_index=j, files_after_crash=img,
                                        journal_tail=[[k2] + list(a2) for k2, a2, _i in fs.journal[max(0, j - 8):j + 1]]))
                    return
                if lost:
                    self.part.nontrivial((self.idx, j, pat))
                if c["reuse"] and (lost == 0 or lost == unsynced):
                    key = (tuple(hdr_due), tuple(sorted(img.items())))
                    if key not in restarted:
                        restarted.add(key)
                        if self.restart_phase(img, snap, hdr_due, where0, send):
                            return
                self.part.outcome("crash:%s/%s" % (
                    "nothing unsynced" if not unsynced else "all unsynced lost" if lost == unsynced else
                    "all unsynced kept" if not lost else "partial loss",
                    "flushed records at stake" if anyneed else "no flushed records yet"))


NSHARDS = 48          # fixed (not NPROC) so that merged samples do not depend on the machine


def work_shard(item):
    """All configurations idx % NSHARDS == shard, merged into one Part (one result pickle
    per shard instead of one per configuration)."""
    shard, tier, midwrite = item
    out = core.Part()
    viol = []
    for idx, cfg in enumerate(configs(tier)):
        if idx % NSHARDS == shard:
            p = work((idx, cfg, midwrite if cfg.get("logs", 1) < 3 else "one"))
            viol.extend(p.extra.pop("viol"))
            out.merge(p)
    out.extra["viol"] = viol
    return out


def _restart_phase(self, img, snap, hdr_due, where0, send):
    """A new process (fresh House/Logger/Logs, reuse=True) starts on the directory as the crash
    left it (all-lost and all-kept images of every crash point), runs START, RUN, RUN, STOP.
    Afterwards every retained file of a log whose newest file had passed a flush point or a
    completed rotation before the crash must start with the header."""
    from mc import vfs
    from ioflo.base import globaling as g
    c = self.cfg
    fs2 = vfs.VFS.from_image(snap["dirs"], img)
    vfs.install(fs2)
    self.part.evaluations += 1
    t0 = (send["tick"] if send else 0) + 1
    where = where0 + ", then restart on the surviving files"
    try:
        w = self.make_world(fs2)
        for i, ctl in enumerate((g.START, g.RUN, g.RUN, g.STOP)):
            w.store.changeStamp((t0 + i) * TICK)
            for sh in w.shares.values():
                sh.update(n=900 + i)
            w.send(ctl)
    except Exception as ex:
        self.violation("restart|raises|%s" % type(ex).__name__, where, "restart raised %r; %s (%s)" % (ex, where, cfg_str(c)),
                       dict(files_after_crash=img))
        return True
    worst = "all files start with the header"
    for ls, log in zip(self.logs, w.logs):
        for p in w.paths(log):
            content = fs2.logical(p)
            if content and not content.startswith(ls.header):
                if hdr_due[ls.k]:
                    self.violation("restart|file-without-header", where,
                                   "after a restart on the surviving files %s is %r: no header, although its newest file had passed a "
                                   "flush point or a completed rotation before the crash; %s (%s)"
                                   % (os.path.basename(p), content[:60], where, cfg_str(c)),
                                   dict(files_after_crash=img, files_after_restart=dict((q, fs2.logical(q)) for q in fs2.listing())))
                    return True
                worst = "headerless file, newest file never reached a flush point before the crash"
    self.part.outcome("restart:%s" % worst)
    return False


Run.restart_phase = _restart_phase


def work(item):
    idx, cfg, midwrite = item
    core.use_repo()
    r = Run(idx, cfg)
    with core.watchdog(120):
        r.execute()
        if not r.viol:
            r.crash_check(midwrite)
    p = r.part
    p.notes["configs"] = 1
    p.notes["vfs_operations"] = sum(1 for e in r.fs.journal if e[0] != "mark")
    p.notes["rotations"] = sum(len(ls.stretches) for ls in r.logs)
    p.notes["flushes_completed"] = sum(1 for e in r.fs.journal if e[0] == "mark" and e[1][0] == "flushed")
    if idx % 37 == 5:
        p.sample(dict(config=cfg_str(cfg), schedule=r.schedule,
                      files=dict((os.path.basename(q), r.fs.logical(q)) for ls in r.logs for q in ls.paths),
                      operations=p.notes["vfs_operations"]))
    p.extra["viol"] = r.viol
    return p


def replay(path):
    core.use_repo()
    with open(path) as f:
        rp = json.load(f)["replay"]
    r = Run(0, rp["config"])
    r.execute()
    if not r.viol:
        r.crash_check("all")
    print("config  :", cfg_str(rp["config"]))
    print("schedule:", " ".join(r.schedule))
    for k, a, i in r.fs.journal:
        print("   ", k, a, i if k == "mark" else "")
    for v in r.viol[:1]:
        print("VIOLATION", v[0], "|", v[2])
        print("  ", v[3])
    return 1 if r.viol else 0


def run():
    if os.environ.get("VERIF_REPLAY"):
        return replay(os.environ["VERIF_REPLAY"])
    ck = core.Check("C23", "fault_enumeration", META["technique"])
    cfgs = configs(core.TIER)
    midwrite = "all"
    parts = core.pmap(work_shard, [(k, core.TIER, midwrite) for k in range(NSHARDS)])
    allv = sorted((v for p in parts for v in p.extra.pop("viol")), key=lambda v: (v[0], v[1]))
    first = core.Part()
    for group, _k, example, what, rp in allv:
        first.violation(group, example, what, rp)
    ck.merge([first])
    ck.merge(parts)
    ck.assumptions = [
        "durability model: create/rename/remove/truncate-on-open/mkdir are atomic and durable in program order; file data is durable only "
        "after os.fsync; at a crash a file keeps its durable bytes plus any prefix (cut at any byte) of the bytes appended since, "
        "whether they were still in the Python buffer or already flushed to the OS",
        "'the most recent flush' of a log is the most recent return of Logger.flush() ('Flush all log files'), Log.flush() or Log.close() "
        "while its file was open (Log.cycle goes through them; Logger docstring: STOP 'closes log files needed to flush caches', Log.close: 'close does not necessarily fsync'); "
        "a record is 'written' when Log hands it to file.write(); the obligation covers every record written before that point, in "
        "whichever retained file it now lives",
        "a copy overwritten in the oldest slot (name + two-digit keep index) is dropped by design; overwriting any other copy that "
        "holds records is a loss",
        "the harness wrappers around Logger.flush / Log.flush / Log.close that journal the flush points return the wrapped call's result "
        "unchanged; with three logs the loss patterns are cut at every write boundary and once inside each write (not at every byte)",
        "I/O-fault extension (outside the statement's quantifier, which names histories, crash points and configurations): exactly one "
        "os.rename of the run raises EACCES, at every position; the same oracles apply (nothing retained is lost except by overwriting the "
        "oldest slot, retained files contiguous, every non-empty file starts with the header, crash clauses) except 'copy k = stretch of k "
        "rotations ago', which an aborted rotation legitimately breaks",
        "empty placeholder copies created by the trial open are allowed: 'each file starting with the header' is applied to non-empty files",
        "copy k must hold exactly what the main file held k rotations ago (Logger docstring: keep = number of log copies in rotation)",
        "records are numbered by the logger send that writes them (START, RUN and STOP all log under rule always), so STOP followed by "
        "START at the same values still gives distinct records",
        "streak/deck logs log their own share; a producer queues one element (the send number) per tick before the logger runs, so every send "
        "writes one record; same per-log stream, rotation-threshold and crash oracles",
        "sparse logs (once/update/change) log their own share, written before the logger in the listed ticks with the value tick+1; which "
        "sends produce a record is taken from the C22 reference model of the statement (checks.c22.Ref)",
        "after a crash: the crash clause of the statement (flushed records present) plus order/at-most-once/no headerless records; the "
        "header counts as written data: once Logger.flush/Log.flush/Log.close has returned for the newest file, or a Log.cycle() that renamed "
        "the main file has returned (a completed rotation), the surviving newest file must start with the complete header",
        "restart phase (reuse=True only): a fresh House/Logger/Log set runs START, RUN, RUN, STOP on the all-lost and on the all-kept image of "
        "every crash point; every retained file of a log whose newest file had passed such a point must then start with the header.  A crash "
        "before the newest file's first flush point (initial file before the first periodic flush; inside Log.cycle between create and the "
        "header's fsync) can leave an empty or torn file that a reuse restart appends to without a header on the unchanged tree as well; the "
        "statement promises nothing for data never covered by a flush, so that window is only counted (outcome 'restart:headerless ...')",
    ]
    ck.coverage_extra = dict(configurations=len(cfgs), tick=TICK, header_bytes=H, midwrite_cuts=midwrite,
                             ticks_per_run=cfgs[0]["nticks"] if cfgs else 0)
    return ck.finish(
        rule="configurations (keep x cycle period x size threshold x flush period x reuse x restart kind x one/two/three always logs%s; plus "
             "sparse rule {once,update,change} x write schedule x {no rotation, cycle period below/above flush period} x alone/with always log; "
             "queue rule {streak,deck} with one element queued per tick x the same rotation settings x alone/with always log; "
             "keep {2,3} x every position of a single failing os.rename) "
             "x crash after every journalled "
             "VFS operation x every prefix (all byte offsets) of each file's unsynced bytes; evaluations = crash images + clean-state "
             "comparisons; distinct = (configuration, operation index, loss pattern) with at least one unsynced byte lost"
             % (" x logger period" if core.TIER == "thorough" else ""),
        exhaustive=True)


if __name__ == "__main__":
    core.main(run)
