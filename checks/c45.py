"""C45 arbiters select by their documented rules and never raise.  Engine F: exhaustive input grid on real arbiters in a real house."""
META = dict(
    engine="grid", level="exploration",
    technique="bounded-exhaustive enumeration of input configurations (selection x truth x importance x value per input, default truth) on real arbiter doers resolved through Act.resolve in a real House/Framer/Frame, against the four rules of the statement (no sampling)",
    text="For 1 to 3 inputs (4 in thorough) every combination of selection in {True, False}, truth in {None, True, False, -0.5, 0.25, 0.75, 2}, "
         "importance in {0.5, 1} and value (a number or a string, distinct per position; {1, 3, 's'} for the weighted arbiter) is written into the input "
         "shares of real ArbiterSwitch / Priority / Trusted / Weighted doers with default truth 0.0 and 0.5, the act is called the way a frame calls it, "
         "and the output share's value and truth are compared with a reference: first selected; first of maximal importance among selected inputs whose "
         "normalised truth exceeds the default truth; maximal truth then maximal importance then first; importance- and truth-weighted average when the "
         "weighted truth exceeds the default; otherwise the default share's value and truth. Any exception is a violation.",
    note="Importance 0 is a separate family with a reduced truth set; default truths are floats in [0, 1] (None at construction is covered as a separate small family); "
         "input shares always have a value; NaN truths are not in the grid.",
)
import itertools
import math
from fractions import Fraction as Fr
from mc import core

KINDS = ("ArbiterSwitch", "ArbiterPriority", "ArbiterTrusted", "ArbiterWeighted")
SELS = (True, False)
TRUTHS = (None, True, False, -0.5, 0.25, 0.75, 2)
TRUTHS4 = (None, False, 0.25, 0.75, 2)           # n = 4 (thorough): one representative per normalised value plus both out-of-range sides folded
IMPS = (0.5, 1)
DEFAULT_VALUE = "D"
SENTINEL = "not-written"


def fix(t):
    """Normalised truth per the Arbiter docstring."""
    if t is None or t is True:
        return 1.0
    if t is False:
        return 0.0
    return float(min(1.0, max(0.0, t)))


def states(kind, n, i, family):
    """Per-input state list (sel, truth, imp, value) for position i, simplest first."""
    if kind == "ArbiterWeighted":
        vals = (1, 3, "s")
    elif n >= 4:
        vals = (i + 1,)
    else:
        vals = (i + 1, "s%d" % i)
    truths = TRUTHS4 if n >= 4 else TRUTHS
    sels = SELS
    imps = IMPS
    if family == "selvariants":
        sels = (True, False, 1, 0, None, "x", "")
        truths = (None, 0.25, 0.75)
        vals = vals[:2]
    if family == "permuted":
        truths = (None, 0.25, 0.75)
        vals = vals[:2] if kind == "ArbiterWeighted" else vals[:1]
    if family == "bigimp":       # importances above 1 'still work properly if non negative numbers' (Arbiter docstring)
        imps = (0.5, 1.0, 2, 3)
        truths = (None, 0.25, 0.75)
        vals = vals[:2] if kind == "ArbiterWeighted" else vals[:1]
    if family == "zeroimp":      # importances over the whole documented range [0.0, 1.0] incl. both ends, int and float zero
        imps = (0, 0.0, 0.5, 1.0)
        truths = (None, 0.25, 0.75)
        vals = vals[:2] if kind == "ArbiterWeighted" else vals[:1]
    return [(s, t, m, v) for s in sels for t in truths for m in imps for v in vals]


def same(a, b):
    if a is None or b is None:
        return a is b
    return type(a) is type(b) and a == b


def truth_ok(kind, got, t):
    """Output truth for a chosen input.  Switch 'simply switches the selected input to the output': the truth as stored (the
    normalised form is tolerated).  Priority / trusted work on the confidence 'constrained to range [0.0, 1.0]' (None/True -> 1.0):
    the output truth must have that normalised value (compared by value: None or 2 are wrong, 1.0 is right)."""
    if kind == "ArbiterSwitch":
        return same(got, t) or same(got, fix(t))
    return isinstance(got, (int, float)) and got == fix(t)


def reference(kind, cfg, dt):
    """-> ('input', i) | ('default',) | ('average', value Fraction, truth Fraction)."""
    if kind == "ArbiterSwitch":
        for i, (s, t, m, v) in enumerate(cfg):
            if s:
                return ("input", i)
        return ("default",)
    elig = [(i, fix(t), m) for i, (s, t, m, v) in enumerate(cfg) if s and fix(t) > dt]
    if kind == "ArbiterPriority":
        if not elig:
            return ("default",)
        top = max(m for i, t, m in elig)
        if top == 0:
            # every selected sufficient input has importance 0: 'most important' is read by ioflo as 'none has any importance'
            # (default); the statement's wording would pick the first.  Either is accepted.
            return ("input-or-default", min(i for i, t, m in elig))
        return ("input", min(i for i, t, m in elig if m == top))
    if kind == "ArbiterTrusted":
        if not elig:
            return ("default",)
        tt = max(t for i, t, m in elig)
        best = [(i, m) for i, t, m in elig if t == tt]
        top = max(m for i, m in best)
        return ("input", min(i for i, m in best if m == top))
    # weighted
    sel = [(fix(t), m, v) for (s, t, m, v) in cfg if s]
    if any(not isinstance(v, (int, float)) or isinstance(v, bool) for t, m, v in sel):
        return ("default",)      # documented: a non-number value -> default outputs
    simp = sum(Fr(m) for t, m, v in sel)
    scnf = sum(Fr(m) * Fr(t) for t, m, v in sel)
    sval = sum(Fr(m) * Fr(t) * Fr(v) for t, m, v in sel)
    if simp == 0 or scnf == 0:
        return ("default",)
    if scnf / simp > Fr(dt):
        return ("average", sval / scnf, scnf / simp)
    return ("default",)


def world(kind, n, dt_init, perm=None):
    """Real House / Framer / Frame with one arbiter act resolved the way the builder's acts are."""
    from ioflo.base import housing, framing, acting, doing, globaling
    from ioflo.aid.odicting import odict
    housing.House.Clear()
    housing.ClearRegistries()
    house = housing.House(name="HouseC45")
    store = house.store
    house.assignRegistries()
    framer = framing.Framer(name="FramerC45", store=store)
    house.taskers.append(framer)
    house.framers.append(framer)
    house.mids.append(framer)
    house.orderTaskables()
    framer.assignFrameRegistry()
    frame = framing.Frame(name="FrameC45", store=store, framer=framer)
    framer.first = frame
    default = store.create("arb.default").create(value=DEFAULT_VALUE)
    default.truth = dt_init
    inputs = odict()
    shares = []
    for i in range(n):
        sh = store.create("in.i%d" % i).create(value=0.0)
        shares.append(sh)
        inputs["t%d" % i] = ("in.i%d" % i, False, 1.0)
    if perm:
        # the group's selection / importance shares already exist with their fields in another order than the inputs
        # (Arbiter.__init__ only creates missing fields); 'first' still means first in the declared inputs order
        insels = store.create("arb.insels")
        inimps = store.create("arb.inimps")
        for j in perm:
            insels.create(**{"t%d" % j: False})
            inimps.create(**{"t%d" % j: 1.0})
    act = acting.Act(actor=kind, registrar=doing.Doer, inits=dict(output="out.arb", group="arb", inputs=inputs))
    frame.addByContext(act, globaling.RECUR)
    house.resolve()
    arb = act.actor
    if type(arb).__name__ != kind or arb.store is not store:
        raise core.BrokenCheck("act did not resolve to a %s on the house store" % kind)
    return act, arb, shares


def show(kind, n, dt, cfg, perm=None):
    return "%s n=%d default_truth=%r inputs=[%s]%s" % (
        kind, n, dt, "; ".join("sel=%r truth=%r imp=%r value=%r" % c for c in cfg),
        " insels/inimps shares pre-created with field order %s" % (list(perm),) if perm else "")


def work(job):
    p = _work(job)
    tag_job(p, job)
    return p


def _work(job):
    core.use_repo()
    family, kind, n, dt_init, i0 = job[:5]
    perm = job[5] if len(job) > 5 else None
    p = core.Part()
    try:
        act, arb, shares = world(kind, n, dt_init, perm)
        if perm and list(arb.insels.keys()) != ["t%d" % j for j in perm]:
            raise core.BrokenCheck("pre-existing insels share does not have the permuted field order: %r" % (list(arb.insels.keys()),))
    except core.BrokenCheck:
        raise
    except Exception as ex:
        p.evaluations += 1
        p.violation("%s|construction raises %s: %s" % (kind, type(ex).__name__, ex), "n=%d default_truth=%r" % (n, dt_init),
                    "creating and resolving a %s with %d inputs and default truth %r raised %r" % (kind, n, dt_init, ex),
                    dict(kind=kind, n=n, default_truth_init=dt_init))
        return p
    dt = arb.default.truth
    if family == "none-default":
        if not same(dt, 1.0):
            p.violation("%s|default-truth-None-not-normalised" % kind, "n=%d" % n, "default truth None became %r at construction, FixTruth says 1.0" % (dt,),
                        dict(kind=kind, n=n, default_truth_init=None, got=dt))
            return p
    elif not same(dt, float(dt_init)):
        p.violation("%s|default-truth-changed" % kind, "n=%d default_truth=%r" % (n, dt_init), "default truth %r became %r at construction" % (dt_init, dt),
                    dict(kind=kind, n=n, default_truth_init=dt_init, got=dt))
        return p
    tags = ["t%d" % i for i in range(n)]
    per = [states(kind, n, i, family) for i in range(n)]
    first = per[0][i0]
    out = arb.output
    insels, inimps, default = arb.insels, arb.inimps, arb.default
    count = 0
    for rest in itertools.product(*per[1:]):
        cfg = (first,) + rest
        p.evaluations += 1
        count += 1
        for sh, tag, (s, t, m, v) in zip(shares, tags, cfg):
            sh.value = v
            sh.truth = t
            insels[tag] = s
            inimps[tag] = m
        out.value = SENTINEL
        out.truth = SENTINEL
        if any(c[0] for c in cfg):
            p.nontrivial((kind, n, dt, tuple((bool(s), fix(t), m) for s, t, m, v in cfg)))
        exp = reference(kind, cfg, dt)
        try:
            act()
        except Exception as ex:
            p.violation("%s|raises %s: %s" % (kind, type(ex).__name__, ex), show(kind, n, dt, cfg, perm),
                        "%s.update raised %r; the rule selects %s" % (kind, ex, exp if exp[0] != "average" else "the weighted average"),
                        dict(kind=kind, default=dict(value=DEFAULT_VALUE, truth=dt), expected=repr(exp),
                             inputs=[dict(selection=s, truth=t, importance=m, value=v) for s, t, m, v in cfg],
                             how="build the arbiter with these inputs (tag -> (share path, selection, importance)), set each input share's value and truth, call arbiter()"))
            p.outcome("%s:raised" % kind)
            continue
        gv, gt = out.value, out.truth
        ok = True
        if exp[0] == "default":
            ok = same(gv, DEFAULT_VALUE) and same(gt, dt)
            want = "default (%r, %r)" % (DEFAULT_VALUE, dt)
        elif exp[0] == "input-or-default":
            s, t, m, v = cfg[exp[1]]
            ok = (same(gv, DEFAULT_VALUE) and same(gt, dt)) or (same(gv, v) and truth_ok(kind, gt, t))
            want = "default (%r, %r) or input %d (%r, %r)" % (DEFAULT_VALUE, dt, exp[1], v, fix(t))
        elif exp[0] == "input":
            s, t, m, v = cfg[exp[1]]
            # the chosen input's value, and its truth (switch: as stored or normalised; priority / trusted: normalised to [0, 1])
            ok = same(gv, v) and truth_ok(kind, gt, t)
            want = "input %d (%r, %s)" % (exp[1], v, ("%r or %r" % (t, fix(t))) if kind == "ArbiterSwitch" else repr(fix(t)))
        else:
            ev, et = float(exp[1]), float(exp[2])
            ok = (isinstance(gv, float) and isinstance(gt, float) and math.isclose(gv, ev, rel_tol=1e-12, abs_tol=1e-12)
                  and math.isclose(gt, et, rel_tol=1e-12, abs_tol=1e-12))
            want = "weighted average (%r, %r)" % (ev, et)
        p.outcome("%s:%s" % (kind, exp[0] if exp[0] != "input" else "input %d" % exp[1]))
        if not ok:
            kindof = "output-not-written" if gv == SENTINEL or gt == SENTINEL else "wrong-output-expected-%s" % exp[0]
            p.violation("%s|%s" % (kind, kindof), show(kind, n, dt, cfg, perm), "%s output (%r, %r), the rule gives %s" % (kind, gv, gt, want),
                        dict(kind=kind, default=dict(value=DEFAULT_VALUE, truth=dt), got=dict(value=gv, truth=gt), expected=want,
                             inputs=[dict(selection=s, truth=t, importance=m, value=v) for s, t, m, v in cfg]))
        if not same(default.value, DEFAULT_VALUE) or not same(default.truth, dt):
            raise core.BrokenCheck("default share changed")
        if count % 1499 == 7:
            p.sample(dict(case=show(kind, n, dt, cfg, perm), output=[gv, gt], rule=repr(exp)), limit=1)
    return p


def tag_job(p, job, start=0):
    """Put the shard identity into the replay record of every violation found from index `start` on."""
    for v in p.violations[start:]:
        if isinstance(v[3], dict):
            v[3].setdefault("job", repr(job))


def replay(path, runner, pid):
    """./vcheck C45 --replay <file>: re-run the shard that produced the stored violation; exit 1 if the same key fails again."""
    import json
    rec = json.load(open(path))
    if not isinstance(rec.get("replay"), dict) or "job" not in rec["replay"]:
        print("replay record carries no shard identity; run the check again to regenerate it")
        return 2
    job = eval(rec["replay"]["job"], {"__builtins__": {}, "inf": float("inf"), "nan": float("nan")})
    p = runner(job)
    hit = False
    for g, ex, what, rep in p.violations:
        same = "%s|%s" % (g, ex) == rec["key"]
        hit = hit or same
        print("%s %s|%s\n  %s" % ("REPRODUCED" if same else "other violation in the same shard:", g, ex, what))
    if not hit:
        print("not reproduced: %s" % rec["key"])
    print("REPLAY property=%s reproduced=%s shard_evaluations=%d" % (pid, hit, p.evaluations))
    return 1 if hit else 0


def run():
    import os
    if os.environ.get("VERIF_REPLAY"):
        return replay(os.environ["VERIF_REPLAY"], work, "C45")
    ck = core.Check("C45", "exploration", META["technique"])
    nmax = 3 if core.TIER == "quick" else 4
    jobs = []
    for n in range(1, nmax + 1):
        for kind in KINDS:
            for dt in (0.0, 0.5):
                for i0 in range(len(states(kind, n, 0, "main"))):
                    jobs.append(("main", kind, n, dt, i0))
    for n in (1, 2):
        for kind in KINDS:
            for i0 in range(len(states(kind, n, 0, "main"))):
                jobs.append(("none-default", kind, n, None, i0))
            for dt in (0, 1):        # int default truth is converted to float at construction
                for i0 in range(len(states(kind, n, 0, "main"))):
                    jobs.append(("main", kind, n, dt, i0))
            for i0 in range(len(states(kind, n, 0, "selvariants"))):
                jobs.append(("selvariants", kind, n, 0.5, i0))
    import itertools as it
    for n in (2, 3):
        for perm in list(it.permutations(range(n)))[1:]:
            for kind in KINDS:
                for dt in (0.0, 0.5):
                    for i0 in range(len(states(kind, n, 0, "permuted"))):
                        jobs.append(("permuted", kind, n, dt, i0, perm))
    for fam in ("zeroimp", "bigimp"):
        for n in (1, 2, 3):
            for kind in KINDS:
                for dt in (0.0, 0.5):
                    for i0 in range(len(states(kind, n, 0, fam))):
                        jobs.append((fam, kind, n, dt, i0))
    ck.merge(core.pmap(work, jobs, chunksize=4))
    ck.assumptions = [
        "truths are normalised as documented: None/True -> 1.0, False -> 0.0, numbers clamped to [0, 1]; 'exceeds the default truth' compares the normalised truth",
        "the output must carry the chosen input's value and truth: the switch arbiter passes the truth on as stored (normalised also accepted); the priority and "
        "trusted arbiters output the confidence they ranked by, i.e. normalised to [0, 1] as their docstrings say (None/True -> 1.0, 2 -> 1.0, -0.5 -> 0.0), compared by "
        "value (True == 1.0 passes; None, 2 or -0.5 coming out raw do not)",
        "importances cover the documented range [0.0, 1.0] incl. 0 / 0.0 (zero-importance family, n <= 3): the switch arbiter ignores importances, the trusted "
        "arbiter ranks by truth first (an importance-0 input of highest truth wins; importance only breaks ties), a zero weight drops out of the weighted "
        "average; for the priority arbiter, when every selected sufficient input has importance 0 both the default (ioflo: nothing has any importance) and "
        "the first such input (literal statement) are accepted",
        "weighted arbiter: a selected input whose value is not a number gives the default outputs (docstring); zero total weight gives the default; "
        "the average is compared with exact rational arithmetic to 1e-12",
        "default truth is a float in [0, 1] set before construction (0.0, 0.5; int 0/1 and None -> 1.0 as small families); default value is a marker string",
        "importances above 1 are legal ('assumed to be in [0.0, 1.0] but will still work properly if non negative numbers'): 2 outranks 1 for priority and for "
        "trusted tie-breaks and weighs twice as much in the weighted average (big-importance family, n <= 3, importance {0.5, 1.0, 2, 3})",
        "input order = the order of the inputs mapping given to the arbiter; the field order of the group's insels / inimps shares (which may exist before the "
        "arbiter is built, in any order) carries no meaning",
        "arbiters are created by Act.resolve from the Doer registry inside a resolved House/Framer/Frame and run by calling the act",
    ]
    return ck.finish(
        rule="n inputs for n = 1..%d; per input selection x truth x importance x value = 2 x 7 x 2 x (2 or 3) states (n = 4: 2 x 5 x 2 x (1 or 3)), full product, "
             "x default truth {0.0, 0.5} x 4 arbiters; extra families for n <= 2: default truth None / int, selection in {True, False, 1, 0, None, 'x', ''}; permuted family n = 2, 3: group.insels / group.inimps pre-created with every non-identity field order, selection x truth {None, 0.25, 0.75} x importance {0.5, 1}; big-importance family n <= 3: the same with importance {0.5, 1.0, 2, 3}; zero-importance family n <= 3: selection x truth {None, 0.25, 0.75} x importance {0, 0.0, 0.5, 1.0}. "
             "distinct = (arbiter, n, default truth, per-input (selected, normalised truth, importance)) with at least one selected input." % nmax,
        exhaustive=True)


if __name__ == "__main__":
    core.main(run)
