"""C35 datagram stacks send each destination's packets once, in queue order, whatever destinations
transiently fail.  Engine C: UdpStack/GramStack on a handler double; complete enumeration of queues x
per-pass failure patterns."""
META = dict(
    engine="net", level="fault_enumeration",
    technique="complete enumeration of packet queues x per-service-pass transient-failure patterns on a real UdpStack/GramStack over a handler double",
    text="Every queue of up to 5 (thorough 6) packets over up to three destinations (long queues up to renaming of destinations), every point at which the tail of the queue is enqueued after the first pass, "
         "and every choice of the set of failing destinations for each of the first 3 (thorough 4) serviceTxPkts passes (the handler double raises a transient errno for "
         "every send to a failing destination), followed by failure-free passes: in each pass the datagrams handed to the double must be, per destination, exactly the "
         "pending packets in queue order if the destination is not failing and nothing otherwise; hence every packet is sent exactly once, in order, and no destination "
         "blocks another. A second family fails individual send calls (every mask over the sends of two passes) and checks exactly-once, per-destination order and "
         "that destinations without a failed send are not held back. A third family drives serviceTxPktsOnce with every fail/succeed pattern per call and with every subset of destinations failing per call, and requires exactly-once delivery in per-destination queue order and progress (a destination that keeps failing at the head of the queue must not hold up packets to healthy destinations). Zero-length datagrams are mixed into short queues under all three modes.",
    note="The UDP socket is a double at the handler interface (send(data, ha)); transient errnos are the nine the stack itself treats as transient, all exercised. "
         "Non-transient errors (re-raised by the stack) and the receive side are outside the statement.",
)
import errno
import itertools
import os
from mc import core

QUICK = core.TIER != "thorough"
MAXN = 5 if QUICK else 6
PASSES = 3 if QUICK else 4
ONCE_CALLS = 5 if QUICK else 7
ATT_MAXN = 4 if QUICK else 5       # per-send failure family: queue length bound
EMPTY_MAXN = 3 if QUICK else 4     # zero-length datagram family: queue length bound
FULLN = 3 if QUICK else 5          # all assignments up to this length, beyond it one per renaming class
DESTS = "ABC"
HA = {"A": ("10.0.0.1", 7001), "B": ("10.0.0.2", 7002), "C": ("10.0.0.3", 7003)}
NAME = {v: k for k, v in HA.items()}
TRANSIENT = ["ECONNREFUSED", "ECONNRESET", "ENETRESET", "ENETUNREACH", "EHOSTUNREACH",
             "ENETDOWN", "EHOSTDOWN", "ETIMEDOUT", "ETIME"]


class Handler:
    """Double for the stack's .handler (udping.SocketUdpNb interface): no socket anywhere."""

    def __init__(self):
        self.ha = ("127.0.0.1", 9000)
        self.opened = False
        self.failing = {}          # dest name -> errno name
        self.mask = ()             # per-send family: attempt i of this pass fails iff mask[i]
        self.failed_dests = set()  # destinations that had a failed send since last reset
        self.sent = []             # (label, dest name) datagrams accepted
        self.attempts = []         # every send call
        self.labels = {}           # id(packet.packed) -> label (zero-length datagrams carry no text)
        self.keep = []             # keeps packets alive so ids are not reused

    def reopen(self):
        self.opened = True
        return True

    def close(self):
        self.opened = False

    def receive(self):
        return (b"", None)

    def send(self, data, da):
        import socket
        d = NAME.get(da, repr(da))
        i = len(self.attempts)
        self.attempts.append(d)
        if d in self.failing or (i < len(self.mask) and self.mask[i]):
            e = getattr(errno, self.failing.get(d) or TRANSIENT[i % len(TRANSIENT)])
            self.failed_dests.add(d)
            raise socket.error(e, os.strerror(e))
        self.sent.append((self.labels.get(id(data)) or bytes(data).decode("ascii"), d))
        return len(data)


def make_stack(kind):
    from ioflo.aio.proto import stacking
    h = Handler()
    if kind == "UdpStack":
        st = stacking.UdpStack(handler=h, ha=("127.0.0.1", 9000), name="verif")
    else:
        st = stacking.GramStack(handler=h, ha=("127.0.0.1", 9000), name="verif")
    return st, h


def put(st, h, lab, d, empty):
    """Queue one packet on the stack; `empty` makes it a zero-length datagram (packeting.Packet() default: a poke / keep-alive)."""
    from ioflo.aio.proto import packeting
    pkt = packeting.Packet(stack=st, packed=b"" if empty else lab.encode("ascii"))
    h.labels[id(pkt.packed)] = lab
    h.keep.append(pkt)
    st.transmit(pkt, HA[d])


def labels(assign):
    cnt = {}
    out = []
    for d in assign:
        cnt[d] = cnt.get(d, 0) + 1
        out.append(("%s%d" % (d, cnt[d]), d))
    return out


def canonical(q):
    """Destination names in order of first appearance (the stack treats addresses as opaque keys)."""
    m = {}
    for d in q:
        if d not in m:
            m[d] = DESTS[len(m)]
    return "".join(m[d] for d in q)


def queues():
    """Destination assignments, shortest first.  FULLN: up to this length every assignment; longer ones
    (and everything in the quick tier) only up to renaming of destinations."""
    out = []
    for n in range(1, MAXN + 1):
        for t in itertools.product(DESTS, repeat=n):
            q = "".join(t)
            if n <= FULLN or canonical(q) == q:
                out.append(q)
    return out


def patterns(used, npass):
    subsets = []
    for r in range(len(used) + 1):
        for c in itertools.combinations(used, r):
            subsets.append(c)
    pats = list(itertools.product(subsets, repeat=npass))
    pats.sort(key=lambda p: (sum(len(s) for s in p), sum(1 for s in p if s), p))
    return pats


def errname(ipass, d):
    return TRANSIENT[(ipass * 3 + DESTS.index(d)) % len(TRANSIENT)]


def run_passes(kind, queue, late_from, pattern, errfn=errname, empties=()):
    """One execution. Returns (violation or None, per-pass log)."""
    from ioflo.aio.proto import packeting
    st, h = make_stack(kind)
    items = labels(queue)

    def enqueue(lo, hi):
        for i, (lab, d) in enumerate(items[lo:hi], lo):
            put(st, h, lab, d, i in empties)

    enqueue(0, late_from)
    pending = list(items[:late_from])          # reference: packets not yet delivered, queue order
    log = []
    ipass = 0
    limit = len(pattern) + len(items) + 3
    while True:
        failing = pattern[ipass] if ipass < len(pattern) else ()
        h.failing = {d: errfn(ipass, d) for d in failing}
        h.sent = []
        h.attempts = []
        try:
            st.serviceTxPkts()
        except Exception as ex:
            return ("raises", "%s: %s" % (type(ex).__name__, ex), log)
        got = list(h.sent)
        log.append(dict(failing=list(failing), sent=[l for l, _ in got]))
        # reference for this pass
        exp_by = {d: [l for l, dd in pending if dd == d and d not in failing] for d in DESTS}
        got_by = {d: [l for l, dd in got if dd == d] for d in DESTS}
        alllabels = [l for l, _ in got]
        if len(set(alllabels)) != len(alllabels) or any(l not in [x for x, _ in pending] for l in alllabels):
            return ("duplicate", "pass %d delivered %r, pending was %r" % (ipass + 1, alllabels, [l for l, _ in pending]), log)
        for d in DESTS:
            if got_by[d] != exp_by[d]:
                if sorted(got_by[d]) == sorted(exp_by[d]):
                    kindv = "reordered"
                elif d not in failing and len(got_by[d]) < len(exp_by[d]):
                    kindv = "blocked-by-other-destination" if failing or any(log_i["failing"] for log_i in log) else "not-sent"
                else:
                    kindv = "wrong-set"
                return (kindv, "pass %d (failing %s): destination %s got %r, expected %r; all datagrams this pass %r"
                        % (ipass + 1, list(failing) or "none", d, got_by[d], exp_by[d], alllabels), log)
        pending = [(l, d) for l, d in pending if d in failing]
        if ipass == 0 and late_from < len(items):
            enqueue(late_from, len(items))
            pending += items[late_from:]
        ipass += 1
        if ipass >= len(pattern) and not pending:
            break
        if ipass > limit:
            return ("never-sent", "still pending after %d passes: %r" % (ipass, pending), log)
    if st.txPkts:
        return ("leftover", "txPkts still holds %d packets after everything was delivered" % len(st.txPkts), log)
    return (None, None, log)


def run_attempts(kind, queue, masks, empties=()):
    """Per-send failure family: in pass p the i-th send call fails iff masks[p][i].  Oracle is stated on the
    observations only: exactly once, per-destination order over the whole run, and a packet whose destination had
    no failed send in a pass is delivered in that pass."""
    from ioflo.aio.proto import packeting
    st, h = make_stack(kind)
    items = labels(queue)
    for i, (lab, d) in enumerate(items):
        put(st, h, lab, d, i in empties)
    pending = list(items)
    delivered = {d: [] for d in DESTS}
    log = []
    ipass = 0
    while pending:
        h.failing = {}
        h.mask = masks[ipass] if ipass < len(masks) else ()
        h.sent, h.attempts, h.failed_dests = [], [], set()
        try:
            st.serviceTxPkts()
        except Exception as ex:
            return ("raises", "%s: %s" % (type(ex).__name__, ex), log)
        got = list(h.sent)
        log.append(dict(send_fails=list(h.mask), attempts=list(h.attempts), sent=[l for l, _ in got]))
        labs = [l for l, _ in got]
        pend_labs = [l for l, _ in pending]
        if len(set(labs)) != len(labs) or any(l not in pend_labs for l in labs):
            return ("duplicate", "pass %d delivered %r, pending was %r" % (ipass + 1, labs, pend_labs), log)
        for l, d in got:
            delivered[d].append(l)
        for d in DESTS:
            want = [l for l, dd in items if dd == d]
            if delivered[d] != want[:len(delivered[d])]:
                return ("reordered", "destination %s has received %r, queued order %r (pass %d sent %r after send failures %r)"
                        % (d, delivered[d], want, ipass + 1, labs, sorted(h.failed_dests)), log)
        for l, d in pending:
            if d not in h.failed_dests and l not in labs:
                return ("blocked-by-other-destination" if h.failed_dests else "not-sent",
                        "pass %d: %s to %s was not sent although no send to %s failed (failed: %r; sent %r)"
                        % (ipass + 1, l, d, d, sorted(h.failed_dests), labs), log)
        pending = [(l, d) for l, d in pending if l not in labs]
        ipass += 1
        if ipass > len(masks) + len(items) + 3:
            return ("never-sent", "still pending after %d passes: %r" % (ipass, pending), log)
    if st.txPkts:
        return ("leftover", "txPkts still holds %d packets after everything was delivered" % len(st.txPkts), log)
    return (None, None, log)


def run_once(kind, queue, bits, empties=()):
    """serviceTxPktsOnce family: call i fails iff bits[i] (or: the destinations in bits[i] fail).  Oracle: exactly once,
    per-destination order, and progress: in any window of D consecutive calls (D = destinations in the queue) during which
    some destination with a waiting packet never fails, at least one datagram goes out -- a failing destination at the
    head of the queue must not hold up the healthy ones."""
    from ioflo.aio.proto import packeting
    st, h = make_stack(kind)
    items = labels(queue)
    for i, (lab, d) in enumerate(items):
        put(st, h, lab, d, i in empties)
    sent = []
    calls = 0
    limit = len(bits) + 3 * len(items) + 3
    used = sorted(set(queue))
    hist = []                  # per call: (failing destinations, destinations with a waiting packet before the call, datagrams delivered)
    while st.txPkts and calls <= limit:
        fail = bits[calls] if calls < len(bits) else 0
        if isinstance(fail, tuple):          # subset family: exactly these destinations fail during this call
            h.failing = {d: errname(calls, d) for d in fail}
        else:
            h.failing = {d: errname(calls, d) for d in DESTS} if fail else {}
        h.sent = []
        try:
            st.serviceTxPktsOnce()
        except Exception as ex:
            return ("raises", "%s: %s" % (type(ex).__name__, ex), sent)
        if len(h.sent) > 1:
            return ("once-sent-many", "one serviceTxPktsOnce call delivered %r" % (h.sent,), sent)
        done = set(l for l, _ in sent)
        hist.append((set(h.failing), set(d for l, d in items if l not in done), len(h.sent)))
        sent += h.sent
        calls += 1
        if len(hist) >= len(used):
            win = hist[-len(used):]
            healthy = set(used) - set().union(*[w[0] for w in win])
            waiting = healthy & win[0][1]
            if waiting and not any(w[2] for w in win):
                return ("blocked-by-failing-destination",
                        "calls %d..%d delivered nothing although %s had a packet waiting and never failed (failing per call: %r); delivered so far %r"
                        % (calls - len(used) + 1, calls, sorted(waiting), [sorted(w[0]) for w in win], [l for l, _ in sent]), sent)
    labs = [l for l, _ in sent]
    if st.txPkts:
        return ("never-sent", "queue not drained after %d calls: sent %r" % (calls, labs), sent)
    if sorted(labs) != sorted(l for l, _ in items):
        return ("duplicate" if len(labs) > len(items) else "lost", "delivered %r for queue %r" % (labs, [l for l, _ in items]), sent)
    for d in DESTS:
        g = [l for l, dd in sent if dd == d]
        e = [l for l, dd in items if dd == d]
        if g != e:
            return ("reordered", "destination %s received %r, queued %r (all datagrams in order: %r)" % (d, g, e, labs), sent)
    return (None, None, sent)


def qstr(queue, late_from=None, empties=()):
    labs = [l + ("(0 bytes)" if i in empties else "") for i, (l, _) in enumerate(labels(queue))]
    if late_from is not None and late_from < len(labs):
        labs.insert(late_from, "/then-after-pass-1:")
    return " ".join(labs)


def work(arg):
    chunk, kind = arg
    core.use_repo()
    p = core.Part()
    for queue in chunk:
        used = sorted(set(queue))
        n = len(queue)
        pats = patterns(used, PASSES)
        for late_from in range(n, 0, -1):
            for pat in pats:
                p.evaluations += 1
                v, what, log = run_passes(kind, queue, late_from, pat)
                nfail = sum(len(s) for s in pat)
                if nfail:
                    p.nontrivial((queue, late_from, pat))
                if v is None:
                    p.outcome("ok:passes=%d" % len(log))
                else:
                    p.outcome("violation:" + v)
                    ex = "%s queue=%s fail-per-pass=%s" % (kind, qstr(queue, late_from), [list(s) for s in pat])
                    p.violation("serviceTxPkts|" + v, ex, what,
                                dict(stack=kind, queue=labels(queue), enqueued_before_first_pass=late_from,
                                     failing_destinations_per_pass=[list(s) for s in pat],
                                     errno_per_pass={str(i + 1): {d: errname(i, d) for d in s} for i, s in enumerate(pat)},
                                     observed_passes=log, divergence=what,
                                     how="stack = stacking.%s(handler=double); stack.transmit(Packet(packed=label), ha) in queue order; before each "
                                         "stack.serviceTxPkts() make double.send raise socket.error(errno) for the failing destinations" % kind))
                if nfail >= 2 and late_from < n and v is None and len(p.samples) < 2:
                    p.sample(dict(stack=kind, queue=qstr(queue, late_from), failing_per_pass=[list(s) for s in pat],
                                  passes=[(x["failing"], x["sent"]) for x in log]))
        # zero-length datagrams mixed with ordinary ones, all three service modes (two enumerated passes)
        if n <= EMPTY_MAXN:
            pats2 = patterns(used, 2)
            masks1 = [m for k in range(0, n + 1) for m in itertools.product((0, 1), repeat=k) if not k or m[-1]]
            for r in range(1, n + 1):
                for empties in itertools.combinations(range(n), r):
                    runs = [("fail-per-pass", [list(x) for x in pat], run_passes, (kind, queue, n, pat, errname, empties)) for pat in pats2]
                    runs += [("fail-per-send", [list(m1), []], run_attempts, (kind, queue, (m1, ()), empties)) for m1 in masks1]
                    runs += [("fail-per-call", list(b), run_once, (kind, queue, b, empties)) for b in masks1]
                    for tag, desc, fn, args in runs:
                        p.evaluations += 1
                        p.nontrivial(("empty", queue, empties, tag, repr(desc)))
                        v, what, log = fn(*args)
                        mode = "serviceTxPktsOnce" if fn is run_once else "serviceTxPkts"
                        if v is None:
                            p.outcome("zero-length-ok:" + mode)
                        else:
                            p.outcome("zero-length-violation:" + v)
                            ex = "%s queue=%s %s=%s" % (kind, qstr(queue, None, empties), tag, desc)
                            p.violation(mode + "|zero-length|" + v, ex, what,
                                        dict(stack=kind, queue=labels(queue), zero_length_positions=list(empties), pattern_kind=tag, pattern=desc,
                                             observed=log, divergence=what,
                                             how="as the other families, but the packets at zero_length_positions are packeting.Packet(stack) with empty .packed; "
                                                 "the double's send returns len(data) == 0 for them, like socket.sendto"))
        # per-send failure family (two passes, every fail/succeed mask over the first n sends of each)
        if n <= ATT_MAXN:
            allmasks = [m for k in range(0, n + 1) for m in itertools.product((0, 1), repeat=k) if not k or m[-1]]
            for m1 in allmasks:
                for m2 in allmasks:
                    if not m1 and m2:
                        continue      # an empty first pass mask delivers everything
                    p.evaluations += 1
                    if m1:
                        p.nontrivial(("att", queue, m1, m2))
                    v, what, log = run_attempts(kind, queue, (m1, m2))
                    if v is None:
                        p.outcome("per-send-ok:passes=%d" % len(log))
                    else:
                        p.outcome("per-send-violation:" + v)
                        ex = "%s queue=%s fail-per-send=%s" % (kind, qstr(queue), [list(m1), list(m2)])
                        p.violation("serviceTxPkts|" + v, ex, what,
                                    dict(stack=kind, queue=labels(queue), send_call_fails_per_pass=[list(m1), list(m2)],
                                         observed_passes=log, divergence=what,
                                         how="queue everything; in pass p the i-th double.send call raises a transient socket.error iff send_call_fails_per_pass[p][i]"))
        # serviceTxPktsOnce family
        for k in range(0, min(ONCE_CALLS, n + 2) + 1):
            for bits in itertools.product((0, 1), repeat=k):
                if k and not bits[-1]:
                    continue          # trailing successes are the default
                p.evaluations += 1
                if any(bits):
                    p.nontrivial(("once", queue, bits))
                v, what, sent = run_once(kind, queue, bits)
                if v is None:
                    p.outcome("once-ok")
                else:
                    p.outcome("once-violation:" + v)
                    ex = "%s queue=%s fail-per-call=%s" % (kind, qstr(queue), list(bits))
                    p.violation("serviceTxPktsOnce|" + v, ex, what,
                                dict(stack=kind, queue=labels(queue), call_fails=list(bits), delivered=sent, divergence=what,
                                     how="queue everything, then call stack.serviceTxPktsOnce() repeatedly; call i makes double.send raise a transient errno iff call_fails[i]"))
        # serviceTxPktsOnce with a chosen subset of destinations failing in each of the first calls
        ksub = (3 if n <= 4 else 2) if QUICK else (4 if n <= 4 else 3)
        subsets = [c for r in range(len(used) + 1) for c in itertools.combinations(used, r)]
        for k in range(1, ksub + 1):
            for pat in itertools.product(subsets, repeat=k):
                if not pat[-1]:
                    continue          # trailing failure-free calls are the default
                if all(len(sub) in (0, len(DESTS)) for sub in pat):
                    continue          # all-or-nothing patterns are the family above
                p.evaluations += 1
                p.nontrivial(("once-sub", queue, pat))
                v, what, sent = run_once(kind, queue, pat)
                if v is None:
                    p.outcome("once-subset-ok")
                else:
                    p.outcome("once-subset-violation:" + v)
                    ex = "%s queue=%s failing-per-call=%s" % (kind, qstr(queue), [list(x) for x in pat])
                    p.violation("serviceTxPktsOnce|" + v, ex, what,
                                dict(stack=kind, queue=labels(queue), failing_destinations_per_call=[list(x) for x in pat], delivered=sent, divergence=what,
                                     how="queue everything, then call stack.serviceTxPktsOnce() repeatedly; during call i double.send raises a transient errno for the listed destinations"))
    return p


def errno_grid():
    """Every transient errno the stack lists, on two small queues (fail in pass 1, then succeed)."""
    core.use_repo()
    p = core.Part()
    for kind in ("UdpStack", "GramStack"):
        for name in TRANSIENT:
            if not hasattr(errno, name):
                continue
            for queue, pat in (("A", (("A",),)), ("AAB", (("A",),)), ("ABA", (("B",), ("A",)))):
                p.evaluations += 1
                p.nontrivial(("errno", kind, name, queue))
                v, what, log = run_passes(kind, queue, len(queue), pat, errfn=lambda i, d, name=name: name)
                p.outcome("errno-ok" if v is None else "errno-violation:" + v)
                if v is not None and v != "raises":
                    continue          # structural defects are reported by the main grid with minimal examples
                if v == "raises":
                    p.violation("serviceTxPkts|raises-on-transient|" + name, "%s queue=%s" % (kind, qstr(queue)), what,
                                dict(stack=kind, queue=labels(queue), errno=name, failing_per_pass=[list(s) for s in pat]))
    return p


def run():
    import gc
    gc.collect()
    gc.freeze()          # forked workers then do not copy the parent heap page by page
    ck = core.Check("C35", "fault_enumeration", META["technique"])
    qs = queues()
    items = []
    # contiguous chunks in simplest-first order; results merged in order so the first example per group is minimal
    small = [q for q in qs if len(q) <= 3]
    items.append((small, "UdpStack"))
    items.append((small, "GramStack"))
    rest = [q for q in qs if len(q) > 3]
    csize = 3 if QUICK else 6
    for i in range(0, len(rest), csize):
        items.append((rest[i:i + csize], "UdpStack"))
    gram_rest = [q for q in rest if len(q) <= 4]
    for i in range(0, len(gram_rest), 27):
        items.append((gram_rest[i:i + 27], "GramStack"))
    ck.part.merge(errno_grid())
    ck.merge(core.pmap(work, items, procs=min(core.NPROC, 8) if QUICK else None))
    ck.coverage_extra = dict(max_queue_length=MAXN, all_assignments_up_to_length=FULLN, destinations=3, enumerated_passes=PASSES, queues=len(qs),
                             gramstack_max_queue_length=4, once_calls=ONCE_CALLS, transient_errnos=TRANSIENT)
    ck.assumptions = [
        "a destination 'failing in a pass' fails every send attempted to it during that serviceTxPkts call with one of the errnos the stack classifies as transient",
        "the handler double stands for udping.SocketUdpNb (send(data, ha) returns the byte count or raises socket.error); no real socket is used",
        "order is only required per destination; interleaving between destinations within a pass is free",
        "per-send failure family: a destination counts as failing in a pass iff at least one send to it failed in that pass; only observations are constrained "
        "(exactly once, per-destination order over the whole run, packets of destinations without a failed send go out in that pass)",
        "a zero-length datagram is an ordinary packet: the double accepts it and returns 0 bytes sent, as socket.sendto does",
        "serviceTxPktsOnce family: exactly-once delivery, per-destination order, and progress for healthy destinations: over any D consecutive calls (D = number of "
        "destinations in the queue) in which some destination with a waiting packet never fails, at least one datagram is delivered",
        "queues longer than %d packets are enumerated up to renaming of the three destinations (addresses are opaque dictionary keys to the stack)" % FULLN,
        "after the enumerated passes every send succeeds; delivery must then complete within queue-length+3 further passes",
    ]
    return ck.finish(
        rule="all destination assignments of 1..%d packets over {A,B,C} (beyond length %d: one per renaming of destinations) x every split 'first k packets queued up front, rest after pass 1' x every choice of failing "
             "subset of the used destinations for each of the first %d passes (UdpStack; GramStack up to 4 packets); plus (queues up to %d packets) every per-send fail/succeed mask over two passes; plus serviceTxPktsOnce with every subset of destinations failing in each of the first 2-3 (thorough 3-4) calls and with every fail/succeed "
             "pattern over the first min(%d, n+2) calls; plus queues up to %d packets with every non-empty subset of them zero-length under all three modes; plus each of the 9 transient errnos on three small queues; non-trivial = at least one failure injected"
             % (MAXN, FULLN, PASSES, ATT_MAXN, ONCE_CALLS, EMPTY_MAXN),
        exhaustive=True)


if __name__ == "__main__":
    core.main(run)
