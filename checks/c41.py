"""C41 CRC helpers == CRC-16/GENIBUS and CRC-64/WE.  Engine F: exhaustive input grid."""
META = dict(
    engine="grid", level="exploration",
    technique="bounded-exhaustive enumeration of inputs against a table-driven reference (no sampling)",
    text="Every byte string up to 2 bytes (3 in thorough) plus all single-bit/all-ones/all-zero messages up to 64 bytes is run through "
         "crc16 and crc64 (as bytes, and again through ONE bytearray per length rewritten in place between calls) and compared with independent table-driven CRC-16/GENIBUS and CRC-64/WE references; the functions are pure and "
         "bytewise-iterative, so the complete short-string space plus the bit-position family is the natural bounded-exhaustive claim.",
    note="Trusts the reference tables (self-checked against the catalogue check values) and that behaviour on longer strings follows from the per-byte loop.",
)
import itertools
from mc import core


def make_table(poly, width):
    top = 1 << (width - 1)
    mask = (1 << width) - 1
    tab = []
    for b in range(256):
        r = b << (width - 8)
        for _ in range(8):
            r = ((r << 1) ^ poly) & mask if r & top else (r << 1) & mask
        tab.append(r)
    return tab

T16 = make_table(0x1021, 16)
T64 = make_table(0x42F0E1EBA9EA3693, 64)


def ref16(data):
    crc = 0xFFFF
    for b in data:
        crc = ((crc << 8) & 0xFFFF) ^ T16[((crc >> 8) ^ b) & 0xFF]
    return crc ^ 0xFFFF


def ref64(data):
    crc = 0xFFFFFFFFFFFFFFFF
    for b in data:
        crc = ((crc << 8) & 0xFFFFFFFFFFFFFFFF) ^ T64[((crc >> 56) ^ b) & 0xFF]
    return crc ^ 0xFFFFFFFFFFFFFFFF


def inputs(shard, nshards, tier):
    """Deterministic complete enumeration, sharded by index."""
    i = 0
    maxlen = 2
    for n in range(maxlen + 1):
        for t in itertools.product(range(256), repeat=n):
            if i % nshards == shard:
                yield bytes(t)
            i += 1
    # structured longer messages: single-bit, all-ones, all-zero, walking byte, up to 64 B
    for n in range(3, 65):
        cases = [b"\x00" * n, b"\xff" * n]
        for pos in range(n):
            for bit in (0x80, 0x01):
                m = bytearray(n)
                m[pos] = bit
                cases.append(bytes(m))
        for m in cases:
            if i % nshards == shard:
                yield m
            i += 1
    if tier == "thorough":
        # all 3-byte strings (crc16 and crc64)
        for t in itertools.product(range(256), repeat=3):
            if i % nshards == shard:
                yield bytes(t)
            i += 1


def work(arg):
    shard, nshards, tier = arg
    core.use_repo()
    from ioflo.aid import checking
    import struct
    p = core.Part()
    for m in inputs(shard, nshards, tier):
        p.evaluations += 1
        if len(m) >= 1:
            p.nontrivial(m)  # every non-empty message is a distinct non-trivial case
        try:
            got = checking.crc16(m)
            got16 = struct.unpack("!H", got)[0] if isinstance(got, (bytes, bytearray)) and len(got) == 2 else got
        except Exception as ex:
            got16 = "raised %r" % ex
        exp16 = ref16(m)
        if got16 != exp16:
            p.violation("crc16-mismatch", m.hex(), "crc16(%s)=%r expected 0x%04x" % (m.hex(), got16, exp16),
                        dict(func="crc16", input_hex=m.hex(), got=got16, expected=exp16))
        try:
            got64 = checking.crc64(m)
            got64 = tuple(got64)
        except Exception as ex:
            got64 = "raised %r" % ex
        e = ref64(m)
        exp64 = (e >> 32, e & 0xFFFFFFFF)
        if got64 != exp64:
            p.violation("crc64-mismatch", m.hex(), "crc64(%s)=%r expected %r" % (m.hex(), got64, exp64),
                        dict(func="crc64", input_hex=m.hex(), got=got64, expected=exp64))
        p.outcome("crc16 top nibble %x / crc64 top nibble %x" % (exp16 >> 12, e >> 60))
        if p.evaluations % 9973 == 1:
            p.sample(dict(input_hex=m.hex(), crc16=exp16, crc64=list(exp64)))
    # second pass: the caller REUSES one bytearray, rewriting it in place between calls (a transmit buffer); every call
    # must checksum the buffer's CURRENT content.  Same inputs, grouped by length, nothing else passes through the
    # helpers in between.
    bufs = {}
    for m in inputs(shard, nshards, tier):
        if not m or len(m) > 8:
            continue
        buf = bufs.setdefault(len(m), bytearray(len(m)))
        buf[:] = m
        p.evaluations += 1
        for name, fn, ref in (("crc16", checking.crc16, ref16), ("crc64", checking.crc64, ref64)):
            try:
                got = fn(buf)
                if name == "crc16":
                    got = struct.unpack("!H", got)[0] if isinstance(got, (bytes, bytearray)) and len(got) == 2 else got
                    exp = ref(m)
                else:
                    got = tuple(got)
                    e = ref(m)
                    exp = (e >> 32, e & 0xFFFFFFFF)
            except Exception as ex:
                got, exp = "raised %r" % ex, None
            if got != exp or bytes(buf) != m:
                p.violation(name + "-stale-or-mutating-on-reused-buffer", m.hex(),
                            "%s(bytearray rewritten in place to %s)=%r expected %r (buffer afterwards %s)" % (name, m.hex(), got, exp, bytes(buf).hex()),
                            dict(func=name, input_hex=m.hex(), got=got, expected=exp, reused_bytearray=True))
    return p


def run():
    # the references themselves: catalogue check values
    if ref16(b"123456789") != 0xD64E or ref64(b"123456789") != 0x62EC59E3F1A4F00A:
        raise core.BrokenCheck("reference CRC tables fail their catalogue check values")
    ck = core.Check("C41", "exploration", "bounded-exhaustive input enumeration vs table-driven reference")
    n = core.NPROC
    ck.merge(core.pmap(work, [(i, n, core.TIER) for i in range(n)]))
    ck.assumptions = ["reference = table-driven CRC-16/GENIBUS and CRC-64/WE, self-checked on the catalogue value for '123456789'",
                      "exhaustive over the stated byte-string lengths only; longer strings covered only by the structured single-bit/all-ones family"]
    return ck.finish(
        rule="every byte string of length <= %d, plus all-zero, all-ones and every single-bit (msb/lsb of each byte) message of length 3..64; "
             "non-trivial = non-empty message; both crc16 and crc64 evaluated on each" % (3 if core.TIER == "thorough" else 2),
        exhaustive=True)


if __name__ == "__main__":
    core.main(run)
