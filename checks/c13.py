"""C13 relative store addressing is invariant under consistent renaming.  Engine A (flo), build only.

A completely enumerated family of FloScript programs -- every addressing form x every verb slot that
takes a store reference x placement (frame, nested frame, auxiliary, clone) x via-inode configuration --
is built with the real Builder.  Each program is rebuilt once for every single renaming of one of its
framer / frame / clone-tag / actor names to a fresh name, and the resolved-reference map (act parameter
-> share or node name) and the store's share-name list are compared.
"""
META = dict(
    engine="flo", level="exploration",
    technique="completely enumerated addressing family x every single renaming, built with the real Builder; metamorphic "
              "comparison of resolved-reference maps plus a written-form 'resolves through' name-set oracle (no sampling)",
    text="Family: 31 written reference forms (absolute, root-relative, `of root|me`, `of framer [me|main|name]`, `of frame "
         "[me|main|name] [of framer ..]` (including `of frame main of framer me|name`), `of actor [me|name] [of frame ..]`, inline framer./frame./actor. forms, dot-paths with a "
         "relation) x 17 verb slots (put, copy src/dst, inc dst/src, set dst/src, go-if state/goal/boolean/updated, bid at, do "
         "via/per/for/from with a named doer) x 4 placements (first frame, nested frame, plain auxiliary, named clone) x via-inode "
         "configurations on framer / frame / nested frame / aux / clone / moot (absolute, relative, me-relative; 3 quick, 7 "
         "thorough).  Every program is rebuilt under each of the 11 single renamings (4 framers, 5 frames, clone tag, doer name -> "
         "fresh name).  Oracle 1 (metamorphic): the renamed build's map act-parameter -> resolved share/node name and its store "
         "share-name list equal the original's with exactly the renamed segment substituted (build refusals must agree too).  "
         "Oracle 2 (from the written form): the set of program entity names occurring as segments of the resolved path equals the "
         "set the written form resolves through (me/main/explicit framer, frame, actor); absolute and root/inode-relative "
         "references contain none.  Frame-name collision family: a moot framer cloned as a named auxiliary, or reared at run time "
         "as an insular clone (program run 3 ticks), whose inner / outer frame carries the same name as its main frame and/or the "
         "frame over the main frame (7 name patterns), with distinct via inodes on every frame, framer, clone and doer, and the 15 "
         "root-, inode-, frame- and actor-relative lines inside the clone; renaming ONE of two namesake frames (or any other "
         "entity) must leave every path that does not go through it unchanged (oracle 1 with the fresh name mapped back).  Insular "
         "tag family: one main framer takes `aux X as mine` (build only) or `rear X as mine` (run 3 ticks) clones of TWO moots in "
         "every order AB, BA, AAB, BAA (BAB thorough), with name pairs where one is a proper prefix of the other (wfd/wfder, "
         "wfd/wfdd) or unrelated (wfd/wfg); each original is renamed to <other>er, to proper prefixes of the other, to <self>er and "
         "to an unrelated fresh name; the clone name wfa_<original><count> must change in exactly the renamed original's component "
         "and every path of the other clones must stay put.  Actor name family: three sibling doers in one frame whose names (`do lit "
         "as pump 1|pump 2|pump`, pump_a/pump_b/pump a, big mixer 2/3, p1x/p2x/px, and the doer kinds lit 2/lit 3/lit without `as`) "
         "differ only in digits / underscores, with `per v pl.x` (default doer inode), inline framer.me.frame.me.actor.me and "
         "framer.me.actor.me ipaths, `via x of actor`, `via nd of actor me per v z`; exact oracle: the actor-relative node is the "
         "name's segments per nameToPath's docstring (upper case letter starts a node, every other character kept); siblings never "
         "alias; each doer renamed to names with / without digits and underscores changes exactly its own segments.  Nested clone "
         "family: wfa clones moot wfd (named tag or `as mine`), whose frame clones (named / `as mine`) or rears moot wfg; the leaf "
         "uses every main-relative form (`of framer main`, `.y of framer main`, framer.main.y, `of frame main [of framer main]`, "
         "frame.main.y, framer.main.frame.main.y) in put / copy / need / do via / do per; agreement oracle: the leaf's path equals "
         "the path its main framer (the middle clone) gets for `y of framer` / `y of frame`; renaming oracle for outer framer, both "
         "originals, both tags, all frames and the doer.  Keyword-affix names: every framer, frame, clone tag and doer in turn is "
         "called mainline / remain / meter / home (thorough also maintain, mean) -- `main` / `me` as prefix or suffix -- in a plain "
         "framer and in a named clone, with the explicit-name inline forms frame.<n>.x, framer.<n>.x, framer.<n>.frame.<n>.x, "
         "actor.<n>.x and the `of frame|framer|actor <n>` forms in put / do via / do per (thorough also need); exact oracle: the "
         "written names; renaming oracle: to a neutral fresh name and to another keyword-affix name.  Explicit-name family: "
         "framer-level and frame-level `via nd of framer|frame NAME` inodes naming the lexically previous framer / frame (the "
         "builder's current one while the line is parsed), a later one, the own name, the previous framer's last frame, and the "
         "inline form, with inode-relative lines (put, need, do via per); and a moot framer naming itself (`x of framer <moot>`, "
         "inline, `x of frame F of framer <moot>`, `do .. via nd of framer <moot>`) cloned as two named and one insular clone: all "
         "clones must address the moot's own shared node; exact oracle plus the renaming oracle for every name.  Anchored-inode "
         "family: main framer `via base` whose main frame (or the frame over it) has an absolute (`.abs.`) or framer-relative "
         "(`spot of framer me`, `spot of framer`, `spot of framer wfa`) via, a clone with empty / relative / me-relative via, and "
         "inherited references in the clone (plain, `x of me`, doer ioinits): the anchored inode ends the walk (the main framer's "
         "via is not prepended), the path is fully resolved (no empty segment, no literal me/main), and follows every renaming.",
    note="Inode prefixes are name-free, so oracle 2 is exact about names but says nothing about the literal inode segments; "
         "their layout is only checked for renaming invariance (oracle 1).  `as mine` insular clones (generated tags) and the "
         "`do .. as name via/per` parsing defect of C15 are avoided by writing `at enter` after the doer name.",
)
from mc import core

FRAMERS = ["wfa", "wfb", "wfc", "wfd"]
FRAMES = ["hra", "hrb", "hrc", "hrd", "hre"]
TAG = "tgc"
ACTOR = "dxa"
FRESH = "zzqlong"
ENTITIES = FRAMERS + FRAMES + [TAG, ACTOR]

PLACEMENTS = ["top", "nested", "aux", "clone"]
# context names per placement: F framer name components, R frame, P main framer, M main frame
CTX = {
    "top":    dict(F=["wfa"], R=["hra"], P=None, M=None, SELF="wfa"),
    "nested": dict(F=["wfa"], R=["hrb"], P=None, M=None, SELF="wfa"),
    "aux":    dict(F=["wfc"], R=["hrd"], P=None, M=None, SELF="wfc"),
    "clone":  dict(F=["wfa", "tgc"], R=["hre"], P=["wfa"], M=["hra"], SELF="wfa_tgc"),
}

# (id, written reference, names it resolves through, flags)   flags: i = inline (no `of`), m = needs a main, p = usable as a
# `per` ioinit path, d = default doer inode applies when used as a `per` path with no inode in scope
FORMS = [
    ("abs",            ".ab.x",                               [],                "ip"),
    ("plain",          "pl.x",                                [],                "ipd"),
    ("of-root",        "x of root",                           [],                "d"),
    ("plain-of-root",  "pl.x of root",                        [],                "d"),
    ("of-me",          "x of me",                             [],                ""),
    ("me-inline",      "me.x",                                [],                "ip"),
    ("of-framer",      "x of framer",                         ["F"],             ""),
    ("of-framer-me",   "x of framer me",                      ["F"],             ""),
    ("of-framer-self", "x of framer {SELF}",                  ["F"],             ""),
    ("of-framer-name", "x of framer wfb",                     ["wfb"],           ""),
    ("of-framer-main", "x of framer main",                    ["P"],             "m"),
    ("of-frame",       "x of frame",                          ["F", "R"],        ""),
    ("of-frame-me",    "x of frame me",                       ["F", "R"],        ""),
    ("of-frame-name",  "x of frame hrb",                      ["F", "hrb"],      ""),
    ("of-frame-name-framer", "x of frame hrc of framer wfb",  ["wfb", "hrc"],    ""),
    ("of-frame-me-framer",   "x of frame me of framer wfb",   ["wfb", "R"],      ""),
    ("of-frame-main",  "x of frame main",                     ["P", "M"],        "m"),
    ("of-frame-main-framer-me",   "x of frame main of framer me",  ["F", "M"],   "m"),
    ("of-frame-main-framer-name", "x of frame main of framer wfb", ["wfb", "M"], "m"),
    ("of-actor",       "x of actor",                          ["F", "R", "A"],   ""),
    ("of-actor-me",    "x of actor me",                       ["F", "R", "A"],   ""),
    ("of-actor-name",  "x of actor dxa",                      ["F", "R", "dxa"], ""),
    ("of-actor-frame", "x of actor me of frame hrb",          ["F", "hrb", "A"], ""),
    ("in-framer",      "framer.me.x",                         ["F"],             "ip"),
    ("in-framer-name", "framer.wfb.x",                        ["wfb"],           "ip"),
    ("in-framer-main", "framer.main.x",                       ["P"],             "imp"),
    ("in-frame",       "frame.me.x",                          ["F", "R"],        "i"),
    ("in-frame-main",  "frame.main.x",                        ["P", "M"],        "im"),
    ("in-actor",       "actor.me.x",                          ["F", "R", "A"],   "i"),
    ("in-full",        "framer.me.frame.me.actor.me.x",       ["F", "R", "A"],   "ip"),
    ("dot-of-framer",  ".x of framer",                        ["F"],             ""),
]

# (id, line template, actor-name components contributed by the slot, kind)   kind: rel = any form, per = `per` forms,
# node = reference is a node (do via); obs: which parameter keys carry the reference
SLOTS = [
    ("put-dst",      "put 1 into {REF}",                               [],      "rel",  ["parm:destination"]),
    ("copy-src",     "copy {REF} into .k.dst",                         [],      "rel",  ["parm:source"]),
    ("copy-dst",     "copy .k.src into {REF}",                         [],      "rel",  ["parm:destination"]),
    ("inc-dst",      "inc {REF} with 1",                               [],      "rel",  ["parm:destination"]),
    ("inc-src",      "inc .k.n from {REF}",                            [],      "rel",  ["parm:source"]),
    ("set-dst",      "set {REF} with 1",                               [],      "rel",  ["parm:destination"]),
    ("set-src",      "set .k.g from {REF}",                            [],      "rel",  ["parm:source"]),
    ("need-state",   "go me if {REF} == 1",                            [],      "rel",  ["parm:state"]),
    ("need-goal",    "go me if .k.s == {REF}",                         [],      "rel",  ["parm:goal"]),
    ("need-bool",    "go me if {REF}",                                 [],      "rel",  ["parm:state"]),
    ("need-updated", "go me if {REF} is updated",                      [],      "rel",  ["parm:share"]),
    ("bid-at",       "bid start wfb at {REF}",                         [],      "rel",  ["parm:source"]),
    ("do-via",       "do lit as dxa at enter via {REF}",               ["dxa"], "node", ["attr:inode"]),
    ("do-per",       "do lit as dxa at enter per v {REF}",             ["dxa"], "per",  ["attr:v"]),
    ("do-via-per",   "do lit as dxa at enter via cop per v {REF}",     ["dxa"], "per",  ["attr:v"]),
    ("do-for",       "do lit as dxa at enter for {REF}",               ["dxa"], "store", []),
    ("do-from",      "do lit as dxa at enter from {REF}",              ["dxa"], "store", []),
]

# via configuration: FV framer wfa, RV frame hra, NV nested frame hrb, CV clone (aux .. as tgc via), AV aux framer wfc,
# MV moot framer wfd
ICFGS = [
    ("I0", dict()),
    ("I1", dict(FV="top", RV="pop", NV="me.n")),
    ("I4", dict(CV="me.ca", AV="me.ac", MV="mm")),
    ("I2", dict(RV="pop", NV="sub")),
    ("I3", dict(FV=".top.", RV="me.q")),
    ("I5", dict(FV="top", RV="pop", NV="me.n", CV="cv", AV="av", MV="me.m")),
    ("I6", dict(FV="top.", CV=".cabs.", AV=".aabs", NV=".nabs.")),
]


def icfgs(tier):
    return ICFGS if tier == "thorough" else ICFGS[:3]


def via(cfg, k):
    return (" via " + cfg[k]) if cfg.get(k) else ""


def program(placement, cfg, line):
    def at(p):
        return ["  " + line] if (line and placement == p) else []
    src = ["house h",
           "init .k.src with value 1", "init .k.n with value 1", "init .k.s with value 1",
           "framer wfa be active first hra" + via(cfg, "FV"),
           "frame hra" + via(cfg, "RV")] + at("top") + [
           "  aux wfc",
           "  aux wfd as tgc" + via(cfg, "CV"),
           "frame hrb in hra" + via(cfg, "NV")] + at("nested") + [
           "framer wfb be active first hrc",
           "frame hrc",
           "framer wfc be aux first hrd" + via(cfg, "AV"),
           "frame hrd"] + at("aux") + [
           "framer wfd be moot first hre" + via(cfg, "MV"),
           "frame hre"] + at("clone") + [""]
    return "\n".join(src)


def rename_text(text, old, new):
    return text.replace(old, new)      # names are unique substrings of the script (checked in selftest)


def _rename_component(c, old, new):
    if c == old:
        return new
    if c.startswith(old) and c[len(old):].isdigit():      # insular clone tag: <original framer name><count>
        return new + c[len(old):]
    return c


def rename_path(path, old, new):
    return ".".join("_".join(_rename_component(c, old, new) for c in seg.split("_")) for seg in path.split("."))


def names_in(path):
    out = set()
    for seg in path.split("."):
        for c in seg.split("_"):
            if c in ENTITIES:
                out.add(c)
    return out


def through(form, slot, placement, cfgname):
    """expected set of entity names in the resolved path, or None if the form is not applicable / undefined here"""
    fid, ref, spec, flags = form
    ctx = CTX[placement]
    out = set()
    for s in spec:
        if s in ("F", "R", "P", "M"):
            if ctx[s] is None:
                return None
            out.update(ctx[s])
        elif s == "A":
            out.update(slot[2])
        else:
            out.add(s)
    return out


# ----------------------------------------------------------------------------- observation

def observe(real, addr, text, ticks=0):
    """-> (kind, refmap {key: name}, store names list, exc text); ticks > 0: run that many ticks first"""
    res = real.build_text(text, limit=30.0)
    if res.kind == "Watchdog":
        res = real.build_text(text, limit=120.0)
    if not res.ok:
        where = res.tb[-1].name if res.tb else ""
        return (res.kind, None, None, "%s %s in %s" % (res.kind, res.exc, where))
    house = res.houses[0]
    if ticks:
        rr = real.run(res.houses, tick=0.125, horizon=ticks, limit=60.0)
        if rr.outcome != "returned":
            return ("run-" + rr.outcome, None, None, "run %s %r" % (rr.outcome, rr.exc))
    refs = {}
    framers = addr.house_framers(house)
    for fi, fm in enumerate(framers):
        for ri, fr in enumerate(fm.frameNames.values()):
            for ln, ix, act in addr.frame_acts(fr):
                for k, v in addr.share_refs(act):
                    refs["%d/%d/%s/%s/%s" % (fi, ri, ln, ".".join(map(str, ix)), k)] = (v, act.human)
    names = sorted(s[0] for s in real.dump_share_tree(house.store))
    fnames = [fm.name for fm in framers]
    return ("ok", refs, names, fnames)


QUICK_VIA_SLOTS = ("put-dst", "copy-src", "need-state", "need-goal", "bid-at", "do-via", "do-per", "do-via-per", "do-for",
                   "do-from")


def cases(tier):
    """enumeration order: inode configuration, placement, slot, form (simplest first)"""
    out = []
    for cname, cfg in icfgs(tier):
        for placement in PLACEMENTS:
            for slot in SLOTS:
                if tier != "thorough" and cname != "I0" and slot[0] not in QUICK_VIA_SLOTS:
                    continue      # quick: the other 7 slots go through the same parseIndirect/resolvePath; all 17 slots at I0
                if tier != "thorough" and slot[0] not in QUICK_VIA_SLOTS and placement in ("nested", "aux"):
                    continue      # quick: the 7 secondary slots only in the first frame and in the clone
                if tier != "thorough" and ((cname == "I4" and placement in ("top", "nested")) or
                                           (cname == "I1" and placement == "aux")):
                    continue      # quick: these placements see no via of that configuration (identical to I0)
                for form in FORMS:
                    flags = form[3]
                    if slot[3] == "per" and "p" not in flags:
                        continue
                    out.append((cname, cfg, placement, slot, form))
    return out



# ----------------------------------------------------------------------------- frame-name collision family
#
# Frame names are per framer.  A moot framer cloned as an auxiliary may have frames named like the main frame it hangs
# under, or like a frame over that main frame.  The colliding frames carry different via inodes; inside the clone every
# non-absolute, non-framer-relative reference climbs both chains.  Renaming ONE of two colliding frames (it is a
# different entity from its namesake) must leave every path that does not go through it unchanged.

PLACEHOLDERS = ("MF", "OF", "CF", "CO")         # main frame, frame over it, clone's inner frame, clone's outer frame
DISTINCT = dict(MF="hra", OF="hrb", CF="hrd", CO="hre")
PATTERNS = [
    ("distinct", {}),
    ("CF=MF", dict(CF="MF")),
    ("CF=OF", dict(CF="OF")),
    ("CO=MF", dict(CO="MF")),
    ("CO=OF", dict(CO="OF")),
    ("CF=MF,CO=OF", dict(CF="MF", CO="OF")),
    ("CF=OF,CO=MF", dict(CF="OF", CO="MF")),
]
CVIAS = [("no-clone-via", "", ""), ("clone-me-via", " via me.ca", " via mm"), ("clone-rel-via", " via cv", " via me.m")]
FSTYLES = [("rel", dict(OF="oo", MF="alpha", CO="gamma", CF="beta")),
           ("me", dict(OF="oo", MF="me.alpha", CO="gamma", CF="me.beta"))]
CLINES = [
    ("put-plain",    "put 1 into pl.x"),
    ("put-of-root",  "put 1 into x of root"),
    ("put-of-me",    "put 1 into x of me"),
    ("put-me",       "put 1 into me.x"),
    ("need-plain",   "go me if pl.x == 1"),
    ("copy-plain",   "copy pl.x into .k.dst"),
    ("do-via",       "do lit as dxa at enter via cop"),
    ("do-via-me",    "do lit as dxa at enter via me.cop"),
    ("do-via-per",   "do lit as dxa at enter via cop per v pl.x"),
    ("do-per",       "do lit as dxa at enter per v pl.x"),
    ("do-per-me",    "do lit as dxa at enter per v me.x"),
    ("do-for",       "do lit as dxa at enter for pl.x"),
    ("put-of-frame", "put 1 into x of frame"),
    ("put-of-frame-main", "put 1 into x of frame main"),
    ("put-of-actor", "put 1 into x of actor"),
]
CPLACES = ("inner", "outer")
CENTITIES = ["wfa", "wfb", "wfd", TAG, ACTOR]


def collision_names(pattern):
    n = dict(DISTINCT)
    for k, src in pattern.items():
        n[k] = DISTINCT[src]
    return n


def collision_program(names, cvia, fstyle, place, line, mode="aux"):
    cv, mv = cvia[1], cvia[2]
    fv = fstyle[1]
    src = ["house h", "init .k.src with value 1"]
    if mode == "aux":
        src += ["framer wfa be active first %s via top" % names["MF"],
                "frame %s via %s" % (names["OF"], fv["OF"]),
                "frame %s in %s via %s" % (names["MF"], names["OF"], fv["MF"]),
                "  aux wfd as tgc" + cv]
    else:   # insular clone reared at run time under frame MF by an action of the host frame hrh
        src += ["framer wfa be active first hrh via top",
                "frame %s via %s" % (names["OF"], fv["OF"]),
                "frame hrh in %s via eta" % names["OF"],
                "  rear wfd as mine be aux in frame %s" % names["MF"],
                "  go %s" % names["MF"],
                "frame %s in %s via %s" % (names["MF"], names["OF"], fv["MF"])]
    src += ["framer wfb be active first hrc",
            "frame hrc",
            "framer wfd be moot first %s%s" % (names["CF"], mv),
            "frame %s via %s" % (names["CO"], fv["CO"])]
    if place == "outer":
        src.append("  " + line)
    src.append("frame %s in %s via %s" % (names["CF"], names["CO"], fv["CF"]))
    if place == "inner":
        src.append("  " + line)
    src.append("")
    return "\n".join(src)


RUN_TICKS = 3      # rear mode: start tick enters hrh (rear action), next tick takes `go MF`


def collision_cases(tier):
    out = []
    for mode in ("aux", "rear"):
        if mode == "aux":
            cvias = CVIAS if tier == "thorough" else CVIAS[:2]
            fstyles = FSTYLES
        else:      # `rear` has no via clause: only the moot's own via varies
            cvias = CVIAS[1:] if tier == "thorough" else CVIAS[1:2]
            fstyles = FSTYLES if tier == "thorough" else FSTYLES[:1]
        for pname, pattern in PATTERNS:
            for cvia in cvias:
                for fstyle in fstyles:
                    for place in CPLACES:
                        for cl in CLINES:
                            out.append((pname, pattern, cvia, fstyle, place, cl, mode))
    return out


def check_collision(real, addr, p, case):
    pname, pattern, cvia, fstyle, place, (lid, line), mode = case
    names = collision_names(pattern)
    text = collision_program(names, cvia, fstyle, place, line, mode)
    tag = "collide-%s|%s|%s|%s" % (mode, pname, lid, place)
    where = "%s frame-via-%s" % (cvia[0], fstyle[0])
    ticks = RUN_TICKS if mode == "rear" else 0
    orig = observe(real, addr, text, ticks)
    p.evaluations += 1
    rep = dict(script=text, line=line, pattern=pname, names=names, mode=mode, run_ticks=ticks,
               how="build with ioflo.base.building.Builder; read the Share/Node objects in the act's parms (actor attributes for "
                   "doers) and house.store share names; frames of wfd (cloned as wfa_tgc) and of wfa are different entities "
                   "even when they carry the same name")
    if orig[0] != "ok":
        p.violation("%s|refused" % tag, where, "`%s` in the clone could not be built: %s" % (line, orig[3]), rep)
        p.outcome("collision family: refused")
        return
    p.nontrivial(tag + "|" + where)
    p.outcome("collision family: built (%s)" % ("colliding names" if pattern else "distinct names"))
    mine = sorted(set(v[0] for v in orig[1].values() if v[1] == line))
    if not mine and lid != "do-for":      # a `for` source only shows in the store's share names
        p.violation("%s|no-reference-found" % tag, where, "line `%s` built but no resolved reference was found for it "
                    "(clone not created?)" % line, rep)
        return
    ents = [e for e in CENTITIES if not (mode == "rear" and e == TAG)]
    renamings = [("frame " + k, k) for k in PLACEHOLDERS] + [("name " + e, e) for e in ents]
    for label, what in renamings:
        if what in PLACEHOLDERS:
            n2 = dict(names)
            n2[what] = FRESH
            old = names[what]
            rtext = collision_program(n2, cvia, fstyle, place, line, mode)
        else:
            old = what
            rtext = rename_text(text, what, FRESH)
        ren = observe(real, addr, rtext, ticks)
        p.evaluations += 1
        rrep = dict(rep, renamed_script=rtext, rename=[label, old, FRESH])
        if ren[0] != "ok":
            p.violation("%s|build-outcome-depends-on-name" % tag, "%s rename %s" % (where, label),
                        "`%s`: builds, but after renaming %s (%s -> %s) the build is refused: %s" % (line, label, old, FRESH, ren[3]), rrep)
            continue
        # the renamed entity is the only bearer of FRESH: mapping FRESH back must give the original, whatever else is
        # called `old`
        back_refs = dict((k, rename_path(v[0], FRESH, old)) for k, v in ren[1].items())
        orig_refs = dict((k, v[0]) for k, v in orig[1].items())
        if back_refs != orig_refs:
            diff = []
            for k in sorted(set(back_refs) | set(orig_refs)):
                if back_refs.get(k) != orig_refs.get(k):
                    diff.append((k, orig_refs.get(k), ren[1].get(k, ("-",))[0]))
            k, o, g = diff[0]
            moved = FRESH not in g.split(" ", 1)[-1].replace("_", ".").split(".")
            p.violation("%s|renamed-map-differs" % tag, "%s rename %s" % (where, label),
                        "`%s`: renaming %s (%s -> %s): reference %s resolved to %s before and to %s after%s (%d references differ)" % (
                            line, label, old, FRESH, k, o, g,
                            " although it does not go through the renamed entity" if moved else "", len(diff)),
                        dict(rrep, differences=diff[:8]))
            continue
        back_names = sorted(rename_path(n, FRESH, old) for n in ren[2])
        if back_names != orig[2]:
            a, b = set(orig[2]), set(back_names)
            p.violation("%s|renamed-store-differs" % tag, "%s rename %s" % (where, label),
                        "`%s`: renaming %s (%s -> %s): store shares only before %s, only after %s" % (
                            line, label, old, FRESH, sorted(a - b)[:4], sorted(b - a)[:4]),
                        dict(rrep, only_before=sorted(a - b), only_after=sorted(b - a)))
            continue
        touched = any(FRESH in v[0].replace("_", ".").split(".") for v in ren[1].values())
        p.outcome("collision rename %s: %s" % (label.split()[0], "paths renamed" if touched else "no path affected"))
    if (len(p.keys) % 97) == 1:
        p.sample(dict(pattern=pname, line=line, place=place, via=where, resolved=mine[:3]))


# ----------------------------------------------------------------------------- insular clone tag family
#
# `aux X as mine` and `rear X as mine` name the clone <main framer>_<X><count>: the tag is derived from the ORIGINAL's
# name, counting only earlier insular clones of the same original in that main framer.  Two moots A and B are cloned
# into one main framer; renaming one of them (to a name that creates or breaks a prefix relation with the other, or to
# an unrelated name) must rename exactly its own tag component and leave the other clone's paths alone.

IPAIRS = [("prefix", "wfd", "wfder"), ("prefix2", "wfd", "wfdd"), ("unrelated", "wfd", "wfg")]
ISEQS = [("A,B", "AB"), ("B,A", "BA"), ("A,A,B", "AAB"), ("B,A,A", "BAA"), ("B,A,B", "BAB")]
ILINES = [
    ("of-framer",  "put 1 into x of framer"),
    ("of-frame",   "put 1 into x of frame"),
    ("of-actor",   "put 1 into x of actor"),
    ("do-default", "do lit as dxa at enter per v pl.x"),
    ("need-state", "go me if x of framer == 1"),
    ("plain",      "put 1 into pl.x"),
]
IMODES = ("mine", "rear")


def insular_program(a, b, seq, mode, line):
    who = dict(A=a, B=b)
    src = ["house h"]
    if mode == "mine":
        src += ["framer wfa be active first hra", "frame hra"]
        src += ["  aux %s as mine" % who[c] for c in seq]
    else:
        src += ["framer wfa be active first hrh", "frame hrh"]
        src += ["  rear %s as mine be aux in frame hrt" % who[c] for c in seq]
        src += ["  go hrt", "frame hrt"]
    src += ["framer wfb be active first hrc", "frame hrc",
            "framer %s be moot first hrd" % a, "frame hrd", "  " + line,
            "framer %s be moot first hre" % b, "frame hre", "  " + line, ""]
    return "\n".join(src)


def insular_new_names(x, other):
    """fresh names for x that create / break a prefix relation with the other original, and an unrelated one"""
    out = []
    for n in (other + "er", other[:2], other[:-1], x + "er", FRESH):
        if n not in out and n not in (x, other, "wfa", "wfb") and len(n) >= 2:
            out.append(n)
    return out


def insular_cases(tier):
    out = []
    seqs = ISEQS if tier == "thorough" else ISEQS[:4]
    for mode in IMODES:
        for pname, a, b in IPAIRS:
            for sname, seq in seqs:
                for il in ILINES:
                    if tier != "thorough" and mode == "rear" and il[0] in ("of-actor", "need-state"):
                        continue
                    out.append((mode, pname, a, b, sname, seq, il))
    return out


def check_insular(real, addr, p, case):
    mode, pname, a, b, sname, seq, (lid, line) = case
    ticks = RUN_TICKS if mode == "rear" else 0
    text = insular_program(a, b, seq, mode, line)
    tag = "insular-%s|%s|%s|%s" % (mode, pname, sname, lid)
    orig = observe(real, addr, text, ticks)
    p.evaluations += 1
    rep = dict(script=text, line=line, originals=[a, b], clone_order=sname, mode=mode, run_ticks=ticks,
               how="build with ioflo.base.building.Builder (rear: run 3 ticks); the insular clones are named "
                   "wfa_<original><count>; read the Share/Node objects in the clones' act parms and house.store share names")
    if orig[0] != "ok":
        p.violation("%s|refused" % tag, "%s,%s" % (a, b), "insular clones of %s and %s could not be built: %s" % (a, b, orig[3]), rep)
        return
    clones = [n for n in orig[3] if n.startswith("wfa_")]
    if len(clones) != len(seq):
        p.violation("%s|clones-missing" % tag, "%s,%s" % (a, b), "expected %d insular clones, found %r" % (len(seq), clones), rep)
        return
    p.nontrivial(tag)
    p.outcome("insular family: built (%s names)" % ("prefix-related" if pname != "unrelated" else "unrelated"))
    for which, old, other in (("A", a, b), ("B", b, a)):
        for new in insular_new_names(old, other):
            na, nb = (new, b) if which == "A" else (a, new)
            rtext = insular_program(na, nb, seq, mode, line)
            ren = observe(real, addr, rtext, ticks)
            p.evaluations += 1
            where = "%s,%s rename %s -> %s" % (a, b, old, new)
            rrep = dict(rep, renamed_script=rtext, rename=[old, new])
            if ren[0] != "ok":
                p.violation("%s|build-outcome-depends-on-name" % tag, where,
                            "originals %s,%s build, after renaming %s -> %s the build is refused: %s" % (a, b, old, new, ren[3]), rrep)
                continue
            exp_refs = dict((k, rename_path(v[0], old, new)) for k, v in orig[1].items())
            got_refs = dict((k, v[0]) for k, v in ren[1].items())
            if exp_refs != got_refs:
                diff = [(k, orig[1].get(k, ("-",))[0], exp_refs.get(k), got_refs.get(k))
                        for k in sorted(set(exp_refs) | set(got_refs)) if exp_refs.get(k) != got_refs.get(k)]
                k, o, e, g = diff[0]
                through = o != e
                p.violation("%s|renamed-map-differs" % tag, where,
                            "clones %s of originals %s,%s; renaming original %s -> %s: reference %s resolved to %s before, expected "
                            "%s after (%s), got %s (%d references differ)" % (
                                sname, a, b, old, new, k, o, e,
                                "its tag component renamed" if through else "it does not go through the renamed original", g, len(diff)),
                            dict(rrep, differences=diff[:8]))
                continue
            exp_names = sorted(rename_path(n, old, new) for n in orig[2])
            if exp_names != ren[2]:
                x, y = set(exp_names), set(ren[2])
                p.violation("%s|renamed-store-differs" % tag, where,
                            "renaming original %s -> %s: store shares missing %s, unexpected %s" % (old, new, sorted(x - y)[:4],
                                                                                                 sorted(y - x)[:4]),
                            dict(rrep, missing=sorted(x - y), unexpected=sorted(y - x)))
                continue
            rel = "prefix-related" if (new.startswith(other) or other.startswith(new)) else "unrelated"
            p.outcome("insular rename to a %s name" % rel)
    if (len(p.keys) % 53) == 1:
        p.sample(dict(originals=[a, b], clone_order=sname, mode=mode, line=line, clones=clones))


# ----------------------------------------------------------------------------- actor name family
#
# The only names that reach aiding.nameToPath are actor names: `do kind as name part ..` (name = capitalised parts
# joined) or, without `as`, the doer kind itself.  nameToPath is documented as: every upper case letter starts a new
# node (lower-cased), everything else is kept -- digits and underscores included.  Sibling doers whose names differ only
# in such characters must own different actor-relative nodes, and renaming one of them (to or from a name with a digit or
# underscore) must change exactly its own segments.

ACLAUSES = [
    ("default-inode", "per v pl.x",                          dict(inode="{B}.actor.{S}", v="{B}.actor.{S}.pl.x")),
    ("inline-full",   "per v framer.me.frame.me.actor.me.x", dict(inode="{B}.actor.{S}", v="{B}.actor.{S}.x")),
    ("inline-framer", "per v framer.me.actor.me.x",          dict(inode="{B}.actor.{S}", v="framer.wfa.actor.{S}.x")),
    ("via-of-actor",  "via x of actor",                      dict(inode="{B}.actor.{S}.x")),
    ("via-actor-me-per", "via nd of actor me per v z",       dict(inode="{B}.actor.{S}.nd", v="{B}.actor.{S}.nd.z")),
]
ABASE = "framer.wfa.frame.hra"
# (id, uses `as`, three sibling name tokens, renaming targets)
ATRIPLES = [
    ("digits",      True,  ["pump 1", "pump 2", "pump"],               ["pump 3", "valve", "valve 7", "valve_c", "pump 12"]),
    ("underscore",  True,  ["pump_a", "pump_b", "pump a"],             ["pump_c", "valve", "valve 7", "pump 1"]),
    ("camel-digit", True,  ["big mixer 2", "big mixer 3", "big mixer"], ["big mixer 4", "valve", "big valve 2", "big_mixer 2"]),
    ("inner-digit", True,  ["p1x", "p2x", "px"],                       ["p3x", "valve", "p_x", "x9"]),
    ("kind",        False, ["lit 2", "lit 3", "lit"],                  ["lit 4", "lit_b", "big lit 7"]),
]


def actor_name(token):
    return "".join(part.capitalize() for part in token.split())


def actor_program(uses_as, tokens, clause):
    src = ["house h", "framer wfa be active first hra", "frame hra"]
    for t in tokens:
        src.append("  do lit as %s at enter %s" % (t, clause) if uses_as else "  do %s at enter %s" % (t, clause))
    src += ["framer wfb be active first hrc", "frame hrc", ""]
    return "\n".join(src)


def actor_cases(tier):
    out = []
    for tid, uses_as, tokens, targets in ATRIPLES:
        for cl in ACLAUSES:
            out.append((tid, uses_as, tokens, targets, cl))
    return out


def actor_observe(real, addr, text, n):
    """-> (kind, [ {key: path} per doer in script order ], store names, error)"""
    res = real.build_text(text, limit=30.0)
    if res.kind == "Watchdog":
        res = real.build_text(text, limit=120.0)
    if not res.ok:
        return (res.kind, None, None, "%s %s" % (res.kind, res.exc))
    house = res.houses[0]
    fr = [fm for fm in house.framers if fm.name == "wfa"][0].frameNames["hra"]
    doers = []
    for ln, ix, act in addr.frame_acts(fr):
        if ln == "enacts":
            doers.append((addr.actor_name(act), dict((k.split(":")[1], v.split(" ", 1)[1]) for k, v in addr.share_refs(act))))
    names = sorted(x[0] for x in real.dump_share_tree(house.store))
    return ("ok", doers, names, "") if len(doers) == n else ("count", doers, names, "found %d doers" % len(doers))


def check_actor(real, addr, p, case):
    tid, uses_as, tokens, targets, (cid, clause, expect) = case
    text = actor_program(uses_as, tokens, clause)
    tag = "actor-name|%s|%s" % (tid, cid)
    rep = dict(script=text, clause=clause, doers=tokens,
               how="build with ioflo.base.building.Builder; each doer's Node/Share attributes (inode, v) hold the resolved "
                   "actor-relative paths; actor name -> path segments per aiding.nameToPath's docstring")
    orig = actor_observe(real, addr, text, len(tokens))
    p.evaluations += 1
    if orig[0] != "ok":
        p.violation("%s|refused" % tag, ",".join(tokens), "doers %s with `%s` could not be built: %s" % (tokens, clause, orig[3]), rep)
        return
    p.nontrivial(tag)
    p.outcome("actor names: built")

    def expected(token):
        segs = ".".join(addr.name_segments(actor_name(token)))
        return dict((k, v.replace("{B}", ABASE).replace("{S}", segs)) for k, v in expect.items())

    # exact: the segments of each doer's own name, all characters kept
    for token, (aname, refs) in zip(tokens, orig[1]):
        p.evaluations += 1
        exp = expected(token)
        if aname != actor_name(token) or refs != exp:
            p.violation("%s|actor-segments" % tag, "%s doer %s" % (",".join(tokens), token),
                        "`do .. %s .. %s`: actor %s resolves its actor-relative references to %r, the name's segments give %r" % (
                            token, clause, aname, refs, exp), dict(rep, actor=aname, resolved=refs, expected=exp))
            break
    # siblings with different names never share a node
    seen = {}
    for token, (aname, refs) in zip(tokens, orig[1]):
        for k, v in refs.items():
            if (k, v) in seen:
                p.violation("%s|siblings-aliased" % tag, ",".join(tokens),
                            "doers %s and %s resolve %s to the same path %s" % (seen[(k, v)], token, k, v), rep)
            seen[(k, v)] = token
    # every single renaming of one doer
    for i, old in enumerate(tokens):
        for new in targets:
            if new in tokens:
                continue
            t2 = list(tokens)
            t2[i] = new
            rtext = actor_program(uses_as, t2, clause)
            ren = actor_observe(real, addr, rtext, len(tokens))
            p.evaluations += 1
            where = "%s rename %s -> %s" % (",".join(tokens), old, new)
            rrep = dict(rep, renamed_script=rtext, rename=[old, new])
            if ren[0] != "ok":
                p.violation("%s|build-outcome-depends-on-name" % tag, where, "after renaming doer %s -> %s: %s" % (old, new, ren[3]), rrep)
                continue
            osegs = addr.name_segments(actor_name(old))
            nsegs = addr.name_segments(actor_name(new))

            def subst(path):
                parts = path.split(".")
                for j in range(len(parts)):
                    if parts[j] == "actor" and parts[j + 1:j + 1 + len(osegs)] == osegs:
                        return ".".join(parts[:j + 1] + nsegs + parts[j + 1 + len(osegs):])
                return path
            bad = None
            for j, ((an0, r0), (an1, r1)) in enumerate(zip(orig[1], ren[1])):
                exp = dict((k, subst(v)) for k, v in r0.items()) if j == i else r0
                if r1 != exp:
                    bad = (tokens[j], r0, exp, r1, j == i)
                    break
            if bad:
                p.violation("%s|renamed-map-differs" % tag, where,
                            "renaming doer %s -> %s: doer %s (%s) resolved to %r before, expected %r after, got %r" % (
                                old, new, bad[0], "the renamed one" if bad[4] else "not renamed", bad[1], bad[2], bad[3]),
                            dict(rrep, doer=bad[0], before=bad[1], expected=bad[2], after=bad[3]))
                continue
            p.outcome("actor rename %s digit/underscore" % ("involving" if any(c.isdigit() or c == "_" for c in old + new) else "without"))
    p.sample(dict(doers=tokens, clause=clause, resolved=[r for _, r in orig[1]]), limit=2)


# ----------------------------------------------------------------------------- two-level clone nesting, main-relative forms
#
# wfa clones moot wfd (the middle), whose frame clones (or rears) moot wfg (the leaf).  The leaf's main framer is itself a
# clone, so its name <wfa>_<tag> differs from its tag.  Every main-relative form written in the leaf must land on the node
# the middle clone addresses with `of framer me` / `of frame me`, and follow every renaming.

NFORMS = [
    ("of-framer-main",        "y of framer main",               "framer", False),
    ("dot-of-framer-main",    ".y of framer main",              "framer", False),
    ("in-framer-main",        "framer.main.y",                  "framer", True),
    ("of-frame-main",         "y of frame main",                "frame",  False),
    ("of-frame-main-framer-main", "y of frame main of framer main", "frame", False),
    ("in-frame-main",         "frame.main.y",                   "frame",  False),
    ("in-framer-frame-main",  "framer.main.frame.main.y",       "frame",  True),
]
NSLOTS = [
    ("put-dst",    "put 1 into {REF}",                       "parm:destination", False),
    ("copy-src",   "copy {REF} into .k.dst",                 "parm:source",      False),
    ("need-state", "go me if {REF} == 1",                    "parm:state",       False),
    ("do-via",     "do lit as dxa at enter via {REF}",       "attr:inode",       False),
    ("do-per",     "do lit as dxa at enter per v {REF}",     "attr:v",           True),
]
NTAGS = [("named-named", "tgm", "tgl", "aux"), ("insular-insular", "mine", "mine", "aux"),
         ("named-insular", "tgm", "mine", "aux"), ("insular-named", "mine", "tgl", "aux"),
         ("named-reared", "tgm", "mine", "rear"), ("insular-reared", "mine", "mine", "rear")]


def nested_program(t1, t2, inner, line):
    src = ["house h", "init .k.src with value 1",
           "framer wfa be active first hra", "frame hra", "  aux wfd as %s" % t1,
           "framer wfb be active first hrc", "frame hrc",
           "framer wfd be moot first hrd", "frame hrd"]
    if inner == "aux":
        src += ["  put 1 into y of framer", "  put 1 into y of frame", "  aux wfg as %s" % t2]
    else:
        src += ["  rear wfg as mine be aux in frame hrk", "  go hrk",
                "frame hrk", "  put 1 into y of framer", "  put 1 into y of frame"]
    src += ["framer wfg be moot first hre", "frame hre", "  " + line, ""]
    return "\n".join(src)


def nested_cases(tier):
    out = []
    for tg in NTAGS:
        for slot in NSLOTS:
            for form in NFORMS:
                if slot[3] and not form[3]:
                    continue
                out.append((tg, slot, form))
    return out


def check_nested(real, addr, p, case):
    (tname, t1, t2, inner), (sid, stext, skey, _), (fid, ref, kind, _) = case
    if sid == "do-via":
        ref = ref.replace("y", "yn")      # a node: must not collide with the middle clone's share y
    line = stext.replace("{REF}", ref)
    text = nested_program(t1, t2, inner, line)
    ticks = RUN_TICKS if inner == "rear" else 0
    tag = "nested|%s|%s|%s" % (tname, sid, fid)
    rep = dict(script=text, line=line, run_ticks=ticks,
               how="build with ioflo.base.building.Builder (reared leaf: run 3 ticks); wfa's clone of wfd is the leaf's main "
                   "framer; compare the leaf's reference with the middle clone's `y of framer` / `y of frame` destination")
    orig = observe(real, addr, text, ticks)
    p.evaluations += 1
    if orig[0] != "ok":
        p.violation("%s|refused" % tag, tname, "`%s` in a clone nested in a clone could not be built: %s" % (line, orig[3]), rep)
        return
    mine = [v[0].split(" ", 1)[1] for k, v in sorted(orig[1].items()) if v[1] == line and k.split("/")[-1] == skey]
    target_line = "put 1 into y of framer" if kind == "framer" else "put 1 into y of frame"
    target = [v[0].split(" ", 1)[1] for k, v in sorted(orig[1].items()) if v[1] == target_line]
    if len(mine) != 1 or len(target) != 1:
        p.violation("%s|no-reference-found" % tag, tname, "expected one leaf reference and one middle reference, found %r / %r" % (mine, target), rep)
        return
    p.nontrivial(tag)
    p.outcome("nested clones: built")
    p.evaluations += 1
    seen = mine[0][:-1] if (sid == "do-via" and mine[0].endswith(".yn")) else mine[0]
    if seen != target[0]:
        p.violation("%s|main-disagrees" % tag, tname,
                    "leaf `%s` resolves to %s, but its main framer (the middle clone) addresses `%s` as %s" % (
                        line, mine[0], target_line.split("into ")[1], target[0]),
                    dict(rep, leaf=mine[0], main=target[0]))
    ents = ["wfa", "wfd", "wfg", "hra", "hrd", "hre", ACTOR] + [t for t in (t1, t2) if t != "mine"] + (["hrk"] if inner == "rear" else [])
    for old in ents:
        rtext = rename_text(text, old, FRESH)
        ren = observe(real, addr, rtext, ticks)
        p.evaluations += 1
        where = "%s rename %s" % (tname, old)
        rrep = dict(rep, renamed_script=rtext, rename=[old, FRESH])
        if ren[0] != "ok":
            p.violation("%s|build-outcome-depends-on-name" % tag, where, "`%s`: after renaming %s the build is refused: %s" % (line, old, ren[3]), rrep)
            continue
        exp_refs = dict((k, rename_path(v[0], old, FRESH)) for k, v in orig[1].items())
        got_refs = dict((k, v[0]) for k, v in ren[1].items())
        if exp_refs != got_refs:
            diff = [(k, orig[1].get(k, ("-",))[0], exp_refs.get(k), got_refs.get(k))
                    for k in sorted(set(exp_refs) | set(got_refs)) if exp_refs.get(k) != got_refs.get(k)]
            k, o, e, g = diff[0]
            p.violation("%s|renamed-map-differs" % tag, where,
                        "`%s`: renaming %s -> %s: reference %s resolved to %s before, expected %s after, got %s" % (line, old, FRESH, k, o, e, g),
                        dict(rrep, differences=diff[:8]))
            continue
        exp_names = sorted(rename_path(n, old, FRESH) for n in orig[2])
        if exp_names != ren[2]:
            x, y = set(exp_names), set(ren[2])
            p.violation("%s|renamed-store-differs" % tag, where, "`%s`: renaming %s: store shares missing %s, unexpected %s" % (
                line, old, sorted(x - y)[:4], sorted(y - x)[:4]), dict(rrep, missing=sorted(x - y), unexpected=sorted(y - x)))
            continue
        p.outcome("nested rename: %s" % ("leaf path renamed" if rename_path(mine[0], old, FRESH) != mine[0] else "leaf path unaffected"))
    if (len(p.keys) % 29) == 1:
        p.sample(dict(tags=tname, line=line, leaf=mine[0], main=target[0]))


# ----------------------------------------------------------------------------- names with a keyword as prefix / suffix
#
# `me` and `main` are keywords of the relation grammar only as WHOLE names.  Framers, frames, clone tags and doers may be
# called mainline, maintain, remain, mean, meter, home ...: an explicitly named reference must resolve through exactly
# that name, in the inline forms (frame.<name>.x, framer.<name>.x, framer.<name>.frame.<name>.x, actor.<name>.x) as well
# as in the `of` forms, and renaming such an entity to or from such a name must change only its own segment.

KNAMES = ["mainline", "remain", "meter", "home", "maintain", "mean"]
KNEUTRAL = dict(FM="wfa", FF="hra", FG="hrb", FB="wfb", FC="hrc", MO="wfd", CR="hrd", CO="hre", TG="tgc", AC="dxa")
KROLES = ["FF", "FG", "CR", "CO", "FM", "FB", "FC", "MO", "TG", "AC"]
# (id, written reference, expected path) in terms of SELF (current framer name), CUR / OTH (current / other frame), FB, FC, AC
KFORMS = [
    ("in-frame-cur",         "frame.{CUR}.x",                     "framer.{SELF}.frame.{CUR}.x"),
    ("in-frame-other",       "frame.{OTH}.x",                     "framer.{SELF}.frame.{OTH}.x"),
    ("in-framer-self",       "framer.{SELF}.x",                   "framer.{SELF}.x"),
    ("in-framer-frame",      "framer.{SELF}.frame.{CUR}.x",       "framer.{SELF}.frame.{CUR}.x"),
    ("in-framer-frame-else", "framer.{FB}.frame.{FC}.x",          "framer.{FB}.frame.{FC}.x"),
    ("in-actor",             "actor.{AC}.x",                      "framer.{SELF}.frame.{CUR}.actor.{AC}.x"),
    ("of-frame-cur",         "x of frame {CUR}",                  "framer.{SELF}.frame.{CUR}.x"),
    ("of-frame-other",       "x of frame {OTH}",                  "framer.{SELF}.frame.{OTH}.x"),
    ("of-framer-self",       "x of framer {SELF}",                "framer.{SELF}.x"),
    ("of-frame-of-framer",   "x of frame {FC} of framer {FB}",    "framer.{FB}.frame.{FC}.x"),
    ("of-actor-name",        "x of actor {AC}",                   "framer.{SELF}.frame.{CUR}.actor.{AC}.x"),
]
KSLOTS = [
    ("put-dst",    "put 1 into {REF}",                        "parm:destination", False),
    ("do-via",     "do lit as {AC} at enter via {REF}",       "attr:inode",       False),
    ("do-per",     "do lit as {AC} at enter per v {REF}",     "attr:v",           True),     # literal ipath: framer... forms only
    ("need-state", "go me if {REF} == 1",                     "parm:state",       False),
]


def kw_context(names, place):
    c = dict(names)
    if place == "top":
        c.update(SELF=names["FM"], CUR=names["FF"], OTH=names["FG"])
    else:
        c.update(SELF="%s_%s" % (names["FM"], names["TG"]), CUR=names["CR"], OTH=names["CO"])
    return c


def kw_fill(t, c):
    for k, v in c.items():
        t = t.replace("{%s}" % k, v)
    return t


def kw_program(names, place, slot, form):
    c = kw_context(names, place)
    line = kw_fill(slot[1].replace("{REF}", form[1]), c)
    n = names
    src = ["house h", "framer %s be active first %s" % (n["FM"], n["FF"]), "frame %s" % n["FF"]]
    if place == "top":
        src.append("  " + line)
    src += ["  aux %s as %s" % (n["MO"], n["TG"]), "frame %s" % n["FG"],
            "framer %s be active first %s" % (n["FB"], n["FC"]), "frame %s" % n["FC"],
            "framer %s be moot first %s" % (n["MO"], n["CR"]), "frame %s" % n["CR"]]
    if place == "clone":
        src.append("  " + line)
    src += ["frame %s" % n["CO"], ""]
    return "\n".join(src), line, kw_fill(form[2], c)


def kw_cases(tier):
    out = []
    pool = KNAMES if tier == "thorough" else KNAMES[:4]
    slots = KSLOTS if tier == "thorough" else KSLOTS[:3]
    assigns = [("neutral", None, None)]
    for role in KROLES:
        for k in pool:
            if tier != "thorough" and role not in ("FF", "FG", "CR", "CO") and k not in ("mainline", "home"):
                continue      # quick: all four names on the frames, main* and *me on framers / tag / doer
            assigns.append((role + "=" + k, role, k))
    for aname, role, k in assigns:
        for place in ("clone", "top"):
            for slot in slots:
                for form in KFORMS:
                    if slot[3] and not form[1].startswith("framer."):
                        continue
                    out.append((aname, role, k, place, slot, form))
    return out


def check_kw(real, addr, p, case):
    aname, role, k, place, slot, form = case
    names = dict(KNEUTRAL)
    if role:
        names[role] = k
    text, line, want = kw_program(names, place, slot, form)
    tag = "keyword-affix|%s|%s|%s|%s" % (role or "neutral", slot[0], form[0], place)
    rep = dict(script=text, line=line, names=names,
               how="build with ioflo.base.building.Builder; the line's Share/Node parameter must be the written path with the "
                   "explicit names (me / main are keywords only as whole names)")
    orig = observe(real, addr, text)
    p.evaluations += 1
    if orig[0] != "ok":
        p.violation("%s|refused" % tag, aname, "`%s` (%s named %s) is refused: %s" % (line, role, k, orig[3]), rep)
        p.outcome("keyword-affix names: refused")
        return
    mine = [v[0].split(" ", 1)[1] for kk, v in sorted(orig[1].items()) if v[1] == line and kk.split("/")[-1] == slot[2]]
    p.nontrivial(tag + "|" + aname)
    p.outcome("keyword-affix names: built")
    p.evaluations += 1
    if mine != [want]:
        p.violation("%s|wrong-path" % tag, aname, "`%s` in framer %s resolves to %r, the written names give %s" % (
            line, kw_context(names, place)["SELF"], mine, want), dict(rep, resolved=mine, expected=want))
        return
    if not role:
        return
    pool = KNAMES
    targets = [FRESH, pool[(pool.index(k) + 1) % len(pool)]]
    for new in targets:
        n2 = dict(names)
        n2[role] = new
        rtext, rline, rwant = kw_program(n2, place, slot, form)
        ren = observe(real, addr, rtext)
        p.evaluations += 1
        where = "%s rename %s -> %s" % (aname, k, new)
        rrep = dict(rep, renamed_script=rtext, rename=[role, k, new])
        if ren[0] != "ok":
            p.violation("%s|build-outcome-depends-on-name" % tag, where, "`%s` builds, `%s` is refused: %s" % (line, rline, ren[3]), rrep)
            continue
        exp_refs = dict((kk, rename_path(v[0], k, new)) for kk, v in orig[1].items())
        got_refs = dict((kk, v[0]) for kk, v in ren[1].items())
        if exp_refs != got_refs:
            diff = [(kk, orig[1].get(kk, ("-",))[0], exp_refs.get(kk), got_refs.get(kk))
                    for kk in sorted(set(exp_refs) | set(got_refs)) if exp_refs.get(kk) != got_refs.get(kk)]
            kk, o, e, g = diff[0]
            p.violation("%s|renamed-map-differs" % tag, where,
                        "`%s`: renaming %s %s -> %s: reference %s resolved to %s before, expected %s after, got %s" % (
                            line, role, k, new, kk, o, e, g), dict(rrep, differences=diff[:8]))
            continue
        exp_names = sorted(rename_path(nm, k, new) for nm in orig[2])
        if exp_names != ren[2]:
            x, y = set(exp_names), set(ren[2])
            p.violation("%s|renamed-store-differs" % tag, where, "renaming %s %s -> %s: store shares missing %s, unexpected %s" % (
                role, k, new, sorted(x - y)[:4], sorted(y - x)[:4]), dict(rrep, missing=sorted(x - y), unexpected=sorted(y - x)))
            continue
        p.outcome("keyword-affix rename to %s" % ("a neutral name" if new == FRESH else "another keyword-affix name"))
    if (len(p.keys) % 131) == 1:
        p.sample(dict(names=aname, line=line, resolved=mine))


# ----------------------------------------------------------------------------- explicit names: lexically previous / own
#
# An explicit `of framer NAME` / `of frame NAME` always means the NAMED entity, also when NAME is the framer / frame that
# happens to be the builder's current one while the line is parsed: (a) a framer-level or frame-level `via .. of framer|frame
# <lexically previous one>` inode, (b) a moot framer naming itself (`x of framer <moot>`): every clone addresses the
# moot's own, shared, node -- not its private one.

XLINES = [("put-plain", "put 1 into pl.x", "parm:destination", "{I}.pl.x"),
          ("need-plain", "go me if pl.x == 1", "parm:state", "{I}.pl.x"),
          ("do-via-per", "do lit as dxa at enter via cop per v z", "attr:v", "{I}.cop.z")]
# (id, where the via goes, via text, where the line goes, expected inode prefix)
XVIAS = [
    ("framer-via-of-previous-framer", "FB", "nd of framer wfa",              "hrc", "framer.wfa.nd"),
    ("framer-via-of-later-framer",    "FB", "nd of framer wfg",              "hrc", "framer.wfg.nd"),
    ("framer-via-of-own-name",        "FB", "nd of framer wfb",              "hrc", "framer.wfb.nd"),
    ("framer-via-inline-previous",    "FB", "framer.wfa.nd",                 "hrc", "framer.wfa.nd"),
    ("frame-via-of-previous-frame",   "hrb", "nd of frame hra",              "hrb", "framer.wfa.frame.hra.nd"),
    ("frame-via-of-later-frame",      "hrb", "nd of frame hrz",              "hrb", "framer.wfa.frame.hrz.nd"),
    ("frame-via-of-own-name",         "hrb", "nd of frame hrb",              "hrb", "framer.wfa.frame.hrb.nd"),
    ("frame-via-of-previous-frame-and-framer", "hrb", "nd of frame hra of framer wfa", "hrb", "framer.wfa.frame.hra.nd"),
    ("first-frame-via-of-previous-framers-last-frame", "hrc", "nd of frame hrz", "hrc", "framer.wfb.frame.hrz.nd"),
    ("frame-via-of-frame-of-previous-framer", "hrc", "nd of frame hrz of framer wfa", "hrc", "framer.wfa.frame.hrz.nd"),
]
XENTS = ["wfa", "wfb", "wfg", "hra", "hrb", "hrz", "hrc", "hrg", ACTOR]


def xvia_program(where, viatext, lineframe, line):
    def v(k):
        return (" via " + viatext) if where == k else ""

    def at(k):
        return ["  " + line] if lineframe == k else []
    src = ["house h",
           "framer wfa be active first hra", "frame hra", "frame hrb" + v("hrb")] + at("hrb") + ["frame hrz",
           "framer wfb be active first hrc" + v("FB"), "frame hrc" + v("hrc")] + at("hrc") + [
           "framer wfg be active first hrg", "frame hrg", ""]
    return "\n".join(src)


# moot naming itself: (id, line, parameter key, expected path per clone; {C} = the clone's framer name)
XSELF = [
    ("of-framer-own",        "put 1 into x of framer wfd",                    "parm:destination", "framer.wfd.x"),
    ("need-of-framer-own",   "go me if x of framer wfd == 1",                 "parm:state",       "framer.wfd.x"),
    ("inline-framer-own",    "put 1 into framer.wfd.x",                       "parm:destination", "framer.wfd.x"),
    ("of-frame-of-framer-own", "put 1 into x of frame hrd of framer wfd",     "parm:destination", "framer.wfd.frame.hrd.x"),
    ("do-via-of-framer-own", "do lit as dxa at enter via nd of framer wfd",   "attr:inode",       "framer.wfd.nd"),
    ("of-frame-own (control: the clone's own frame)", "put 1 into x of frame hrd", "parm:destination", "framer.{C}.frame.hrd.x"),
]
XSELF_ENTS = ["wfa", "wfd", "hra", "hrd", "tgc", "tgk", ACTOR]


def xself_program(line):
    return "\n".join(["house h", "framer wfa be active first hra", "frame hra", "  aux wfd as tgc", "  aux wfd as mine",
                      "  aux wfd as tgk", "framer wfd be moot first hrd", "frame hrd", "  " + line, ""])


def explicit_cases(tier):
    out = [("via", xv, xl) for xv in XVIAS for xl in XLINES]
    out += [("self", xs, None) for xs in XSELF]
    return out


def check_explicit(real, addr, p, case):
    kind, a, b = case
    if kind == "via":
        vid, where, viatext, lineframe, prefix = a
        lid, line, key, tail = b
        text = xvia_program(where, viatext, lineframe, line)
        tag = "explicit-via|%s|%s" % (vid, lid)
        want = {None: tail.replace("{I}", prefix)}
        ents = XENTS
    else:
        sid, line, key, path = a
        text = xself_program(line)
        tag = "explicit-self|%s" % sid
        want = dict((c, path.replace("{C}", c)) for c in ("wfa_tgc", "wfa_wfd1", "wfa_tgk"))
        ents = XSELF_ENTS
    rep = dict(script=text, line=line,
               how="build with ioflo.base.building.Builder; an explicit `of framer NAME` / `of frame NAME` names that entity "
                   "whatever framer / frame the builder is in when the line is parsed")
    orig = observe(real, addr, text)
    p.evaluations += 1
    if orig[0] != "ok":
        p.violation("%s|refused" % tag, line, "could not be built: %s" % orig[3], rep)
        return
    p.nontrivial(tag)
    p.outcome("explicit names: built")
    got = {}
    for kk, v in sorted(orig[1].items()):
        if v[1] == line and kk.split("/")[-1] == key:
            fi = int(kk.split("/")[0])
            got[orig[3][fi] if kind == "self" else None] = v[0].split(" ", 1)[1]
    p.evaluations += 1
    if got != want:
        p.violation("%s|wrong-path" % tag, line,
                    "`%s`%s resolves to %r, the explicit names give %r" % (
                        line, (" under `via %s`" % a[2]) if kind == "via" else " in the clones of moot wfd", got, want),
                    dict(rep, resolved=got, expected=want))
    for old in ents:
        rtext = rename_text(text, old, FRESH)
        ren = observe(real, addr, rtext)
        p.evaluations += 1
        where_ = "rename %s" % old
        rrep = dict(rep, renamed_script=rtext, rename=[old, FRESH])
        if ren[0] != "ok":
            p.violation("%s|build-outcome-depends-on-name" % tag, where_, "after renaming %s the build is refused: %s" % (old, ren[3]), rrep)
            continue
        exp_refs = dict((kk, rename_path(v[0], old, FRESH)) for kk, v in orig[1].items())
        got_refs = dict((kk, v[0]) for kk, v in ren[1].items())
        if exp_refs != got_refs:
            diff = [(kk, orig[1].get(kk, ("-",))[0], exp_refs.get(kk), got_refs.get(kk))
                    for kk in sorted(set(exp_refs) | set(got_refs)) if exp_refs.get(kk) != got_refs.get(kk)]
            kk, o, e, g = diff[0]
            p.violation("%s|renamed-map-differs" % tag, where_,
                        "`%s`: renaming %s -> %s: reference %s resolved to %s before, expected %s after, got %s" % (
                            line, old, FRESH, kk, o, e, g), dict(rrep, differences=diff[:8]))
            continue
        exp_names = sorted(rename_path(nm, old, FRESH) for nm in orig[2])
        if exp_names != ren[2]:
            x, y = set(exp_names), set(ren[2])
            p.violation("%s|renamed-store-differs" % tag, where_, "renaming %s: store shares missing %s, unexpected %s" % (
                old, sorted(x - y)[:4], sorted(y - x)[:4]), dict(rrep, missing=sorted(x - y), unexpected=sorted(y - x)))
            continue
        p.outcome("explicit names rename: %s" % ("line path renamed" if any(rename_path(v, old, FRESH) != v for v in got.values())
                                                 else "line path unaffected"))
    p.sample(dict(line=line, via=(a[2] if kind == "via" else None), resolved=got), limit=2)


# ----------------------------------------------------------------------------- clone under an anchored main-frame inode
#
# A main framer with its own via (`base`) holds a frame whose inode -- or that of a frame over it -- is ANCHORED: absolute
# (`.abs.`) or framer-relative (`spot of framer me`, `spot of framer`, `spot of framer wfa`).  A clone hung under that frame
# (empty / relative / me-relative via) inherits the context: an anchored inode ends the walk, the main framer's own via is
# NOT put in front of it (resolvePath: "absolute: fparts[0] == '', framer relative: fparts[0] == 'framer'").

AVIAS = [("absolute", ".abs.", ["abs"]), ("of-framer-me", "spot of framer me", None), ("of-framer", "spot of framer", None),
         ("of-framer-name", "spot of framer wfa", ["framer", "wfa", "spot"]), ("relative (control)", "rel", ["base", "rel"])]
ACVIAS = [("no-clone-via", "", []), ("relative-clone-via", "cv", ["cv"]), ("me-clone-via", "me.ca", None)]
ALINES = [("put-plain", "put 1 into pl.x", "parm:destination", ["pl", "x"]),
          ("put-of-me", "put 1 into x of me", "parm:destination", ["x"]),
          ("do-per", "do lit as dxa at enter per v z", "attr:v", ["z"]),
          ("do-via-per", "do lit as dxa at enter via cop per v z", "attr:v", ["cop", "z"])]
AENTS = ["wfa", "wfd", "tgc", "hra", "hro", "hrd", ACTOR]


def anchored_program(rv, cv, over, line):
    src = ["house h", "framer wfa be active first hra via base"]
    if over:
        src += ["frame hro via " + rv, "frame hra in hro via sub"]
    else:
        src += ["frame hra via " + rv]
    src += ["  aux wfd as tgc" + ((" via " + cv) if cv else ""), "framer wfd be moot first hrd", "frame hrd", "  " + line, ""]
    return "\n".join(src)


def anchored_cases(tier):
    return [(av, over, cv, al) for av in AVIAS for over in (False, True) for cv in ACVIAS for al in ALINES]


def check_anchored(real, addr, p, case):
    (aid, rv, anchor), over, (cid, cv, cvparts), (lid, line, key, tail) = case
    text = anchored_program(rv, cv, over, line)
    tag = "anchored|%s|%s|%s|%s" % (aid, "over-frame" if over else "main-frame", cid, lid)
    rep = dict(script=text, line=line,
               how="build with ioflo.base.building.Builder; the clone wfa_tgc's act parameter / doer attribute holds the resolved "
                   "Share; an absolute or framer-relative inode on the main frame (or a frame over it) anchors the inherited path")
    orig = observe(real, addr, text)
    p.evaluations += 1
    if orig[0] != "ok":
        p.violation("%s|refused" % tag, line, "could not be built: %s" % orig[3], rep)
        return
    mine = [v[0].split(" ", 1)[1] for kk, v in sorted(orig[1].items()) if v[1] == line and kk.split("/")[-1] == key]
    if len(mine) != 1:
        p.violation("%s|no-reference-found" % tag, line, "expected one reference of the clone, found %r" % (mine,), rep)
        return
    p.nontrivial(tag)
    p.outcome("anchored inode: built")
    path = mine[0]
    segs = path.split(".")
    p.evaluations += 1
    # every resolved path is fully resolved: no empty segment, no relation keyword left unsubstituted
    bad = [i for i, sg in enumerate(segs) if sg == "" or (sg in ("me", "main") and i and segs[i - 1] in ("framer", "frame", "actor"))]
    if bad:
        p.violation("%s|unresolved-segments" % tag, line,
                    "`%s` in clone wfa_tgc resolves to %s: empty segment or unsubstituted me/main keyword" % (line, path),
                    dict(rep, resolved=path))
    else:
        if cvparts is None:                      # me-relative clone via: directly under the main framer's inode
            wants = [["base", "ca"] + tail]
        else:
            mid = (["sub"] if over else []) + cvparts + tail
            if anchor is None:                   # `of framer [me]` seen from the clone: the docs do not say whose `me`
                wants = [["framer", "wfa_tgc", "spot"] + mid, ["framer", "wfa", "spot"] + mid]
            else:
                wants = [anchor + mid]
        if segs not in wants:
            p.violation("%s|wrong-path" % tag, line,
                        "`%s` in clone wfa_tgc (main frame via `%s`%s, clone via `%s`) resolves to %s, expected %s" % (
                            line, rv, " on the frame over it" if over else "", cv, path, " or ".join(".".join(w) for w in wants)),
                        dict(rep, resolved=path, expected=[".".join(w) for w in wants]))
    for old in AENTS:
        if old == "hro" and not over:
            continue
        rtext = rename_text(text, old, FRESH)
        ren = observe(real, addr, rtext)
        p.evaluations += 1
        where_ = "rename %s" % old
        rrep = dict(rep, renamed_script=rtext, rename=[old, FRESH])
        if ren[0] != "ok":
            p.violation("%s|build-outcome-depends-on-name" % tag, where_, "after renaming %s the build is refused: %s" % (old, ren[3]), rrep)
            continue
        exp_refs = dict((kk, rename_path(v[0], old, FRESH)) for kk, v in orig[1].items())
        got_refs = dict((kk, v[0]) for kk, v in ren[1].items())
        if exp_refs != got_refs:
            diff = [(kk, orig[1].get(kk, ("-",))[0], exp_refs.get(kk), got_refs.get(kk))
                    for kk in sorted(set(exp_refs) | set(got_refs)) if exp_refs.get(kk) != got_refs.get(kk)]
            kk, o, e, g = diff[0]
            p.violation("%s|renamed-map-differs" % tag, where_,
                        "`%s`: renaming %s -> %s: reference %s resolved to %s before, expected %s after, got %s" % (
                            line, old, FRESH, kk, o, e, g), dict(rrep, differences=diff[:8]))
            continue
        exp_names = sorted(rename_path(nm, old, FRESH) for nm in orig[2])
        if exp_names != ren[2]:
            x, y = set(exp_names), set(ren[2])
            p.violation("%s|renamed-store-differs" % tag, where_, "renaming %s: store shares missing %s, unexpected %s" % (
                old, sorted(x - y)[:4], sorted(y - x)[:4]), dict(rrep, missing=sorted(x - y), unexpected=sorted(y - x)))
            continue
        p.outcome("anchored rename: %s" % ("line path renamed" if rename_path(path, old, FRESH) != path else "line path unaffected"))
    if (len(p.keys) % 37) == 1:
        p.sample(dict(main_frame_via=rv, over=over, clone_via=cv, line=line, resolved=path))


BASE = {}


def baseline(real, addr, cname, cfg, placement):
    key = (cname, placement)
    if key not in BASE:
        BASE[key] = observe(real, addr, program(placement, cfg, None))
    return BASE[key]


def check_case(real, addr, p, case):
    cname, cfg, placement, slot, form = case
    ref = form[1].replace("{SELF}", CTX[placement]["SELF"])
    line = slot[1].replace("{REF}", ref)
    text = program(placement, cfg, line)
    tag = "%s|%s|%s" % (slot[0], form[0], placement)
    where = "%s %s" % (cname, ",".join("%s=%s" % kv for kv in sorted(cfg.items())) or "no-via")
    orig = observe(real, addr, text)
    p.evaluations += 1
    want = through(form, slot, placement, cname)
    rep = dict(script=text, line=line, placement=placement, via=cfg,
               how="build with ioflo.base.building.Builder; read the Share/Node objects in the act's parms (actor attributes for "
                   "doers) and house.store share names")
    if orig[0] != "ok":
        # a refused program: the refusal must not depend on names either
        p.outcome("refused: %s" % orig[0])
        if want is not None and "m" not in form[3]:
            p.notes["refused although the form is applicable: %s" % tag] += 1
    else:
        p.nontrivial(tag + "|" + cname)
        p.outcome("built")
        base = baseline(real, addr, cname, cfg, placement)
        if base[0] != "ok":
            raise core.BrokenCheck("baseline program does not build: %r\n%s" % (base[3], program(placement, cfg, None)))
        # ---- oracle 2: the names the written form resolves through
        targets = []
        if slot[3] == "store":
            newnames = [n for n in orig[2] if n not in set(base[2]) and not n.startswith("k.")]
            targets = [("store", n) for n in newnames]
        else:
            for key, (v, human) in orig[1].items():
                if human == line and key.split("/")[-1] in slot[4]:
                    targets.append((key, v.split(" ", 1)[1]))
        if not targets:
            p.violation("%s|no-reference-found" % tag, where, "line `%s` built but no resolved reference was found for it" % line, rep)
        if want is not None:
            for key, path in targets:
                got = names_in(path)
                exp = set(want)
                if "d" in form[3] and slot[0] in ("do-per", "do-for"):
                    # relative ioinit path (`per` value / `for` source): the doer's inode is prepended; with no via anywhere
                    # the documented default inode framer.me.frame.me.actor.me applies
                    if cname == "I0":
                        exp = set(CTX[placement]["F"]) | set(CTX[placement]["R"]) | set(slot[2])
                    elif path.startswith("framer."):
                        continue
                p.evaluations += 1
                if got != exp:
                    p.violation("%s|through-names" % tag, where,
                                "`%s` in %s (framer %s frame %s) resolved to %s: entity names in the path %s, the written form resolves "
                                "through %s" % (line, placement, "_".join(CTX[placement]["F"]), CTX[placement]["R"][0], path,
                                                sorted(got), sorted(exp)),
                                dict(rep, resolved=path, names_found=sorted(got), names_expected=sorted(exp)))
                    break
    # ---- oracle 1: every single renaming
    for old in ENTITIES:
        rtext = rename_text(text, old, FRESH)
        ren = observe(real, addr, rtext)
        p.evaluations += 1
        rrep = dict(rep, renamed_script=rtext, rename=[old, FRESH])
        if (orig[0] == "ok") != (ren[0] == "ok") or (orig[0] != "ok" and orig[0] != ren[0]):
            p.violation("%s|build-outcome-depends-on-name" % tag, "%s rename %s" % (where, old),
                        "`%s`: original build %s (%s), after renaming %s -> %s build %s (%s)" % (
                            line, orig[0], orig[3] if orig[0] != "ok" else "", old, FRESH, ren[0], ren[3] if ren[0] != "ok" else ""),
                        rrep)
            continue
        if orig[0] != "ok":
            continue
        exp_refs = dict((k, rename_path(v[0], old, FRESH)) for k, v in orig[1].items())
        got_refs = dict((k, v[0]) for k, v in ren[1].items())
        if exp_refs != got_refs:
            diff = []
            for k in sorted(set(exp_refs) | set(got_refs)):
                if exp_refs.get(k) != got_refs.get(k):
                    diff.append((k, orig[1].get(k, ("-",))[0], exp_refs.get(k), got_refs.get(k)))
            k, o, e, g = diff[0]
            p.violation("%s|renamed-map-differs" % tag, "%s rename %s" % (where, old),
                        "`%s`: renaming %s -> %s: reference %s resolved to %s before, expected %s after, got %s (%d references differ)" % (
                            line, old, FRESH, k, o, e, g, len(diff)), dict(rrep, differences=diff[:8]))
            continue
        exp_names = sorted(rename_path(n, old, FRESH) for n in orig[2])
        if exp_names != ren[2]:
            a, b = set(exp_names), set(ren[2])
            p.violation("%s|renamed-store-differs" % tag, "%s rename %s" % (where, old),
                        "`%s`: renaming %s -> %s: store shares missing %s, unexpected %s" % (
                            line, old, FRESH, sorted(a - b)[:4], sorted(b - a)[:4]),
                        dict(rrep, missing=sorted(a - b), unexpected=sorted(b - a)))
            continue
        changed = [k for k, v in orig[1].items() if exp_refs[k] != v[0]]
        p.outcome("rename %s: %s" % ("framer" if old in FRAMERS else "frame" if old in FRAMES else "tag" if old == TAG else "actor",
                                     "paths renamed" if changed else "no path affected"))
    if orig[0] == "ok" and (len(p.keys) % 211) == 1:
        p.sample(dict(line=line, placement=placement, via=cname,
                      resolved=sorted(set(v[0] for v in orig[1].values() if v[1] == line))[:4]))


CHUNK = 60


def work(arg):
    kind, start, stop, tier = arg
    core.use_repo()
    from mc.flo import real, addr
    p = core.Part()
    real.build_text(program("top", {}, None), limit=60.0)
    if kind == "main":
        for case in cases(tier)[start:stop]:
            check_case(real, addr, p, case)
    elif kind == "coll":
        for case in collision_cases(tier)[start:stop]:
            check_collision(real, addr, p, case)
    elif kind == "insular":
        for case in insular_cases(tier)[start:stop]:
            check_insular(real, addr, p, case)
    elif kind == "actor":
        for case in actor_cases(tier)[start:stop]:
            check_actor(real, addr, p, case)
    elif kind == "nested":
        for case in nested_cases(tier)[start:stop]:
            check_nested(real, addr, p, case)
    elif kind == "kw":
        for case in kw_cases(tier)[start:stop]:
            check_kw(real, addr, p, case)
    elif kind == "explicit":
        for case in explicit_cases(tier)[start:stop]:
            check_explicit(real, addr, p, case)
    else:
        for case in anchored_cases(tier)[start:stop]:
            check_anchored(real, addr, p, case)
    return p


def selftest():
    text = program("top", ICFGS[5][1], "put 1 into x of framer")
    for n in ENTITIES + [FRESH]:
        others = [m for m in ENTITIES + [FRESH] if m != n]
        if any(n in m for m in others):
            raise core.BrokenCheck("entity names must not contain each other")
    for n in ENTITIES:
        stripped = text
        for form in FORMS:
            stripped += " " + form[1]
        for slot in SLOTS:
            stripped += " " + slot[1]
        import re
        for m in re.finditer(n, stripped):
            a, b = m.start(), m.end()
            left = stripped[a - 1] if a else " "
            right = stripped[b] if b < len(stripped) else " "
            if left.isalnum() or right.isalnum():
                raise core.BrokenCheck("name %s occurs inside another word" % n)
    if FRESH in text:
        raise core.BrokenCheck("fresh name occurs in the script")
    if rename_path("framer.wfa_tgc.frame.hre.x", "wfa", "zzq") != "framer.zzq_tgc.frame.hre.x" or \
            rename_path("framer.wfab.wfa.x_wfa", "wfa", "q") != "framer.wfab.q.x_q":
        raise core.BrokenCheck("rename_path self-test")
    if names_in("framer.wfa_tgc.frame.hre.actor.dxa.x") != {"wfa", "tgc", "hre", "dxa"}:
        raise core.BrokenCheck("names_in self-test")


def replay(path):
    """./vcheck C13 --replay <file>: rebuild the stored program under all renamings; exit 1 if it still fails"""
    import json
    rec = json.load(open(path))
    script = rec["replay"].get("script")
    core.use_repo()
    from mc.flo import real, addr
    p = core.Part()
    hit = None
    for case in cases("thorough"):
        cname, cfg, placement, slot, form = case
        line = slot[1].replace("{REF}", form[1].replace("{SELF}", CTX[placement]["SELF"]))
        if program(placement, cfg, line) == script:
            hit = case
            break
    if hit is None:
        for case in collision_cases("thorough"):
            pname, pattern, cvia, fstyle, place, (lid, line), mode = case
            if collision_program(collision_names(pattern), cvia, fstyle, place, line, mode) == script:
                hit = case
                break
        if hit is None:
            for case in insular_cases("thorough"):
                if insular_program(case[2], case[3], case[5], case[0], case[6][1]) == script:
                    check_insular(real, addr, p, case)
                    hit = "insular"
                    break
        if hit is None:
            for case in nested_cases("thorough"):
                r = case[2][1].replace("y", "yn") if case[1][0] == "do-via" else case[2][1]
                if nested_program(case[0][1], case[0][2], case[0][3], case[1][1].replace("{REF}", r)) == script:
                    check_nested(real, addr, p, case)
                    hit = "insular"
                    break
        if hit is None:
            for case in anchored_cases("thorough"):
                if anchored_program(case[0][1], case[2][1], case[1], case[3][1]) == script:
                    check_anchored(real, addr, p, case)
                    hit = "insular"
                    break
        if hit is None:
            for case in explicit_cases("thorough"):
                t = xvia_program(case[1][1], case[1][2], case[1][3], case[2][1]) if case[0] == "via" else xself_program(case[1][1])
                if t == script:
                    check_explicit(real, addr, p, case)
                    hit = "insular"
                    break
        if hit is None:
            for case in kw_cases("thorough"):
                nm = dict(KNEUTRAL)
                if case[1]:
                    nm[case[1]] = case[2]
                if kw_program(nm, case[3], case[4], case[5])[0] == script:
                    check_kw(real, addr, p, case)
                    hit = "insular"
                    break
        if hit is None:
            for case in actor_cases("thorough"):
                if actor_program(case[1], case[2], case[4][1]) == script:
                    check_actor(real, addr, p, case)
                    hit = "insular"
                    break
        if hit is None:
            print("replay: no program of the family has this script")
            return 2
        if hit != "insular":
            check_collision(real, addr, p, hit)
    else:
        check_case(real, addr, p, hit)
    print(script)
    for g, ex, what, rep in p.violations:
        print("REPRODUCED %s|%s\n  %s" % (g, ex, what))
    if not p.violations:
        print("not reproduced: references resolve through the written names and follow every renaming")
    return 1 if p.violations else 0


def run():
    import os
    if os.environ.get("VERIF_REPLAY"):
        return replay(os.environ["VERIF_REPLAY"])
    selftest()
    ck = core.Check("C13", "exploration", META["technique"])
    cs = cases(core.TIER)
    cc = collision_cases(core.TIER)
    items = [("main", i, i + CHUNK, core.TIER) for i in range(0, len(cs), CHUNK)]
    items += [("coll", i, i + CHUNK, core.TIER) for i in range(0, len(cc), CHUNK)]
    ci = insular_cases(core.TIER)
    items += [("insular", i, i + CHUNK, core.TIER) for i in range(0, len(ci), CHUNK)]
    ca = actor_cases(core.TIER)
    items += [("actor", i, i + 5, core.TIER) for i in range(0, len(ca), 5)]
    cn = nested_cases(core.TIER)
    items += [("nested", i, i + 30, core.TIER) for i in range(0, len(cn), 30)]
    ck_ = kw_cases(core.TIER)
    items += [("kw", i, i + CHUNK, core.TIER) for i in range(0, len(ck_), CHUNK)]
    cx = explicit_cases(core.TIER)
    items += [("explicit", i, i + 6, core.TIER) for i in range(0, len(cx), 6)]
    cv_ = anchored_cases(core.TIER)
    items += [("anchored", i, i + 12, core.TIER) for i in range(0, len(cv_), 12)]
    ck.merge(core.pmap(work, items))
    ck.coverage_extra = dict(programs=len(cs), renamings_per_program=len(ENTITIES), collision_programs=len(cc), insular_programs=len(ci), actor_name_programs=len(ca), nested_clone_programs=len(cn), keyword_affix_programs=len(ck_), explicit_name_programs=len(cx), anchored_inode_programs=len(cv_),
                             anchored_main_frame_vias=[x[1] for x in AVIAS], anchored_clone_vias=[x[1] for x in ACVIAS],
                             explicit_via_forms=[x[0] for x in XVIAS], explicit_self_forms=[x[0] for x in XSELF],
                             keyword_affix_names=KNAMES, keyword_affix_roles=KROLES,
                             nested_clone_tags=[t[0] for t in NTAGS], nested_clone_forms=[f[1] for f in NFORMS],
                             actor_name_triples=[(t[0], t[2]) for t in ATRIPLES], actor_name_clauses=[c[0] for c in ACLAUSES],
                             insular_name_pairs=[x[:3] for x in IPAIRS], insular_clone_orders=[x[0] for x in ISEQS],
                             collision_patterns=[x[0] for x in PATTERNS], collision_lines=[x[0] for x in CLINES],
                             collision_renamings_per_program=len(PLACEHOLDERS) + len(CENTITIES), forms=[f[0] for f in FORMS],
                             slots=[s[0] for s in SLOTS], placements=PLACEMENTS, via_configurations=[c[0] for c in icfgs(core.TIER)])
    ck.assumptions = [
        "frames of different framers that carry the same name are different entities: renaming one of them renames its "
        "declaration, its `in`/`first`/`rear .. in frame` uses inside its own framer and nothing else",
        "an insular clone's tag is <original framer name><count>; renaming the original renames that component",
        "a named clone's framer name is <main framer>_<tag>; both components count as names the clone's framer-relative references "
        "resolve through, and either renaming substitutes its component",
        "entity names are lower-case single words, so nameToPath(actor name) is the lower-cased name and every occurrence of a name "
        "as a path segment comes from name substitution",
        "forms using `main` are only defined where a main frame exists at resolve time (named clones); elsewhere the build refuses "
        "them and only the name-independence of the refusal is checked",
        "via inodes are name-free except in the explicit-name and anchored-inode families; for a relative `per` path under some "
        "via only renaming invariance is checked",
        "`spot of framer me` on a main frame, seen from a clone hung under it: the documentation does not say whose `me`; both the "
        "clone's and the main framer's name are accepted as the anchor (ioflo substitutes the clone's)",
        "a refused program (ParseError / ResolveError / internal exception) must be refused with the same exception class after "
        "any renaming",
    ]
    return ck.finish(
        rule="every (via configuration, placement, verb slot, reference form) program (%d) x the unrenamed build + 11 single "
             "renamings, plus every frame-name collision program (%d: named aux clone / run-time reared insular clone x 7 name "
             "patterns x clone/moot via x frame via style x placement x 15 lines) x 9 (8 reared) single renamings; non-trivial = programs that build and carry a resolved reference"
             % (len(cs), len(cc)),
        exhaustive=True)


if __name__ == "__main__":
    core.main(run)
