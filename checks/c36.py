"""C36 stream stacks deliver every queued packet to the peer intact.  Engine C (net doubles):
deviation-bounded DFS over service interleavings and socket answers of a TcpServerStack /
TcpClientStack pair."""
META = dict(
    engine="net", level="model_checking",
    technique="stateless deviation-bounded DFS over environment schedules (which stack is serviced next, partial / "
              "blocked sends, short / delayed receives) of real TcpServerStack + TcpClientStack over socket doubles; "
              "stream invariants checked after every service step",
    text="A real TcpServerStack and a real TcpClientStack are connected over socket doubles; 0-3 packets of 1-3 distinct "
         "bytes are queued in each direction (quick: 15 shape pairs, thorough: 120). The driver then services the two stacks "
         "step by step with the same calls serviceAll() makes, except that it drains .rxPkts itself; which stack is serviced "
         "next (default: alternate) and every answer of the two connection sockets (send: any partial count, would-block; "
         "recv: any shorter chunk, would-block although bytes wait) are choice points; all schedules with at most 2 (quick) / "
         "3 (thorough) deviations are enumerated. After every step: bytes accepted by each socket are a prefix of that "
         "side's queued packets in order; the received packets of a connection concatenate to a prefix of the bytes its "
         "socket returned; nothing raises. At the horizon everything queued has been accepted by the sockets, taken by the "
         "peer stack and delivered in packets whose concatenation equals the received bytes.",
    note="Trusts the doubles; uses the base packeting.Packet (a packet = whatever bytes are in the buffer), so packet "
         "boundaries on receive are not compared, only that every received byte is in exactly one packet, in order. Loopback "
         "sockets are not used: the kernel would own the schedule.",
)
from mc import core, net

PORT = 7000
ALPHA = b"abcdefghi"
BETA = b"ABCDEFGHI"
QUICK_SHAPES = [(), (2,), (1, 2), (3, 1, 2)]
BOUND = dict(quick=2, thorough=3)

FSM = None
M = None


def init():
    global FSM, M
    if FSM is not None:
        return
    core.use_repo()
    from ioflo.aio.proto import stacking, packeting
    FSM = net.FakeSocketModule().install()
    M = dict(stacking=stacking, packeting=packeting)


def payloads(lens, alphabet):
    out, i = [], 0
    for n in lens:
        out.append(alphabet[i:i + n])
        i += n
    return out


def shape_pairs(tier):
    if tier == "quick":
        return [(a, b) for a in QUICK_SHAPES for b in QUICK_SHAPES if a or b]
    import itertools
    one = [()]
    for n in (1, 2, 3):
        one += list(itertools.product((1, 2, 3), repeat=n))
    pairs = []
    for a in one:
        for b in ((), (2, 1)):
            if a or b:
                pairs.append((a, b))
            if (b, a) not in pairs and (a or b) and a != b:
                pairs.append((b, a))
    seen, out = set(), []
    for p in pairs:
        if p not in seen:
            seen.add(p)
            out.append(p)
    out.sort(key=lambda p: (sum(p[0]) + sum(p[1]), len(p[0]) + len(p[1]), p))
    return out


class Bad(Exception):
    def __init__(self, kind, what):
        self.kind = kind
        self.what = what


def where_of(ex):
    import traceback
    name = ""
    for fr in traceback.extract_tb(ex.__traceback__):
        if "/ioflo/" in fr.filename:
            name = fr.name
    return name


def execute(ch, cshape, sshape, part, states):
    """One schedule.  Returns None or (kind, what)."""
    S, P = M["stacking"], M["packeting"]
    fn = net.FakeNet(chooser=ch)
    FSM.net = fn
    ck = net.clock()
    cq = payloads(cshape, ALPHA)
    sq = payloads(sshape, BETA)
    ctotal, stotal = b"".join(cq), b"".join(sq)
    log = []
    step_name = "setup"
    try:
        ss = S.TcpServerStack(stamper=ck, ha=("", PORT), name="server")
        cs = S.TcpClientStack(stamper=ck, ha=(net.LOOP, PORT), name="client")
        cs.serviceConnect()
        if not cs.handler.connected:
            raise core.BrokenCheck("client stack did not connect over ideal doubles")
        ss.serviceConnects()
        ca = cs.handler.ca
        if list(ss.handler.ixes.keys()) != [ca]:
            raise Bad("no-connection", "server stack holds %r after the client at %r connected"
                      % (list(ss.handler.ixes.keys()), ca))
        ix = ss.handler.ixes[ca]
        csock, ssock = cs.handler.cs, ix.cs
        for d in cq:
            cs.transmit(P.Packet(stack=cs, packed=d))
        for d in sq:
            ss.transmit(P.Packet(stack=ss, packed=d), ca)
        menu = net.Menu(send_partial=True, send_block=True, recv_split=True, recv_block=True)
        csock.menu = menu
        ssock.menu = menu
        crx, srx = [], []      # packets delivered to the client / server application
        horizon = 2 * (len(cq) + len(sq)) + 2 * ch_bound(ch) + 6
        turn = 0               # 0 client, 1 server
        for step in range(horizon):
            side = turn if ch.choose(2, "who", 0, 1) == 0 else 1 - turn
            turn = 1 - side
            step_name = "service(%s)" % ("client", "server")[side]
            log.append(("client", "server")[side])
            if side == 0:
                cs.serviceConnect()
                if not cs.handler.cutoff and cs.handler.connected:
                    cs.serviceReceives()
                    cs.serviceTxPkts()
                while cs.rxPkts:
                    crx.append(bytes(cs.rxPkts.popleft().packed))
            else:
                ss.serviceConnects()
                ss.handler.serviceReceivesAllIx()
                ss.serviceReceives()
                ss.serviceTxPkts()
                ss.handler.serviceTxesAllIx()
                while ss.rxPkts:
                    pk, ha = ss.rxPkts.popleft()
                    if ha != ca:
                        raise Bad("wrong-source", "server packet attributed to %r, connection is %r" % (ha, ca))
                    srx.append(bytes(pk.packed))
            part.transitions += 1
            # --- invariants after every step
            if bytes(csock.sent) != ctotal[:len(csock.sent)]:
                raise Bad("client-tx-not-a-prefix", "client socket accepted %r, queued %r" % (bytes(csock.sent), ctotal))
            if bytes(ssock.sent) != stotal[:len(ssock.sent)]:
                raise Bad("server-tx-not-a-prefix", "server socket accepted %r, queued %r" % (bytes(ssock.sent), stotal))
            got = b"".join(srx)
            if got != bytes(ssock.recvd)[:len(got)] or len(got) + len(ix.rxbs) != len(ssock.recvd):
                raise Bad("server-rx-packets", "server socket returned %r, packets %r + buffer %r"
                          % (bytes(ssock.recvd), srx, bytes(ix.rxbs)))
            got = b"".join(crx)
            if got != bytes(csock.recvd)[:len(got)] or len(got) + len(cs.rxbs) != len(csock.recvd):
                raise Bad("client-rx-packets", "client socket returned %r, packets %r + buffer %r"
                          % (bytes(csock.recvd), crx, bytes(cs.rxbs)))
            st = (len(csock.sent), len(ssock.sent), len(csock.recvd), len(ssock.recvd), len(csock.inbox), len(ssock.inbox),
                  len(cs.txPkts), len(cs.txbs), len(ss.txPkts), tuple(len(x) for x in ix.txes), len(ix.rxbs),
                  len(cs.rxbs), len(crx), len(srx), turn, cshape, sshape)
            states.add(hash(st))
            done = (bytes(csock.sent) == ctotal and bytes(ssock.sent) == stotal and not csock.inbox and not ssock.inbox
                    and b"".join(srx) == ctotal and b"".join(crx) == stotal)
            if done:
                part.outcome("delivered in %d steps" % (step + 1))
                return None
        raise Bad("not-delivered", "after %d service steps: client accepted %r of %r, server accepted %r of %r, server "
                  "packets %r, client packets %r" % (horizon, bytes(csock.sent), ctotal, bytes(ssock.sent), stotal, srx, crx))
    except Bad as b:
        return (b.kind, "%s: %s" % (step_name, b.what), log, fn)
    except core.BrokenCheck:
        raise
    except Exception as ex:
        w = where_of(ex)
        return ("raised|%s|%s" % (type(ex).__name__, w),
                "%s raised %s: %s (in %s)" % (step_name, type(ex).__name__, ex, w), log, fn)


def ch_bound(ch):
    return BOUND[core.TIER]


def finish_replay(pid, path, p):
    """Common tail of --replay: report whether the recorded case still violates the property."""
    if p.violations:
        for group, example, what, _ in p.violations:
            print("VIOLATION property=%s replay=%s" % (pid, path))
            print("  what: %s" % what)
            print("  key:  %s|%s" % (group, example))
        return 1
    print("%s replay: the recorded case does not violate the property on this tree" % pid)
    return 0


def replay(path):
    import json
    d = json.load(open(path))
    r = d["replay"]
    if d.get("tier") in BOUND:
        core.TIER = d["tier"]          # the horizon depends on the tier's deviation bound
    p = work((tuple(r["shapes"][0]), tuple(r["shapes"][1])), replay=r["choices"])
    return finish_replay("C36", path, p)


def work(pair, replay=None):
    cshape, sshape = pair
    init()
    p = core.Part()
    states = set()
    bound = BOUND[core.TIER]
    best = {}        # violation kind -> (rank, args): the execution with the fewest deviations is reported

    def run(ch):
        with core.watchdog(20):      # a service call that never returns is a broken run, not a slow one
            res = execute(ch, cshape, sshape, p, states)
        p.traces += 1
        p.evaluations += 1
        if res is not None:
            kind, what, log, fn = res
            p.outcome("violation %s" % kind.split("|")[0])
            answers = [net.show(a) for i in fn.points for a in [fn.log[i][2]]]
            rank = (ch.deviations(), len(ch.choices), ch.choices)
            if kind not in best or rank < best[kind][0]:
                best[kind] = (rank, (
                        "stacks|%s" % kind,
                        "c2s=%s s2c=%s order=%s answers=%s" % ("/".join(map(str, cshape)) or "-",
                                                                "/".join(map(str, sshape)) or "-",
                                                                "".join(x[0] for x in log) or "-", ",".join(answers) or "-"),
                        "TcpClientStack -> %s, TcpServerStack -> %s: %s" % (payloads(cshape, ALPHA), payloads(sshape, BETA), what),
                        dict(shapes=[list(cshape), list(sshape)],
                             client_packets=[x.decode() for x in payloads(cshape, ALPHA)],
                             server_packets=[x.decode() for x in payloads(sshape, BETA)],
                             service_order=log, choices=ch.choices, socket_answers_at_choice_points=answers,
                             double_log=fn.trace(40), what=what,
                             how="TcpServerStack(ha=('',7000)) and TcpClientStack(ha=('127.0.0.1',7000)) over mc.net doubles; "
                                 "connect; transmit() the packets; then service the sides in the listed order")))
        return res

    if replay is not None:
        run(core.Chooser(replay))
        st = dict(executions=1, max_points=len(replay))
    else:
        st = core.dfs(run, bound=bound)
    for kind in sorted(best):
        p.violation(*best[kind][1])
    for h in states:
        p.keys.add(h.to_bytes(8, "little", signed=True))
    p.notes["dfs executions"] += st["executions"]
    if cshape == (1, 2):
        p.sample(dict(client_to_server=cshape, server_to_client=sshape, executions=st["executions"],
                      max_choice_points=st["max_points"]))
    return p


def run():
    import os
    if os.environ.get("VERIF_REPLAY"):
        return replay(os.environ["VERIF_REPLAY"])
    net.selftest()
    ck = core.Check("C36", META["level"], META["technique"])
    pairs = shape_pairs(core.TIER)
    order = sorted(range(len(pairs)), key=lambda i: -(sum(pairs[i][0]) + sum(pairs[i][1])))
    parts = core.pmap(work, [pairs[i] for i in order])
    byidx = dict(zip(order, parts))
    ck.merge([byidx[i] for i in range(len(pairs))])
    ck.part.states = len(ck.part.keys)
    ck.assumptions = [
        "socket doubles instead of loopback sockets, so that the harness owns every answer and the service order",
        "the driver performs the calls of serviceAll() (server: serviceConnects, handler.serviceReceivesAllIx, "
        "serviceReceives, serviceTxPkts, handler.serviceTxesAllIx; client: serviceConnect, serviceReceives, serviceTxPkts) "
        "and drains .rxPkts itself, because serviceAll() consumes the received packet queue",
        "base packeting.Packet: a received packet is whatever the buffer holds; only coverage and order of bytes is compared",
        "states = distinct (cursor, queue, buffer) snapshots seen after a service step over all executions",
    ]
    ck.coverage_extra = dict(deviation_bound=BOUND[core.TIER], shape_pairs=len(pairs))
    return ck.finish(
        rule="for each of %d (client->server, server->client) packet-size shape pairs: every schedule of service order "
             "(default alternate) x socket answers (partial send, send would-block, short recv, recv would-block) with "
             "<= %d deviations, horizon 2*packets+2*bound+6 service steps" % (len(pairs), BOUND[core.TIER]),
        exhaustive=False,
        explanation="exhaustive within the deviation bound and horizon; not a fixpoint")


if __name__ == "__main__":
    core.main(run)
