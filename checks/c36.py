"""C36 stream stacks deliver every queued packet to the peer intact.  Engine C (net doubles):
deviation-bounded DFS over service interleavings and socket answers of a TcpServerStack /
TcpClientStack pair."""
META = dict(
    engine="net", level="model_checking",
    technique="stateless deviation-bounded DFS over environment schedules (which stack is serviced next, partial / "
              "blocked sends, short / delayed receives) of real TcpServerStack + TcpClientStack over socket doubles; "
              "stream invariants checked after every service step",
    text="A real TcpServerStack and a real TcpClientStack are connected over socket doubles; 0-3 packets of 1-3 distinct "
         "bytes are queued in each direction (quick: 15 shape pairs, thorough: 120), plus shared-packet cases (quick 7, thorough "
         "30) and close cases (quick 3, thorough 39: the client closes right after its last packet was accepted; all "
         "received bytes must be delivered as packets before the connection is reaped) and dead-destination cases (quick 2, thorough 5: a packet "
         "queued for a connection that was just reaped sits ahead of packets for a live peer; the caller tolerates the "
         "ValueError, which may occur once, and the live peer must still get everything): one Packet instance transmitted twice in a row, and one Packet instance transmitted to two connected clients "
         "which both also send their own packets to the server (each must come out attributed to its own connection); "
         "the transmitted Packet objects must keep their .packed. The driver then services the two stacks "
         "step by step with the same calls serviceAll() makes, except that it drains .rxPkts itself; which stack is serviced "
         "next (default: alternate) and every answer of the two connection sockets (send: any partial count, would-block; "
         "recv: any shorter chunk, would-block although bytes wait) are choice points; all schedules with at most 2 (quick) / "
         "3 (thorough) deviations are enumerated. After every step: bytes accepted by each socket are a prefix of that "
         "side's queued packets in order; the received packets of a connection concatenate to a prefix of the bytes its "
         "socket returned; nothing raises. At the horizon everything queued has been accepted by the sockets, taken by the "
         "peer stack and delivered in packets whose concatenation equals the received bytes.",
    note="Trusts the doubles; uses the base packeting.Packet (a packet = whatever bytes are in the buffer), so packet "
         "boundaries on receive are not compared, only that every received byte is in exactly one packet, in order. Loopback "
         "sockets are not used: the kernel would own the schedule.",
)
from mc import core, net

PORT = 7000
ALPHA = b"abcdefghi"
DIGITS = b"123456789"         # payload bytes of the second client
BETA = b"ABCDEFGHI"
QUICK_SHAPES = [(), (2,), (1, 2), (3, 1, 2)]
BOUND = dict(quick=2, thorough=3)

FSM = None
M = None


def init():
    global FSM, M
    if FSM is not None:
        return
    core.use_repo()
    from ioflo.aio.proto import stacking, packeting
    FSM = net.FakeSocketModule().install()
    M = dict(stacking=stacking, packeting=packeting)


def payloads(lens, alphabet):
    out, i = [], 0
    for n in lens:
        out.append(alphabet[i:i + n])
        i += n
    return out


def shape_pairs(tier):
    """(client->server shape, server->client shape, mode) triples."""
    return [(a, b, "fresh") for a, b in fresh_pairs(tier)] + shared_cases(tier)


def shared_cases(tier):
    """The same Packet instance referenced by more than one pending transmit."""
    if tier == "quick":
        sshapes = [((), (2,)), ((), (3, 1)), ((2,), (2, 1)), ((1, 2), ())]
    else:
        import itertools
        sshapes = [((), b) for n in (1, 2) for b in itertools.product((1, 2, 3), repeat=n)] + [((2,), (2, 1)), ((1, 2), (3,)),
                                                                                                  ((1, 2), ()), ((3, 1, 2), ())]
    closers = [((2,), ()), ((1, 2), ()), ((3, 1, 2), ())] if tier == "quick" else \
        [(a, ()) for n in (1, 2, 3) for a in itertools.product((1, 2, 3), repeat=n)]
    return [(a, b, m) for m in ("resend", "broadcast") for a, b in sshapes if b or m == "broadcast"] + \
        [(a, b, "sendclose") for a, b in closers] + \
        [((), b, "deadhead") for b in (((2,), (1, 2)) if tier == "quick" else ((1,), (2,), (1, 2), (3, 1), (2, 1, 3)))]


def fresh_pairs(tier):
    if tier == "quick":
        return [(a, b) for a in QUICK_SHAPES for b in QUICK_SHAPES if a or b]
    import itertools
    one = [()]
    for n in (1, 2, 3):
        one += list(itertools.product((1, 2, 3), repeat=n))
    pairs = []
    for a in one:
        for b in ((), (2, 1)):
            if a or b:
                pairs.append((a, b))
            if (b, a) not in pairs and (a or b) and a != b:
                pairs.append((b, a))
    seen, out = set(), []
    for p in pairs:
        if p not in seen:
            seen.add(p)
            out.append(p)
    out.sort(key=lambda p: (sum(p[0]) + sum(p[1]), len(p[0]) + len(p[1]), p))
    return out


class Bad(Exception):
    def __init__(self, kind, what):
        self.kind = kind
        self.what = what


def where_of(ex):
    import traceback
    name = ""
    for fr in traceback.extract_tb(ex.__traceback__):
        if "/ioflo/" in fr.filename:
            name = fr.name
    return name


def execute(ch, cshape, sshape, part, states, mode="fresh"):
    """One schedule.  Returns None or (kind, what, log, fn).
    mode "fresh": one client, a fresh Packet per transmit.
    mode "resend": one client; the first packet of each direction is ONE Packet instance transmitted twice in a row.
    mode "sendclose": one client; as soon as its packets are accepted by its socket the client stack closes, so the
    server sees the last data and the EOF in one receive pass (or in separate passes under short / delayed reads);
    every byte the server socket returned must come out as a packet before the connection is reaped.
    mode "broadcast": two clients connected at the same time; every server packet is ONE Packet instance
    transmitted to both peers; BOTH clients transmit the client->server shape (first: letters, second: digits,
    sizes reversed), and the server must attribute every packet to the connection it arrived on."""
    S, P = M["stacking"], M["packeting"]
    fn = net.FakeNet(chooser=ch)
    FSM.net = fn
    ck = net.clock()
    nclients = 2 if mode == "broadcast" else 1
    cq = payloads(cshape, ALPHA)
    sq = payloads(sshape, BETA)
    if mode == "resend":
        cq = cq[:1] + cq
        sq = sq[:1] + sq
    log = []
    step_name = "setup"
    try:
        ss = S.TcpServerStack(stamper=ck, ha=("", PORT), name="server")
        clients = []
        for i in range(nclients):
            cs = S.TcpClientStack(stamper=ck, ha=(net.LOOP, PORT), name="client%d" % i)
            cs.serviceConnect()
            if not cs.handler.connected:
                raise core.BrokenCheck("client stack did not connect over ideal doubles")
            clients.append(cs)
        ss.serviceConnects()
        cas = [cs.handler.ca for cs in clients]
        if list(ss.handler.ixes.keys()) != cas:
            raise Bad("no-connection", "server stack holds %r after the clients at %r connected"
                      % (list(ss.handler.ixes.keys()), cas))
        ixs = [ss.handler.ixes[ca] for ca in cas]
        csocks = [cs.handler.cs for cs in clients]
        ssocks = [ix.cs for ix in ixs]
        made = []              # (Packet, payload it was created with): the caller's objects must stay intact
        cq2 = payloads(tuple(reversed(cshape)), DIGITS) if nclients == 2 else []   # second client: own contents
        ctotals = [b"".join(cq), b"".join(cq2)][:nclients]
        stotals = [b"".join(sq)] * nclients
        prev = None
        for k, d in enumerate(cq):
            pk = prev if (mode == "resend" and k == 1) else P.Packet(stack=clients[0], packed=d)
            prev = pk
            if not (mode == "resend" and k == 1):
                made.append((pk, d))
            clients[0].transmit(pk)
        for d in cq2:
            pk = P.Packet(stack=clients[1], packed=d)
            made.append((pk, d))
            clients[1].transmit(pk)
        prev = None
        for k, d in enumerate(sq):
            pk = prev if (mode == "resend" and k == 1) else P.Packet(stack=ss, packed=d)
            prev = pk
            if not (mode == "resend" and k == 1):
                made.append((pk, d))
            for ca in cas:     # broadcast: the same instance goes to every peer
                ss.transmit(pk, ca)
        menu = net.Menu(send_partial=True, send_block=True, recv_split=True, recv_block=True)
        for sk in csocks + ssocks:
            sk.menu = menu
        crx = [[] for _ in clients]      # packets delivered to each client application
        srx = [[] for _ in clients]      # packets delivered to the server application, per connection
        nsides = nclients + 1
        horizon = nsides * (len(cq) + len(cq2) + len(sq) * nclients + ch_bound(ch) + 3)
        names = ["client"] if nclients == 1 else ["0client", "1client"]
        names.append("server")
        turn = 0
        client_closed = False
        for step in range(horizon):
            if client_closed:
                side = nclients              # only the server is left to service
            else:
                side = (turn + ch.choose(nsides, "who", 0, 1)) % nsides
            turn = (side + 1) % nsides
            step_name = "service(%s)" % names[side]
            log.append(names[side])
            if side < nclients:
                cs = clients[side]
                cs.serviceConnect()
                if not cs.handler.cutoff and cs.handler.connected:
                    cs.serviceReceives()
                    cs.serviceTxPkts()
                while cs.rxPkts:
                    crx[side].append(bytes(cs.rxPkts.popleft().packed))
                if mode == "sendclose" and bytes(csocks[0].sent) == ctotals[0] and not cs.txbs and not cs.txPkts:
                    cs.close()               # the client has sent its last packet and goes away
                    client_closed = True
                    log.append("close")
            else:
                ss.serviceConnects()
                ss.handler.serviceReceivesAllIx()
                ss.serviceReceives()
                ss.serviceTxPkts()
                ss.handler.serviceTxesAllIx()
                while ss.rxPkts:
                    pk, ha = ss.rxPkts.popleft()
                    if ha not in cas:
                        raise Bad("wrong-source", "server packet attributed to %r, connections are %r" % (ha, cas))
                    srx[cas.index(ha)].append(bytes(pk.packed))
            part.transitions += 1
            # --- invariants after every step
            tag = (lambda i: "" if nclients == 1 else " %d" % i)
            for i in range(nclients):
                csock, ssock, ix, cs = csocks[i], ssocks[i], ixs[i], clients[i]
                if bytes(csock.sent) != ctotals[i][:len(csock.sent)]:
                    raise Bad("client-tx-not-a-prefix", "client%s socket accepted %r, queued %r"
                              % (tag(i), bytes(csock.sent), ctotals[i]))
                if bytes(ssock.sent) != stotals[i][:len(ssock.sent)]:
                    raise Bad("server-tx-not-a-prefix", "server socket to client%s accepted %r, queued %r"
                              % (tag(i), bytes(ssock.sent), stotals[i]))
                got = b"".join(srx[i])
                if got != bytes(ssock.recvd)[:len(got)] or len(got) + len(ix.rxbs) != len(ssock.recvd):
                    raise Bad("server-rx-packets", "server socket%s returned %r, packets %r + buffer %r"
                              % (tag(i), bytes(ssock.recvd), srx[i], bytes(ix.rxbs)))
                got = b"".join(crx[i])
                if got != bytes(csock.recvd)[:len(got)] or len(got) + len(cs.rxbs) != len(csock.recvd):
                    raise Bad("client-rx-packets", "client%s socket returned %r, packets %r + buffer %r"
                              % (tag(i), bytes(csock.recvd), crx[i], bytes(cs.rxbs)))
            for pk, d in made:
                if bytes(pk.packed) != d:
                    raise Bad("packet-mutated", "a transmitted Packet was created with packed=%r and now holds %r"
                              % (d, bytes(pk.packed)))
            st = tuple((len(csocks[i].sent), len(ssocks[i].sent), len(csocks[i].recvd), len(ssocks[i].recvd),
                        len(csocks[i].inbox), len(ssocks[i].inbox), len(clients[i].txPkts), len(clients[i].txbs),
                        tuple(len(x) for x in ixs[i].txes), len(ixs[i].rxbs), len(clients[i].rxbs), len(crx[i]), len(srx[i]))
                       for i in range(nclients)) + (len(ss.txPkts), turn, cshape, sshape, mode)
            states.add(hash(st))
            if mode == "sendclose":
                delivered = b"".join(srx[0])
                if cas[0] not in ss.handler.ixes:          # the server has reaped the connection
                    if delivered != bytes(ssocks[0].recvd) or delivered != ctotals[0]:
                        raise Bad("lost-at-close", "the connection was reaped after the server socket had returned %r "
                                  "(client sent %r), but only %r came out as packets; %r left in the connection's buffer"
                                  % (bytes(ssocks[0].recvd), ctotals[0], srx[0], bytes(ixs[0].rxbs)))
                    part.outcome("sendclose: delivered and reaped in %d steps" % (step + 1))
                    return None
                continue
            done = all(bytes(csocks[i].sent) == ctotals[i] and bytes(ssocks[i].sent) == stotals[i]
                       and not csocks[i].inbox and not ssocks[i].inbox
                       and b"".join(srx[i]) == ctotals[i] and b"".join(crx[i]) == stotals[i] for i in range(nclients))
            if done:
                part.outcome("%s: delivered in %d steps" % (mode, step + 1))
                return None
        raise Bad("not-delivered", "after %d service steps: clients accepted %r of %r, server accepted %r of %r, server "
                  "packets %r, client packets %r" % (horizon, [bytes(x.sent) for x in csocks], ctotals,
                                                     [bytes(x.sent) for x in ssocks], stotals, srx, crx))
    except Bad as b:
        return (b.kind, "%s: %s" % (step_name, b.what), log, fn)
    except core.BrokenCheck:
        raise
    except Exception as ex:
        w = where_of(ex)
        return ("raised|%s|%s" % (type(ex).__name__, w),
                "%s raised %s: %s (in %s)" % (step_name, type(ex).__name__, ex, w), log, fn)


def execute_deadhead(ch, sshape, part, states):
    """Two clients A and B.  A closes; the server notices the cut off; the application then queues one packet for A
    followed by the sshape packets for B; the next server pass reaps A and finds the dead packet at the head of
    .txPkts.  The caller tolerates the ValueError of the stale destination and keeps servicing.
    Oracle: ValueError at most once (the dead packet is consumed), B receives all its packets exactly once in
    order, .txPkts drains.  Choice points: who is serviced next (B / server) and every answer of B's two sockets."""
    S, P = M["stacking"], M["packeting"]
    fn = net.FakeNet(chooser=ch)
    FSM.net = fn
    ck = net.clock()
    sq = payloads(sshape, BETA)
    stotal = b"".join(sq)
    log = []
    step_name = "setup"
    errors = []
    try:
        ss = S.TcpServerStack(stamper=ck, ha=("", PORT), name="server")
        clients = []
        for i in range(2):
            cs = S.TcpClientStack(stamper=ck, ha=(net.LOOP, PORT), name="client%d" % i)
            cs.serviceConnect()
            if not cs.handler.connected:
                raise core.BrokenCheck("client stack did not connect over ideal doubles")
            clients.append(cs)
        ss.serviceConnects()
        caA, caB = clients[0].handler.ca, clients[1].handler.ca
        if list(ss.handler.ixes.keys()) != [caA, caB]:
            raise Bad("no-connection", "server stack holds %r" % (list(ss.handler.ixes.keys()),))
        ixA, ixB = ss.handler.ixes[caA], ss.handler.ixes[caB]
        csockB, ssockB = clients[1].handler.cs, ixB.cs

        def server_step():
            for call in (ss.serviceConnects, ss.handler.serviceReceivesAllIx, ss.serviceReceives, ss.serviceTxPkts,
                         ss.handler.serviceTxesAllIx):
                try:
                    call()
                except ValueError as ex:          # stale destination: the application logs it and carries on
                    errors.append("%s: %s" % (call.__name__, ex))

        clients[0].close()                    # A goes away
        step_name = "service(server) after A closed"
        server_step()
        if not ixA.cutoff:
            raise core.BrokenCheck("server did not notice that A closed")
        if errors:
            raise Bad("raised|ValueError|early", "ValueError before anything was queued: %r" % errors)
        ss.transmit(P.Packet(stack=ss, packed=b"Z"), caA)          # queued for the dead peer, at the head
        for d in sq:
            ss.transmit(P.Packet(stack=ss, packed=d), caB)
        menu = net.Menu(send_partial=True, send_block=True, recv_split=True, recv_block=True)
        csockB.menu = menu
        ssockB.menu = menu
        crx = []
        horizon = 2 * (len(sq) + ch_bound(ch) + 4)
        turn = 1                              # the server first: it reaps A and meets the dead packet
        for step in range(horizon):
            side = (turn + ch.choose(2, "who", 0, 1)) % 2
            turn = (side + 1) % 2
            step_name = "service(%s)" % ("clientB", "server")[side]
            log.append(("Bclient", "server")[side])
            if side == 0:
                cs = clients[1]
                cs.serviceConnect()
                if not cs.handler.cutoff and cs.handler.connected:
                    cs.serviceReceives()
                    cs.serviceTxPkts()
                while cs.rxPkts:
                    crx.append(bytes(cs.rxPkts.popleft().packed))
            else:
                server_step()
            part.transitions += 1
            if len(errors) > 1:
                raise Bad("stale-packet-raises-again", "the packet queued for the closed connection made the tx service "
                          "raise ValueError %d times: %r" % (len(errors), errors[:2]))
            if bytes(ssockB.sent) != stotal[:len(ssockB.sent)]:
                raise Bad("server-tx-not-a-prefix", "server socket to B accepted %r, queued for B %r" % (bytes(ssockB.sent), stotal))
            got = b"".join(crx)
            if got != bytes(csockB.recvd)[:len(got)] or len(got) + len(clients[1].rxbs) != len(csockB.recvd):
                raise Bad("client-rx-packets", "client B socket returned %r, packets %r + buffer %r"
                          % (bytes(csockB.recvd), crx, bytes(clients[1].rxbs)))
            states.add(hash(("deadhead", len(ssockB.sent), len(csockB.recvd), len(csockB.inbox), len(ss.txPkts),
                             tuple(len(x) for x in ixB.txes), len(crx), len(errors), caA in ss.handler.ixes, turn, sshape)))
            if got == stotal and not ss.txPkts and caA not in ss.handler.ixes:
                part.outcome("deadhead: B served in %d steps, %d ValueError" % (step + 1, len(errors)))
                return None
        raise Bad("not-delivered", "after %d service steps B received %r of %r; %d packet(s) still in .txPkts; ValueErrors: %r"
                  % (horizon, crx, stotal, len(ss.txPkts), errors[:2]))
    except Bad as b:
        return (b.kind, "%s: %s" % (step_name, b.what), log, fn)
    except core.BrokenCheck:
        raise
    except Exception as ex:
        w = where_of(ex)
        return ("raised|%s|%s" % (type(ex).__name__, w),
                "%s raised %s: %s (in %s)" % (step_name, type(ex).__name__, ex, w), log, fn)


def ch_bound(ch):
    return BOUND[core.TIER]


def finish_replay(pid, path, p):
    """Common tail of --replay: report whether the recorded case still violates the property."""
    if p.violations:
        for group, example, what, _ in p.violations:
            print("VIOLATION property=%s replay=%s" % (pid, path))
            print("  what: %s" % what)
            print("  key:  %s|%s" % (group, example))
        return 1
    print("%s replay: the recorded case does not violate the property on this tree" % pid)
    return 0


def replay(path):
    import json
    d = json.load(open(path))
    r = d["replay"]
    if d.get("tier") in BOUND:
        core.TIER = d["tier"]          # the horizon depends on the tier's deviation bound
    p = work((tuple(r["shapes"][0]), tuple(r["shapes"][1]), r.get("mode", "fresh")), replay=r["choices"])
    return finish_replay("C36", path, p)


def work(pair, replay=None):
    cshape, sshape, mode = pair
    init()
    p = core.Part()
    states = set()
    bound = BOUND[core.TIER]
    best = {}        # violation kind -> (rank, args): the execution with the fewest deviations is reported

    def run(ch):
        with core.watchdog(20):      # a service call that never returns is a broken run, not a slow one
            if mode == "deadhead":
                res = execute_deadhead(ch, sshape, p, states)
            else:
                res = execute(ch, cshape, sshape, p, states, mode)
        p.traces += 1
        p.evaluations += 1
        if res is not None:
            kind, what, log, fn = res
            p.outcome("violation %s" % kind.split("|")[0])
            answers = [net.show(a) for i in fn.points for a in [fn.log[i][2]]]
            rank = (ch.deviations(), len(ch.choices), ch.choices)
            if kind not in best or rank < best[kind][0]:
                best[kind] = (rank, (
                        "stacks|%s" % kind,
                        "c2s=%s s2c=%s%s order=%s answers=%s" % ("/".join(map(str, cshape)) or "-",
                                                                  "/".join(map(str, sshape)) or "-",
                                                                  "" if mode == "fresh" else " mode=%s" % mode,
                                                                  "".join(x[0] for x in log) or "-", ",".join(answers) or "-"),
                        "%sTcpClientStack -> %s, TcpServerStack -> %s: %s" % (
                            dict(fresh="", deadhead="client A closed; one packet for A queued ahead of the packets for client B; ", sendclose="the client closes as soon as its packets are accepted; ", resend="first packet of each direction is one Packet instance transmitted twice; ",
                                 broadcast="two clients (the second sends %s), each server packet is one Packet instance transmitted to "
                                           "both; " % payloads(tuple(reversed(cshape)), DIGITS))[mode],
                            payloads(cshape, ALPHA), payloads(sshape, BETA), what),
                        dict(shapes=[list(cshape), list(sshape)], mode=mode,
                             client_packets=[x.decode() for x in payloads(cshape, ALPHA)],
                             server_packets=[x.decode() for x in payloads(sshape, BETA)],
                             service_order=log, choices=ch.choices, socket_answers_at_choice_points=answers,
                             double_log=fn.trace(40), what=what,
                             how="TcpServerStack(ha=('',7000)) and TcpClientStack(ha=('127.0.0.1',7000)) over mc.net doubles; "
                                 "connect; transmit() the packets; then service the sides in the listed order")))
        return res

    if replay is not None:
        run(core.Chooser(replay))
        st = dict(executions=1, max_points=len(replay))
    else:
        st = core.dfs(run, bound=bound)
    for kind in sorted(best):
        p.violation(*best[kind][1])
    for h in states:
        p.keys.add(h.to_bytes(8, "little", signed=True))
    p.notes["dfs executions"] += st["executions"]
    if cshape == (1, 2) or (mode != "fresh" and sshape == (3, 1)):
        p.sample(dict(mode=mode, client_to_server=cshape, server_to_client=sshape, executions=st["executions"],
                      max_choice_points=st["max_points"]))
    return p


def run():
    import os
    if os.environ.get("VERIF_REPLAY"):
        return replay(os.environ["VERIF_REPLAY"])
    net.selftest()
    ck = core.Check("C36", META["level"], META["technique"])
    pairs = shape_pairs(core.TIER)
    order = sorted(range(len(pairs)), key=lambda i: -(sum(pairs[i][0]) + sum(pairs[i][1])))
    parts = core.pmap(work, [pairs[i] for i in order])
    byidx = dict(zip(order, parts))
    ck.merge([byidx[i] for i in range(len(pairs))])
    ck.part.states = len(ck.part.keys)
    ck.assumptions = [
        "socket doubles instead of loopback sockets, so that the harness owns every answer and the service order",
        "the driver performs the calls of serviceAll() (server: serviceConnects, handler.serviceReceivesAllIx, "
        "serviceReceives, serviceTxPkts, handler.serviceTxesAllIx; client: serviceConnect, serviceReceives, serviceTxPkts) "
        "and drains .rxPkts itself, because serviceAll() consumes the received packet queue",
        "base packeting.Packet: a received packet is whatever the buffer holds; only coverage and order of bytes is compared",
        "states = distinct (cursor, queue, buffer) snapshots seen after a service step over all executions",
    ]
    ck.coverage_extra = dict(deviation_bound=BOUND[core.TIER], shape_pairs=len(pairs))
    return ck.finish(
        rule="for each of %d (client->server, server->client, mode) cases (mode fresh / resend = same Packet instance twice / "
             "broadcast = same Packet instance to two clients): every schedule of service order "
             "(default alternate) x socket answers (partial send, send would-block, short recv, recv would-block) with "
             "<= %d deviations, horizon 2*packets+2*bound+6 service steps" % (len(pairs), BOUND[core.TIER]),
        exhaustive=False,
        explanation="exhaustive within the deviation bound and horizon; not a fixpoint")


if __name__ == "__main__":
    core.main(run)
