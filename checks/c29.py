"""C29 HTTP messages parse the same however their bytes arrive.  Engine D (mc/split): every arrival
schedule (split of the byte stream into <= k receives) of generated well-formed messages is fed to the
real Requestant / Respondent with parse() between receives."""
META = dict(
    engine="split", level="model_checking",
    technique="exhaustive enumeration of arrival schedules (all splits into <= k pieces) of generated HTTP messages through the real incremental parsers, compared with generator ground truth and with the whole-message parse",
    text="About 50 well-formed requests and responses are generated from structured fields (fixed length, chunked with extensions and "
         "trailers, read-until-close, bodiless, 100-continue, HEAD/204/304, header lines with no / one / several blanks after the colon, "
         "LF-only heads), each followed by the first bytes of a next message.  Every split of every message into <= 3 receives (<= 4 for "
         "messages up to 100 bytes in the thorough tier) is delivered to a fresh ioflo Requestant or Respondent with parse() called after "
         "each receive, as the service loops do, and with idle parse() calls (no new bytes) between two receives as a further environment choice "
         "(quick: at most one gap with one idle pass; thorough: 0-2 per gap).  Parsed start line, headers, body, trailers and the unconsumed remainder must equal the "
         "generator's ground truth and the one-piece parse.  Re-armed parser: a message with a body followed by a bodiless one on ONE parser instance re-armed with "
         "makeParser(), whole and cut at every offset.  A dozen messages above 64 KiB (large bodies, a 70 000-byte chunk, a small message in "
         "front of a large one) are delivered whole, in two pieces at a handful of cut points and in 8 KiB pieces with the same oracle.  States = (message, split, idle passes) schedules, transitions = parse() steps.",
    note="Bounded by message set and piece count (<=3 / <=4): a defect needing four or more specific cut points in one long message, or "
         "a message feature outside the generated set (obs-fold, duplicate header names, mixed LF/CRLF heads), is out of reach. "
         "LF-only heads are included because the parsers list LF as an accepted line end; they are never mixed with CRLF.",
)
import traceback

from mc import core, split

CRLF = b"\r\n"
LF = b"\n"


# --------------------------------------------------------------------------- messages

def H(name, value, sep=": "):
    return (name, sep, value)


def _head_lines(hdrs, eol):
    out = b""
    for name, sep, value in hdrs:
        out += name.encode("latin-1") + sep.encode("latin-1") + value.encode("latin-1") + eol
    return out


def _truth_headers(hdrs):
    return {name.lower(): value for name, sep, value in hdrs}


def make(label, kind, start, headers=(), framing=("none",), eol=CRLF, cont100=None, tail=None,
         method="GET"):
    """Build (wire bytes, ground truth) from structured fields.
    framing: ("none",) | ("length", body) | ("chunked", [(data, ext)], last_ext, trailers) | ("close", body)
             | ("nobody", declared_length)   response to HEAD: Content-Length without body bytes."""
    headers = list(headers)
    body = b""
    trailers = []
    fr = framing[0]
    payload = b""
    if fr == "length":
        body = framing[1]
        headers.append(H("Content-Length", str(len(body))))
        payload = body
    elif fr == "nobody":
        headers.append(H("Content-Length", str(framing[1])))
    elif fr == "chunked":
        headers.append(H("Transfer-Encoding", "chunked"))
        chunks, last_ext, trailers = framing[1], framing[2], list(framing[3])
        for data, ext, fmt in chunks:
            payload += (fmt % len(data)).encode("ascii") + ext.encode("ascii") + CRLF + data + CRLF
            body += data
        payload += b"0" + last_ext.encode("ascii") + CRLF + _head_lines(trailers, eol) + eol
    elif fr == "close":
        body = framing[1]
        payload = body
    wire = b""
    if cont100 is not None:
        wire += b"HTTP/1.1 100 Continue" + eol + _head_lines(cont100, eol) + eol
    if kind == "req":
        m, url, ver = start
        wire += ("%s %s HTTP/%d.%d" % (m, url, ver[0], ver[1])).encode("latin-1") + eol
        tstart = (m, url, ver)
    else:
        ver, status, reason = start
        wire += ("HTTP/%d.%d %d %s" % (ver[0], ver[1], status, reason)).encode("latin-1") + eol
        tstart = (ver, status, reason)
    wire += _head_lines(headers, eol) + eol + payload
    if fr == "close":
        tail = b""
    elif tail is None:
        if kind == "req":
            tail = b"PUT /n\r\n" if eol == CRLF else b"PUT /n\n"
        else:
            tail = b"HTTP/1.\r\n" if eol == CRLF else b"HTTP/1.\n"
    truth = dict(start=tstart, headers=_truth_headers(headers), body=body,
                 trailers=_truth_headers(trailers), rest=tail, prompt=True)
    return dict(label=label, kind=kind, wire=wire + tail, truth=truth, close=(fr == "close"),
                method=method, msglen=len(wire), framing=fr + ("+100" if cont100 is not None else "") +
                ("+lf" if eol == LF else ""))


def messages():
    """Simplest first.  Every message is well-formed HTTP/1.x (LF-only heads: tolerated form)."""
    V11, V10 = (1, 1), (1, 0)
    host = H("Host", "example.com")
    binbody = b"a\r\nb\n\rc\r\n\r\n0\r\n\r\n\x00\xff"
    d = "%x"
    ms = []
    A = ms.append
    # ---- requests
    A(make("req-get-min", "req", ("GET", "/", V11), [host]))
    A(make("req-get-query", "req", ("GET", "/a/b%20c?x=1&y=%26z", V11), [host, H("Accept", "*/*")]))
    A(make("req-http10-bare", "req", ("GET", "/", V10), []))
    A(make("req-options-star", "req", ("OPTIONS", "*", V11), [host]))
    A(make("req-post-len", "req", ("POST", "/p", V11), [host], ("length", b"hello")))
    A(make("req-delete-len0", "req", ("DELETE", "/d", V11), [host], ("length", b"")))
    A(make("req-post-len-linebytes", "req", ("POST", "/p", V11), [host], ("length", binbody)))
    A(make("req-header-colon-in-value", "req", ("GET", "/", V11),
           [H("Host", "example.com:8080"), H("X-A", "b: c"), H("X-Empty", "")]))
    A(make("req-header-latin1", "req", ("GET", "/", V11), [host, H("X-Name", "caf\xe9")]))
    A(make("req-put-chunked", "req", ("PUT", "/c", V11), [host],
           ("chunked", [(b"abc", "", d), (b"de\r\nf", "", d)], "", [])))
    A(make("req-put-chunked-hex", "req", ("PUT", "/c", V11), [host],
           ("chunked", [(b"0123456789", "", "%x"), (b"0123456789ab", "", "%X"), (b"z", "", "%03x")], "", [])))
    A(make("req-post-chunked-trailers", "req", ("POST", "/c", V11), [host],
           ("chunked", [(b"abc", "", d)], "", [H("X-T", "v"), H("X-U", "w: x")])))
    A(make("req-post-chunked-ext", "req", ("POST", "/c", V11), [host],
           ("chunked", [(b"abc", ";a=b;c", d)], ";last", [])))
    A(make("req-post-chunked-ext-trailers", "req", ("POST", "/c", V11), [host],
           ("chunked", [(b"ab", ";q=\"1\"", d), (b"\r\n", "", d)], ";z=9", [H("X-T", "v")])))
    A(make("req-header-nospace", "req", ("GET", "/", V11), [H("Host", "example.com", ":")]))
    A(make("req-header-nospace-empty", "req", ("GET", "/", V11), [host, H("X-Empty", "", ":")]))
    A(make("req-header-multispace", "req", ("GET", "/", V11), [H("Host", "example.com", ":   ")]))
    A(make("req-header-tab", "req", ("GET", "/", V11), [H("Host", "example.com", ":\t")]))
    A(make("req-post-nospace-len", "req", ("POST", "/p", V11), [H("Host", "h", ":")], ("length", b"hi")))
    A(make("req-trailer-nospace", "req", ("POST", "/c", V11), [host],
           ("chunked", [(b"abc", "", d)], "", [H("X-T", "v", ":")])))
    A(make("req-lf-only", "req", ("GET", "/l", V11), [host], eol=LF))
    A(make("req-lf-only-len", "req", ("POST", "/l", V11), [host], ("length", b"a\nb"), eol=LF))
    # ---- responses
    srv = H("Server", "s")
    A(make("rsp-200-len", "rsp", (V11, 200, "OK"), [srv], ("length", b"hello")))
    A(make("rsp-200-len0", "rsp", (V11, 200, "OK"), [srv], ("length", b"")))
    A(make("rsp-404-reason-words", "rsp", (V11, 404, "Not Found"), [srv], ("length", b"no")))
    A(make("rsp-200-reason-empty", "rsp", (V11, 200, ""), [srv], ("length", b"x")))
    A(make("rsp-200-len-linebytes", "rsp", (V11, 200, "OK"), [srv], ("length", binbody)))
    A(make("rsp-204", "rsp", (V11, 204, "No Content"), [srv]))
    A(make("rsp-304", "rsp", (V11, 304, "Not Modified"), [srv, H("ETag", "\"x\"")]))
    A(make("rsp-head-len", "rsp", (V11, 200, "OK"), [srv], ("nobody", 5), method="HEAD"))
    A(make("rsp-200-close", "rsp", (V11, 200, "OK"), [srv], ("close", b"hello")))
    A(make("rsp-10-close", "rsp", (V10, 200, "OK"), [], ("close", b"hello\r\nworld\n")))
    A(make("rsp-close-linebytes", "rsp", (V11, 200, "OK"), [srv], ("close", binbody)))
    A(make("rsp-close-empty", "rsp", (V11, 200, "OK"), [srv], ("close", b"")))
    A(make("rsp-10-keepalive-len", "rsp", (V10, 200, "OK"), [H("Connection", "keep-alive")], ("length", b"ka")))
    A(make("rsp-200-chunked", "rsp", (V11, 200, "OK"), [srv],
           ("chunked", [(b"abc", "", d), (b"de\r\nf", "", d)], "", [])))
    A(make("rsp-200-chunked-hex", "rsp", (V11, 200, "OK"), [],
           ("chunked", [(b"0123456789", "", "%x"), (b"0123456789ab", "", "%X")], "", [])))
    A(make("rsp-200-chunked-trailers", "rsp", (V11, 200, "OK"), [srv],
           ("chunked", [(b"abc", "", d)], "", [H("X-T", "v"), H("X-U", "w")])))
    A(make("rsp-200-chunked-ext", "rsp", (V11, 200, "OK"), [srv],
           ("chunked", [(b"abc", ";a=b;c", d)], ";last", [])))
    A(make("rsp-100-continue", "rsp", (V11, 200, "OK"), [srv], ("length", b"hi"), cont100=[]))
    A(make("rsp-100-continue-headers", "rsp", (V11, 201, "Created"), [srv], ("length", b"hi"),
           cont100=[H("X-Hint", "go")]))
    A(make("rsp-header-nospace", "rsp", (V11, 200, "OK"), [H("Server", "s", ":")], ("length", b"hi")))
    A(make("rsp-header-multispace", "rsp", (V11, 200, "OK"), [H("Server", "s", ":  ")], ("length", b"hi")))
    A(make("rsp-lf-only-len", "rsp", (V11, 200, "OK"), [srv], ("length", b"a\nb"), eol=LF))
    A(make("rsp-lf-only-close", "rsp", (V10, 200, "OK"), [srv], ("close", b"a\nb\n"), eol=LF))
    if core.TIER == "thorough":
        A(make("req-long-headers", "req", ("GET", "/a/very/long/path/with/segments?and=query&more=1", V11),
               [host, H("Accept", "text/html, application/json;q=0.9"), H("User-Agent", "verif/1.0"),
                H("X-A", "1"), H("X-B", "2:3")], ("length", b"0123456789" * 3)))
        A(make("rsp-long-chunked", "rsp", (V11, 200, "OK"), [srv, H("Content-Type", "text/plain")],
               ("chunked", [(b"x" * 17, "", d), (b"\r\n0\r\n\r\n", "", d), (b"y" * 16, "", d)], "",
                [H("X-Sum", "abc")])))
    labels = [m["label"] for m in ms]
    if len(set(labels)) != len(labels):
        raise core.BrokenCheck("duplicate message labels")
    return ms


# --------------------------------------------------------------------------- real code

class FakeIncomer(object):
    """What Requestant.checkPersisted touches."""
    def __init__(self):
        self.timeout = 5.0
        self.ca = ("127.0.0.1", 50001)


def hdict(h):
    if not h:
        return {}
    return {str(k).lower(): v for k, v in h.items()}


def pdict(p):
    if not p:
        return {}
    out = {}
    for k, v in p.items():
        out[repr(bytes(k) if isinstance(k, (bytes, bytearray)) else k)] = \
            repr(bytes(v) if isinstance(v, (bytes, bytearray)) else v)
    return out


def innermost(ex):
    tb = traceback.extract_tb(ex.__traceback__)
    fn = "?"
    for fr in tb:
        if "/ioflo/aio/http/" in fr.filename:
            fn = fr.name
    return fn


_IDLE = {}


def idle_schedules(npieces):
    """Idle parse() calls (no new bytes) between receives: quick = at most one gap with one idle
    pass; thorough = 0, 1 or 2 in every gap for <= 3 pieces (<= one deviating gap for 4)."""
    if npieces not in _IDLE:
        if core.TIER == "thorough":
            _IDLE[npieces] = split.idle_patterns(npieces, counts=(0, 1, 2), max_dev=None if npieces <= 3 else 1)
        else:
            _IDLE[npieces] = split.idle_patterns(npieces, counts=(0, 1), max_dev=1)
    return _IDLE[npieces]


_HANG = {}


def execute(m, pieces, gaps=None):
    """One execution under a watchdog (5 s, a hit is confirmed once with 20 s): a parse() that never
    returns is the observation 'hangs'."""
    res, hang = split.guarded(lambda: execute_raw(m, pieces, gaps), 5.0, 20.0, _HANG)
    if hang is not None:
        return dict(outcome="hangs", exc="spins in %s" % split.stuck_in(hang, "/ioflo/aio/http/")), 1
    return res


def execute_raw(m, pieces, gaps=None):
    """One execution of the real parser under one arrival schedule -> (observation, steps)."""
    from ioflo.aio.http import clienting, serving
    if m["kind"] == "req":
        p = serving.Requestant(msg=bytearray(), incomer=FakeIncomer())
    else:
        p = clienting.Respondent(msg=bytearray(), method=m["method"])
    steps, finished, exc, delivered = split.drive(p, pieces, close=m["close"], idle=2, gaps=gaps)
    # the receive that carried the message's last byte
    need = 0
    for piece in pieces:
        need += len(piece)
        if need >= m["msglen"]:
            break
    if exc is not None:
        return dict(outcome="raises", exc="%s|%s" % (type(exc).__name__, innermost(exc)), detail=str(exc)[:120]), steps
    if not finished:
        return dict(outcome="waits", rest=bytes(p.msg)), steps
    if m["kind"] == "req":
        start = (p.method, p.url, p.version)
    else:
        start = (p.version, p.status, p.reason)
    return dict(outcome="errored" if p.errored else "parsed",
                start=start, headers=hdict(p.headers), body=bytes(p.body), trailers=hdict(p.trails),
                rest=bytes(p.msg), error=p.error, parms=pdict(p.parms), ended=bool(p.ended),
                prompt=(delivered <= need)), steps


TRUTH_FIELDS = ("start", "headers", "body", "trailers", "rest", "prompt")


def diff_truth(obs, truth):
    """First field of the observation that differs from the ground truth (None if equal)."""
    if obs["outcome"] != "parsed":
        return obs["outcome"] + (":" + obs["exc"] if "exc" in obs else "")
    for f in TRUTH_FIELDS:
        if obs[f] != truth[f]:
            return f
    return None


def diff_obs(a, b):
    if a["outcome"] != b["outcome"]:
        return "outcome:%s/%s" % (b["outcome"] + (":" + b["exc"] if "exc" in b else ""),
                                  a["outcome"] + (":" + a["exc"] if "exc" in a else ""))
    for f in sorted(set(a) | set(b)):
        if f == "detail":
            continue
        if a.get(f) != b.get(f):
            return f
    return None


# --------------------------------------------------------------------------- large messages

def _fill(n, seed):
    """n deterministic bytes with line enders sprinkled in."""
    unit = (b"%s-0123456789abcdefghijklmnopqrstuvwxyz\r\n" % seed) + b"x" * 23 + b"\n" + b"y" * 17 + b"\r"
    return (unit * (n // len(unit) + 1))[:n]


def large_messages():
    """A dozen messages above the 64 KiB line limit (MAX_LINE_SIZE only limits a LINE, not a message)."""
    V11, V10 = (1, 1), (1, 0)
    host, srv = H("Host", "example.com"), H("Server", "s")
    d = "%x"
    small_req = b"GET /next HTTP/1.1\r\nHost: example.com\r\n\r\n"
    small_rsp = b"HTTP/1.1 200 OK\r\nContent-Length: 2\r\n\r\nok"
    big_req = b"POST /big HTTP/1.1\r\nHost: example.com\r\nContent-Length: 70000\r\n\r\n" + _fill(70000, b"q")
    big_rsp = b"HTTP/1.1 200 OK\r\nContent-Length: 70000\r\n\r\n" + _fill(70000, b"r")
    ms = []
    A = ms.append
    A(make("large-req-len-70000", "req", ("POST", "/l", V11), [host], ("length", _fill(70000, b"a")), tail=small_req))
    A(make("large-req-len-150000", "req", ("PUT", "/l", V11), [host], ("length", _fill(150000, b"b")), tail=small_req))
    A(make("large-rsp-len-70000", "rsp", (V11, 200, "OK"), [srv], ("length", _fill(70000, b"c")), tail=small_rsp))
    A(make("large-rsp-len-150000", "rsp", (V11, 200, "OK"), [srv], ("length", _fill(150000, b"d")), tail=small_rsp))
    A(make("large-req-chunked-70000+", "req", ("POST", "/c", V11), [host],
           ("chunked", [(_fill(70000, b"e"), "", d), (b"abc", "", d), (_fill(9000, b"f"), "", d)], "", [H("X-T", "v"), H("X-U", "w")]),
           tail=small_req))
    A(make("large-rsp-chunked-70000+", "rsp", (V11, 200, "OK"), [srv],
           ("chunked", [(_fill(70000, b"g"), "", d), (b"abc", "", d), (_fill(9000, b"h"), "", d)], "", [H("X-T", "v")]),
           tail=small_rsp))
    A(make("large-rsp-chunked-many", "rsp", (V11, 200, "OK"), [srv],
           ("chunked", [(_fill(30000, b"i"), "", d)] * 5, "", []), tail=small_rsp))
    A(make("large-rsp-close-150000", "rsp", (V10, 200, "OK"), [srv], ("close", _fill(150000, b"j"))))
    A(make("small-req-before-large", "req", ("GET", "/s", V11), [host], tail=big_req))
    A(make("small-rsp-before-large", "rsp", (V11, 200, "OK"), [srv], ("length", b"hi"), tail=big_rsp))
    A(make("small-req-chunked-before-large", "req", ("POST", "/s", V11), [host],
           ("chunked", [(b"abc", "", d)], "", [H("X-T", "v")]), tail=big_req))
    A(make("small-rsp-chunked-before-large", "rsp", (V11, 200, "OK"), [srv],
           ("chunked", [(b"abc", "", d)], "", [H("X-T", "v")]), tail=big_rsp))
    return ms


def large_deliveries(m):
    """(description, pieces): whole, two pieces at a handful of cut points, 8 KiB pieces, 60000-byte pieces."""
    wire = m["wire"]
    n, ml = len(wire), m["msglen"]
    head = wire.index(b"\r\n\r\n") + 4 if b"\r\n\r\n" in wire else ml
    out = [("whole", [wire])]
    cuts = sorted(set(c for c in (head - 2, head, head + 1, (head + ml) // 2, 65536, 65537, ml - 7, ml - 2, ml - 1, ml, ml + 1)
                      if 0 < c < n))
    for c in cuts:
        out.append(("cut@%d" % c, [wire[:c], wire[c:]]))
    for size in (8192, 60000):
        out.append(("%d-byte pieces" % size, [wire[i:i + size] for i in range(0, n, size)]))
    return out


def short(v, limit=160):
    r = repr(v)
    return r if len(r) <= limit else r[:limit] + "...(%d chars)" % len(r)


def work_large(idx):
    core.use_repo()
    m = large_messages()[idx]
    part = core.Part()
    parser = "Requestant" if m["kind"] == "req" else "Respondent"
    whole = None
    for desc, pieces in large_deliveries(m):
        obs, steps = execute(m, pieces)
        part.states += 1
        part.transitions += steps
        part.traces += 1
        part.evaluations += 1
        part.nontrivial((m["label"], desc))
        if whole is None:
            whole = obs
        dt = diff_truth(obs, m["truth"])
        part.outcome("%s:large:%s:%s" % (m["kind"], m["framing"], obs["outcome"] + (":" + obs["exc"] if "exc" in obs else "")))
        replay = dict(parser=parser, message=m["label"], bytes=len(m["wire"]), message_bytes=m["msglen"], delivery=desc,
                      piece_sizes=[len(p) for p in pieces], close_after=m["close"], method=m["method"],
                      how="messages are built by checks/c29.py large_messages(); body filler _fill(n, seed)",
                      error=obs.get("error"), outcome=obs["outcome"])
        if dt is not None:
            part.violation("%s|large-vs-truth|%s" % (parser, dt), "%s %s" % (m["label"], desc),
                           "%s parsing %s (%d bytes) delivered %s: %s differs from the message content (got %s%s)"
                           % (parser, m["label"], m["msglen"], desc, dt, short(obs.get(dt, obs.get("detail", obs["outcome"]))),
                              ", error %r" % obs.get("error") if obs.get("error") else ""), replay)
        elif diff_obs(obs, whole) is not None:
            part.violation("%s|large-split-vs-whole|%s" % (parser, diff_obs(obs, whole)), "%s %s" % (m["label"], desc),
                           "%s gives a different result for %s delivered %s than delivered whole" % (parser, m["label"], desc), replay)
    part.sample(dict(message=m["label"], bytes=len(m["wire"]), deliveries=[d for d, p in large_deliveries(m)]))
    return part


# --------------------------------------------------------------------------- re-armed parser (keep-alive)

REARM = {   # kind -> (labels of first messages with a body, labels of following messages whose head implies no body)
    "req": (["req-post-len", "req-put-chunked", "req-post-chunked-trailers"],
            ["req-get-min", "req-delete-len0", "req-http10-bare", "req-options-star"]),
    "rsp": (["rsp-200-len", "rsp-200-chunked", "rsp-200-chunked-trailers"],
            ["rsp-204", "rsp-304", "rsp-200-len0", "rsp-head-len"]),
}


def observe(kind, p):
    start = (p.method, p.url, p.version) if kind == "req" else (p.version, p.status, p.reason)
    return dict(outcome="errored" if p.errored else "parsed", start=start, headers=hdict(p.headers), body=bytes(p.body),
                trailers=hdict(p.trails), rest=bytes(p.msg), error=p.error)


def rearm_exec(kind, a, b, pieces):
    """ONE parser instance: message a, makeParser() (the way Valet / Porter / Patron re-arm it on a
    persistent connection; Patron also reinit(method=)), message b.  -> ([obs a, obs b] or fewer, steps)."""
    from ioflo.aio.http import clienting, serving
    if kind == "req":
        p = serving.Requestant(msg=bytearray(), incomer=FakeIncomer())
    else:
        p = clienting.Respondent(msg=bytearray(), method=a["method"])
    out, steps = [], 0
    try:
        for piece in list(pieces) + [b"", b""]:
            p.msg.extend(piece)
            for _ in range(3):
                steps += 1
                p.parse()
                if p.parser is not None or len(out) == 2:
                    break
                out.append(observe(kind, p))
                if len(out) == 1:
                    p.makeParser()
                    if kind == "rsp":
                        p.reinit(method=b["method"])
    except Exception as ex:
        out.append(dict(outcome="raises", exc="%s|%s" % (type(ex).__name__, innermost(ex)), detail=str(ex)[:120]))
    return out, steps


def work_rearm(kind):
    core.use_repo()
    byl = {m["label"]: m for m in messages()}
    part = core.Part()
    parser = "Requestant" if kind == "req" else "Respondent"
    firsts, seconds = REARM[kind]
    for la in firsts:
        for lb in seconds:
            a, b = byl[la], byl[lb]
            wire = a["wire"][:a["msglen"]] + b["wire"]
            truth_a = dict(a["truth"], rest=None)
            for cut in [0] + list(range(1, len(wire))):
                pieces = [wire] if cut == 0 else [wire[:cut], wire[cut:]]
                (obs, steps), hang = split.guarded(lambda: rearm_exec(kind, a, b, pieces), 5.0, 20.0, _HANG)
                part.states += 1
                part.transitions += steps
                part.traces += 1
                part.evaluations += 1
                part.nontrivial(("rearm", la, lb, cut))
                case = "%s then %s%s" % (la, lb, " cut@%d" % cut if cut else "")
                replay = dict(parser=parser, first=la, second=lb, wire=wire, pieces=pieces,
                              how="one %s: parse() until the first message ends, makeParser()%s, parse() on" % (
                                  parser, " + reinit(method=%r)" % b["method"] if kind == "rsp" else ""))
                problem = None
                if len(obs) < 2 or obs[-1]["outcome"] != "parsed":
                    problem = ("incomplete", "only %d message(s) parsed: %r" % (len(obs), [o["outcome"] for o in obs]))
                else:
                    for which, o, truth in (("first", obs[0], truth_a), ("second", obs[1], b["truth"])):
                        for f in ("start", "headers", "body", "trailers", "rest"):
                            if f == "rest" and which == "second":      # bytes of the tail delivered so far stay unconsumed
                                if truth[f].startswith(o[f]):
                                    continue
                            if truth.get(f) is not None and o[f] != truth[f]:
                                problem = ("%s-message-%s" % (which, f), "%s message %s parsed as %r, content is %r"
                                           % (which, f, o[f], truth[f]))
                                break
                        if problem:
                            break
                part.outcome("%s:rearmed:%s" % (kind, problem[0] if problem else "ok"))
                if problem:
                    part.violation("%s|re-armed|%s" % (parser, problem[0]), case,
                                   "%s re-armed with makeParser() on one connection, %s: %s" % (parser, case, problem[1]), replay)
    part.sample(dict(family="re-armed parser", kind=kind, pairs=len(firsts) * len(seconds)))
    return part


def work(arg):
    if arg[0] == "rearm":
        return work_rearm(arg[1])
    if arg[0] == "large":
        return work_large(arg[1])
    idx, k = arg
    core.use_repo()
    m = messages()[idx]
    part = core.Part()
    wire = m["wire"]
    parser = "Requestant" if m["kind"] == "req" else "Respondent"
    if True:   # every execution runs under its own watchdog (execute)
        whole, steps = execute(m, [wire])
        part.transitions += steps
        part.traces += 1
        part.states += 1
        part.evaluations += 1
        part.outcome("%s:%s:%s" % (m["kind"], m["framing"], whole["outcome"] + (":" + whole["exc"] if "exc" in whole else "")))
        dt = diff_truth(whole, m["truth"])
        if dt is not None:
            part.violation("%s|whole-vs-truth|%s" % (parser, dt), m["label"],
                           "%s parsing the complete message %s: %s differs from the message content (got %r)"
                           % (parser, m["label"], dt, whole.get(dt, whole.get("detail", whole["outcome"]))),
                           dict(parser=parser, message=m["label"], wire=wire, pieces=[wire], close_after=m["close"],
                                method=m["method"], expected=m["truth"], observed=whole))
        aborted = whole["outcome"] == "hangs"
        for cuts, pieces in split.splits(wire, k):
            if not cuts or aborted:
                continue
            for gaps in idle_schedules(len(pieces)):
                if aborted:
                    break
                obs, steps = execute(m, pieces, gaps)
                aborted = obs["outcome"] == "hangs"     # reported below; further schedules of this message are skipped
                part.states += 1
                part.transitions += steps
                part.traces += 1
                part.evaluations += 1
                # a schedule is non-trivial when a cut falls inside the message proper
                if cuts[0] < m["msglen"]:
                    part.nontrivial((m["label"], cuts, gaps))
                d = diff_obs(obs, whole)
                if d is not None:
                    part.outcome("%s:split-differs" % m["kind"])
                    shown = split.show(pieces, gaps=gaps)
                    part.violation("%s|split-vs-whole|%s" % (parser, d),
                                   "%s @ %s%s" % (m["label"], ",".join(map(str, cuts)),
                                                  " idle " + ",".join(map(str, gaps)) if any(gaps) else ""),
                                   "%s gives a different result for %s when it arrives as %s%s: %s differs (whole %r, split %r)"
                                   % (parser, m["label"], shown, " ('~' = parse() with no new bytes)" if any(gaps) else "", d,
                                      whole.get(d, whole["outcome"]), obs.get(d, obs["outcome"])),
                                   dict(parser=parser, message=m["label"], wire=wire, cuts=list(cuts), pieces=pieces,
                                        idle_passes_between_pieces=list(gaps), close_after=m["close"], method=m["method"],
                                        whole=whole, split=obs, expected=m["truth"]))
        if idx % 7 == 0:
            part.sample(dict(message=m["label"], wire=wire, bytes=len(wire), schedules=split.count_splits(len(wire), k),
                             whole=whole["outcome"]))
    import math
    n = len(wire)
    expect = sum(math.comb(n - 1, j) * len(idle_schedules(j + 1)) for j in range(0, k) if j <= n - 1)
    if aborted:
        part.capped = True
    elif part.states != expect:
        raise core.BrokenCheck("%s: explored %d schedules, closed form says %d" % (m["label"], part.states, expect))
    return part


def run():
    ck = core.Check("C29", "model_checking", META["technique"])
    ms = messages()
    items = []
    for i, m in enumerate(ms):
        k = 3
        if core.TIER == "thorough" and len(m["wire"]) <= 100:
            k = 4
        items.append((i, k))
    # biggest first for balance; results are merged in message order
    order = sorted(range(len(items)), key=lambda i: -split.count_splits(len(ms[i]["wire"]), items[i][1]))
    nlarge = len(large_messages())
    res = core.pmap(work, [items[i] for i in order] + [("large", j) for j in range(nlarge)] + [("rearm", "req"), ("rearm", "rsp")])
    parts = [None] * len(items)
    for pos, i in enumerate(order):
        parts[i] = res[pos]
    ck.merge(parts + res[len(items):])
    ck.coverage_extra = dict(large_messages=nlarge, messages=len(ms), max_message_bytes=max(len(m["wire"]) for m in ms),
                             pieces_bound="3" if core.TIER == "quick" else "3 (4 for messages <= 100 bytes)")
    ck.assumptions = [
        "ground truth: header value = text after the colon with optional blanks (SP/HTAB) removed (RFC 7230 3.2); names case-insensitive; "
        "trailers likewise; request start line = (method, request-target, version), response = (version, status, reason)",
        "a 100 Continue interim response followed by the final response is one well-formed response for the client parser (the code "
        "explicitly loops 'until we get a non-100 status')",
        "LF-only heads are accepted input because parseLine/parseLeader are called with eols=(CRLF, LF); they are not mixed with CRLF "
        "(mixed line ends in one HTTP head are outside the statement; see C33 for the event-stream case)",
        "chunk-extension parameters are compared between split and whole parse only (the statement lists start line, headers, body, trailers)",
        "a parse() call that does not return within 5 s, and again not within 20 s when the execution is repeated, is reported as 'hangs' "
        "(an execution normally takes well under a millisecond)",
        "large-message family: MAX_LINE_SIZE bounds a line, not a message; 12 messages of 70 000 - 150 000 bytes (fixed length, one 70 000 "
        "byte chunk + more chunks + trailers, read-until-close, a small message followed by a 70 000 byte one) are delivered whole, in two "
        "pieces at ~10 cut points (around the head end, mid body, at 65536/65537, around the message end) and in 8192- and 60000-byte pieces; "
        "same ground-truth oracle",
        "re-armed parser family: on a persistent connection Valet / Porter / Patron call makeParser() on the SAME Requestant / Respondent for "
        "the next message; a message with a body followed by a message whose head implies no body (GET, Content-Length: 0, 204, 304, HEAD "
        "response) is parsed that way, whole and cut in two at every offset; both results must equal their ground truth",
        "read-until-close responses: peer close is signalled with Respondent.close() after the last receive",
        "'its bytes' = the message's own bytes: the parse must be complete once the receive carrying the message's last byte has been "
        "parsed (field 'prompt'), not only after bytes of the next message arrive",
    ]
    return ck.finish(
        rule="state = (message, cut positions, idle passes per gap: 0 or 1 parse() calls with no new bytes between two receives, <= 1 gap deviating; thorough 0-2): all C(n-1,<=k-1) splits of each of the generated messages (+ next-message tail); transition = one "
             "parse() call after a receive (plus 2 idle polls when unfinished); trace = one fresh-parser execution compared with truth and "
             "with the whole parse; non-trivial = first cut inside the message proper",
        exhaustive=True)


if __name__ == "__main__":
    core.main(run)
